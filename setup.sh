#!/bin/sh
# Build the overlay interpreter used by every check: Python 3.12 with /repo's dependencies
# (through a .pth onto /venv's site-packages) plus z3-solver / cvc5 from the offline wheelhouse.
# Idempotent; offline; nothing under /tmp is needed afterwards.
set -e
HERE="$(cd "$(dirname "$0")" && pwd)"
VENV="$HERE/.venv"
if [ -x "$VENV/bin/python" ] && "$VENV/bin/python" -c "import z3, cvc5, yaml, bson, cryptography, jsonschema" 2>/dev/null; then
  exit 0
fi
rm -rf "$VENV"
/venv/bin/python -m venv "$VENV"
PIP_NO_INDEX=1 "$VENV/bin/python" -m pip install --quiet --no-index --find-links /opt/veriftools/wheels z3-solver cvc5 jsonschema >/dev/null
SP="$("$VENV/bin/python" -c 'import site; print(site.getsitepackages()[0])')"
echo "import site; site.addsitedir('/venv/lib/python3.12/site-packages')" > "$SP/_repo_deps.pth"
"$VENV/bin/python" -c "import z3, cvc5, yaml, bson, cryptography, jsonschema; print('overlay venv ok', z3.get_version_string())"
