#!/bin/sh
# tools/try_mutant.sh <dir with patch.diff demo.py meta.json> [extra property ids...]
# confirms the mutant (demo fails with / passes without the patch, tests still pass), stores it under
# /verif/seeded/<id>/ and runs the property's check against it; always restores /repo.
D="$1"; shift
ID=$(basename "$D")
PID=$(python3 -c "import json,sys; print(json.load(open('$D/meta.json'))['property'])")
VD=${VERIF_DIR:-/verif}
R=${MUT_REPO:-/repo}
cd $R || exit 3
[ -z "$(git status --porcelain)" ] || { echo "/repo not clean"; exit 3; }
OUT=/verif/seeded/$ID
mkdir -p $OUT && cp $D/patch.diff $D/demo.py $D/meta.json $OUT/
T=$(mktemp -d /dev/shm/mutdemo.XXXX)
( cd $T && HOME=$T PYTHONPATH=$R /venv/bin/python $OUT/demo.py >/dev/null 2>&1 ); CLEAN=$?
git apply $OUT/patch.diff || { echo "$ID: patch does not apply"; rm -rf $T; exit 3; }
( cd $T && HOME=$T PYTHONPATH=$R /venv/bin/python $OUT/demo.py > $T/demo.out 2>&1 ); MUT=$?
TESTS=$(/venv/bin/python -m pytest -q -p no:cacheprovider 2>&1 | tail -1)
RES=""
for P in $PID "$@"; do
  ( cd $VD && VERIF_REPO=$R ./check $P > $T/check_$P.txt 2>&1 ); RC=$?
  V=$(grep -c "^VIOLATION" $T/check_$P.txt)
  FIRST=$(grep -m1 -B1 "^VIOLATION" $T/check_$P.txt | head -1 | cut -c1-200)
  U=$(grep -c "^UNDECIDED" $T/check_$P.txt)
  RES="$RES {\"check\": \"$P\", \"exit\": $RC, \"violation_lines\": $V, \"undecided_lines\": $U, \"first\": $(python3 -c "import json,sys; print(json.dumps(sys.argv[1]))" "$FIRST")},"
  cp $T/check_$P.txt $OUT/check_$P.txt
done
git checkout -- . 
python3 - "$OUT" "$CLEAN" "$MUT" "$TESTS" "[${RES%,}]" <<'PY'
import json, sys
out, clean, mut, tests, res = sys.argv[1:6]
json.dump({"demo_exit_clean": int(clean), "demo_exit_mutant": int(mut), "tests_with_mutant": tests, "checks": json.loads(res)},
          open(out + "/result.json", "w"), indent=1)
r = json.loads(res)
print("%s: demo clean=%s mutant=%s | tests: %s | %s" % (out.split('/')[-1], clean, mut, tests.strip()[:40],
      "; ".join("%s exit=%s viol=%s und=%s" % (c["check"], c["exit"], c["violation_lines"], c["undecided_lines"]) for c in r)))
PY
rm -rf $T
