#!/bin/sh
# developer: run the deductive part of every check (no bounded drivers), 2 at a time; summary per property
cd /verif; mkdir -p .scratch/vcall
ls props | grep -E '^C[0-9][0-9]\.py$' | sed 's/\.py//' | VERIF_JOBS=8 xargs -P 2 -I{} sh -c './check {} --no-rac "$@" > .scratch/vcall/{}.txt 2>&1; echo "{} exit=$?"' -- "$@"
