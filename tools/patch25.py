p='/verif/pyvc/builtins_spec.py'; s=open(p).read()
s=s.replace('''    name = z3.simplify(ex.o.s(args[1]))
    if not z3.is_string_value(name):
        raise Unsupported("getattr with a dynamic name")
    yield from ex.getattr_(st, args[0], name.as_string(), cx)''','''    name = z3.simplify(ex.o.s(args[1]))
    if not z3.is_string_value(name):
        raise Unsupported("getattr with a dynamic name")
    if name.as_string() == "__module__":
        # the defining module of a class / the __module__ attribute of any other object (None if it has none)
        w, V = ex.w, ex.w.V
        v = args[0].e
        res = z3.If(V.is_cls(v), V.str(w.fun("class_module", w.Cls, "str")(V.c(v))), w.fun("obj_module", "V", "V")(v))
        st = st.clone()
        st.assume(z3.Or(V.is_none(res), V.is_str(res)))
        yield st, SV(res)
        return
    yield from ex.getattr_(st, args[0], name.as_string(), cx)''')
s+='''

def b_repr(ex, st, args, kwargs, cx, node):
    yield st, ex.o.str_(ex.text_of(st, args[0], "r"))


trusted("inspect.getfullargspec", "returns a fresh 7-tuple (args: new list of str, varargs: str|None, varkw: str|None, defaults, kwonlyargs: new list of str, "
        "kwonlydefaults, annotations: dict) and has no side effect")


def x_getfullargspec(ex, st, args, kwargs, cx):
    o, w, V = ex.o, ex.w, ex.w.V
    st = st.clone()
    a = o.seq_new(st, "list", [])
    st.wr("$len", o.r(a), w.fresh("nargs", z3.IntSort()))
    st.wr("$items", o.r(a), w.fresh("argnames", w.SORTS["items"]))
    k = o.seq_new(st, "list", [])
    st.wr("$len", o.r(k), w.fresh("nkw", z3.IntSort()))
    st.wr("$items", o.r(k), w.fresh("kwnames", w.SORTS["items"]))
    st.assume(z3.And(st.rd("$len", o.r(a)) >= 1, st.rd("$len", o.r(k)) >= 0))
    va, vk = SV(w.freshV("varargs")), SV(w.freshV("varkw"))
    for v in (va, vk):
        st.assume(z3.Or(V.is_none(v.e), V.is_str(v.e)))
    ann = o.dict_new(st)
    for arr in ("$map", "$dom", "$len", "$keys", "$pos"):
        st.wr(arr, o.r(ann), w.fresh(arr.strip("$"), w.SORTS[w.SPECIAL[arr]]))
    st.assume(st.rd("$len", o.r(ann)) >= 0)
    yield st, o.seq_new(st, "tuple", [a, va, vk, o.none(), k, o.none(), ann])


BUILTIN_FUNCS["repr"] = b_repr
EXTERNALS["inspect.getfullargspec"] = x_getfullargspec
'''
open(p,'w').write(s)
p='/verif/pyvc/eval_expr.py'; s=open(p).read()
s=s.replace('''        if o.ty == "cls" and attr == "__name__":
            yield st, self.o.str_(w.fun("class_name", w.Cls, "str")(V.c(o.e)))
            return''','''        if (o.ty or "").startswith("cls") and attr == "__name__":
            yield st, self.o.str_(w.fun("class_name", w.Cls, "str")(V.c(o.e)))
            return''')
open(p,'w').write(s)
p='/verif/contracts/a_attrs.py'; s=open(p).read()
s=s.replace('A("Field", required="bool",','A("Field", storage_type="any", required="bool",')
s=s.replace('    A("ListField", field="any", storage_type="any")','    A("ListField", field="any")')
open(p,'w').write(s)
