#!/bin/sh
# tools/mut.sh <file-relative-to-cincoconfig> <python-expr-replacing: s.replace(OLD,NEW)> -- run pyvc on a scratch copy
# usage: tools/mut.sh core.py 'OLD' 'NEW' qual...
F="$1"; OLD="$2"; NEW="$3"; shift 3
D=/dev/shm/mut.$$
mkdir -p $D && cp -r ${MUT_SRC:-/repo}/cincoconfig $D/ || exit 3
python3 - "$D/cincoconfig/$F" "$OLD" "$NEW" <<'PY'
import sys
p,old,new=sys.argv[1:4]
s=open(p).read()
assert s.count(old)>=1, "pattern not found"
open(p,'w').write(s.replace(old,new,1))
PY
[ $? -eq 0 ] || { rm -rf $D; exit 3; }
cd /verif && VERIF_REPO=$D .venv/bin/python -m pyvc.run "$@" 2>&1 | grep -v " unsat "
rm -rf $D
