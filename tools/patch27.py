p='/verif/pyvc/eval_expr.py'; s=open(p).read()
s=s.replace('''        if isinstance(op, ast.Add) and lt == "str" and rt == "str":''','''        if cx.spec is not None and isinstance(op, ast.Add) and None in (lt, rt):
            other = lt if rt is None else rt
            if other in ("bytes", "str"):      # contract text: the untyped operand is used under a guard that fixes its type
                lt = rt = other
        if isinstance(op, ast.Add) and lt == "str" and rt == "str":''')
s=s.replace('''            c = vs[0]
            t = o.tyof(st1, c)
            it = iter(vs[1:])''','''            c = vs[0]
            t = o.tyof(st1, c)
            if t is None and cx.spec is not None:
                t = "bytes"      # contract text: slices are only written over byte strings
            it = iter(vs[1:])''')
open(p,'w').write(s)
p='/verif/pyvc/eval_call.py'; s=open(p).read()
s=s.replace('''        if ty and ty.startswith("ref:"):
            yield from self.call_method(st, o, None, attr, args, kwargs, cx)
            return''','''        from .eval_expr import NAMEDTUPLES
        if ty and ty.startswith("ref:") and any(attr in f and self.src.is_subclass(ty[4:], nt) for nt, f in NAMEDTUPLES.items()):
            for st1, fv in self.getattr_(st, o, attr, cx):
                yield from self.call_value(st1, fv, args, kwargs, cx)
            return
        if ty and ty.startswith("ref:"):
            yield from self.call_method(st, o, None, attr, args, kwargs, cx)
            return''')
open(p,'w').write(s)
