#!/usr/bin/env python3
"""(re)generate MANIFEST.json from props/Cxx.py META and the lock file"""
import importlib
import json
import os
import sys

HERE = os.path.dirname(os.path.dirname(os.path.abspath(__file__)))
sys.path.insert(0, HERE)
props = [json.loads(l) for l in open(os.path.join(HERE, "properties.jsonl"))]
lock = json.load(open(os.path.join(HERE, "obligations.lock.json")))
checks, na = [], []
for p in props:
    pid = p["id"]
    m = importlib.import_module("props." + pid)
    meta = m.META
    if meta.get("not_applicable"):
        na.append({"property_id": pid, "reason": meta["not_applicable"]})
        continue
    n = len(lock.get(pid, []))
    checks.append({
        "property_id": pid,
        "quick_cmd": "./check %s --tier quick" % pid,
        "thorough_cmd": "./check %s --tier thorough" % pid,
        "evidence_file": "evidence/%s.json" % pid,
        "replay_cmd_template": "./check %s --replay {path}" % pid,
        "engine": "pyvc",
        "level_claimed": {"category": meta["level"], "text": meta["claim"], "design_ref": "DESIGN.md section 7 (%s) and section 12" % pid},
        "level_note": meta["note"],
        "technique": meta["technique"],
    })
man = {
    "version": 1,
    "setup_cmd": "./setup.sh",
    "hooks": {
        "guard": "CINCOCONFIG_VERIF",
        "enable": "no hooks in /repo: contracts are sidecar files (/verif/contracts), the real source is re-read with ast on every run; "
                  "the guard variable is not used by /repo",
        "baseline_off_cmd": "cd /repo && /venv/bin/python -m pytest -ra -q -p no:cacheprovider --timeout=900 --continue-on-collection-errors",
        "source_commits": [],
        "add_only": True,
    },
    "engines": [
        {"name": "pyvc", "path": "pyvc/", "serves_properties": [c["property_id"] for c in checks],
         "kind_free_text": "contract-based deductive verifier for the real Python source: ast -> symbolic execution against sidecar contracts "
                           "-> named verification conditions -> z3 5.1 / cvc5 1.0.3; plus run-time contract drivers (props/*_rac.py) as bounded "
                           "stand-in and replay harness"}],
    "checks": checks,
    "not_applicable": na,
    "notes": "fix: commits in /repo repair genuine defects found by the checks (known_findings.json lists fixed and open ones). "
             "Exit codes: 0 held, 1 violation (VIOLATION line), 2 undecided, 3 engine error.",
}
json.dump(man, open(os.path.join(HERE, "MANIFEST.json"), "w"), indent=1)
print("checks:", len(checks), "not_applicable:", len(na))
