p='/verif/pyvc/state.py'; s=open(p).read()
s=s.replace('elif name in ("rand_ctr", "stdout", "ncalls"):','elif name in ("rand_ctr", "stdout", "ncalls", "nparse", "nload"):')
open(p,'w').write(s)
p='/verif/pyvc/eval_call.py'; s=open(p).read()
s=s.replace('''            elif loc in ("fs", "rand_ctr", "stdout", "env", "ncalls", "unwritable"):
                nv = w.fresh(loc, s.g(loc).sort())
                if loc in ("rand_ctr", "stdout", "ncalls"):''','''            elif loc in ("fs", "rand_ctr", "stdout", "env", "ncalls", "unwritable", "nparse", "nload"):
                nv = w.fresh(loc, s.g(loc).sort())
                if loc in ("rand_ctr", "stdout", "ncalls", "nparse", "nload"):''')
s=s.replace('''        cls = None
        V, w = self.w.V, self.w
        isct = ''','''        V, w = self.w.V, self.w
        if t.startswith("ref:partial") or (fv.e is not None and not t and self.o.entails(st, self.o.is_type(fv.e, "ref:partial"), cheap=True)):
            # functools.partial(ConfigFormat.get, name, **kwargs)()
            r = self.o.r(fv)
            tgt = z3.simplify(V.s(st.rd("$pf_target", r)))
            if not (z3.is_string_value(tgt) and tgt.as_string() == "ConfigFormat.get") or args or kwargs:
                raise Unsupported("call of a partial object other than partial(ConfigFormat.get, ...)()")
            name = SV(st.rd("$pf_arg0", r))
            kw = SV(st.rd("$pf_kwargs", r), "ref:dict")
            yield from self.call_method(st, self.o.cls("ConfigFormat"), "ConfigFormat", "get", [name], {"**": kw}, cx, classmethod_=True)
            return
        isct = ''')
open(p,'w').write(s)
p='/verif/pyvc/builtins_spec.py'; s=open(p).read()
s+='''

def b_partial(ex, st, args, kwargs, cx, node):
    """functools.partial(ConfigFormat.get, name, **kwargs): the only shape /repo uses"""
    import ast as _ast
    if _ast.unparse(node.args[0]) != "ConfigFormat.get" or len(args) != 2:
        raise Unsupported("functools.partial of %s" % _ast.unparse(node.args[0]))
    st = st.clone()
    r = st.new_ref("partial")
    st.wr("$pf_target", r, ex.w.V.str(z3.StringVal("ConfigFormat.get")))
    st.wr("$pf_arg0", r, args[1].e)
    kw = kwargs.get("**")
    if kw is None:
        if kwargs:
            raise Unsupported("partial with explicit keywords")
        kw = ex.o.dict_new(st)
    st.wr("$pf_kwargs", r, kw.e)
    yield st, ex.o.ref(r, "partial")


BUILTIN_FUNCS["partial"] = b_partial
'''
open(p,'w').write(s)
