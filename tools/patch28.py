p='/verif/pyvc/eval_expr.py'; s=open(p).read()
s=s.replace('''        if cls is None:
            raise Unsupported("attribute %s on value of unknown class (%s)" % (attr, o.ty))
        decl = self.reg.attr_decl(self.src, cls, attr)''','''        if cls is None and cx.spec is None and o.e is not None:
            # dynamic receiver: objects of the classes that have the attribute / everything else raises AttributeError
            owners = [c for c in self.reg.attr_owners(attr)]
            owners += [c for c, ci in self.src.classes.items() if attr in ci.properties and c not in owners]
            owners = sorted(set(owners), key=lambda c: -len(self.src.mro(c)))
            if owners:
                rest = st
                for c in owners:
                    br = rest.clone()
                    br.assume(self.o.is_type(o.e, "ref:" + c))
                    if self.o.feasible(br):
                        yield from self.getattr_(br, SV(o.e, "ref:" + c), attr, cx)
                    rest = rest.clone()
                    rest.assume(z3.Not(self.o.is_type(o.e, "ref:" + c)))
                if self.o.feasible(rest):
                    yield from self.raise_new(rest, "AttributeError")
                return
        if cls is None:
            raise Unsupported("attribute %s on value of unknown class (%s)" % (attr, o.ty))
        decl = self.reg.attr_decl(self.src, cls, attr)''')
open(p,'w').write(s)
p='/verif/pyvc/eval_call.py'; s=open(p).read()
s=s.replace('''        if ty == "hashalg":
            raise Unsupported("hash algorithm attribute call")
        raise Unsupported("method %s on %s" % (attr, ty))''','''        if ty == "hashalg":
            raise Unsupported("hash algorithm attribute call")
        if ty is None and o.e is not None and attr in ("__getitem__", "__setitem__", "_get_field", "__contains__"):
            # dynamic receiver of a Config protocol method: a configuration, or any other object (whose method is
            # opaque: arbitrary result or exception, no effect on library state - or AttributeError)
            isc = self.o.is_type(o.e, "ref:Config")
            br = st.clone()
            br.assume(isc)
            if self.o.feasible(br):
                yield from self.call_method(br, SV(o.e, "ref:Config"), "Config", attr, args, kwargs, cx)
            rest = st.clone()
            rest.assume(z3.Not(isc))
            if self.o.feasible(rest):
                a = rest.clone()
                res = SV(self.w.freshV("opaque"))
                a.assume(z3.Implies(self.w.V.is_ref(res.e), z3.And(self.w.V.r(res.e) > 0, self.w.V.r(res.e) <= a.alloc)))
                if attr != "__setitem__":
                    yield a, res
                b = rest.clone()
                ec = self.w.fresh("exc", self.w.Cls)
                b.alloc = b.alloc + 1
                b.assume(self.w.subclass(ec, "Exception"))
                b.assume(self.w.cls_of(b.alloc) == ec)
                yield b, Raise(ec, self.w.V.ref(b.alloc))
            return
        raise Unsupported("method %s on %s" % (attr, ty))''')
open(p,'w').write(s)
