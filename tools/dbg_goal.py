"""debug: print the short path-condition facts of every non-unsat VC of one function: tools/dbg_goal.py <qual> [label-substring]"""
import sys
sys.path.insert(0, '/verif')
from pyvc.source import Source
from pyvc.verify import load_registry, verify_function
import pyvc.verify as V
src = Source(); reg = load_registry()
orig = V.check
want = sys.argv[2] if len(sys.argv) > 2 else None
def chk(asserts, timeout_ms):
    r = orig(asserts, timeout_ms)
    if r['verdict'] != 'unsat':
        print('====', r['verdict'], 'goal:', str(asserts[-1])[:600].replace('\n', ' '))
        for a in asserts[:-1]:
            sa = str(a).replace('\n', ' ')
            if len(sa) < 200 and 'cls_of' not in sa and 'Implies(is(vref' not in sa and not sa.startswith('is(') and '>= 0' not in sa and sa != 'True':
                print('    ', sa)
    return r
V.check = chk
verify_function(src, reg, sys.argv[1], select=(lambda l: want in l) if want else None)
