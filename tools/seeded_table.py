#!/usr/bin/env python3
"""print the markdown table of DESIGN.md 12.7 from seeded/*/{meta.json,result.json,check_Cxx.txt}"""
import glob, json, os, re, sys
rows = []
caught = vc = 0
for d in sorted(glob.glob("/verif/seeded/*/")):
    mid = os.path.basename(d.rstrip("/"))
    try:
        meta = json.load(open(d + "meta.json")); res = json.load(open(d + "result.json"))
    except Exception as e:
        rows.append("| %s | (no result: %s) | | | |" % (mid, e)); continue
    pid = meta["property"]
    chk = next((c for c in res["checks"] if c["check"] == pid), res["checks"][0])
    vcs, rac = [], []
    try:
        lines = open(d + "check_%s.txt" % pid).read().splitlines()
    except OSError:
        lines = []
    for i, ln in enumerate(lines):
        if ln.startswith("VIOLATION") and i > 0:
            prev = lines[i - 1]
            m = re.match(r"C\d\d (\S+?)(:| )", prev)
            ob = prev.split(" ", 1)[1].split(": ")[0] if " " in prev else prev
            (vcs if "no-failing-input-found" in ln or "refuted" in prev else rac).append(ob.strip())
    def uniq(xs):
        out = []
        for x in xs:
            if x not in out:
                out.append(x)
        return out
    vcs, rac = uniq(vcs), uniq(rac)
    ok = chk["exit"] == 1 and chk["violation_lines"] > 0
    caught += ok
    vc += bool(ok and vcs)
    by = []
    if vcs:
        by.append("VC " + ", ".join("`%s`" % v for v in vcs[:2]) + (" (+%d)" % (len(vcs) - 2) if len(vcs) > 2 else ""))
    if rac:
        by.append("bounded " + ", ".join("`%s`" % v for v in rac[:2]) + (" (+%d)" % (len(rac) - 2) if len(rac) > 2 else ""))
    status = "**caught** (exit 1)" if ok else "missed (exit %s)" % chk["exit"]
    sane = "" if (res["demo_exit_clean"] == 0 and res["demo_exit_mutant"] != 0 and "477 passed" in res["tests_with_mutant"]) else " [demo/tests?]"
    rows.append("| %s | %s | %s%s | %s |" % (mid, meta["summary"].replace("|", "/")[:230], status, sane, "; ".join(by)))
print("| id | change | result | reported by |\n|---|---|---|---|")
print("\n".join(rows))
print("\n%d of %d caught by the property's own check; %d of those (also) by a named deductive obligation." % (caught, len(rows), vc), file=sys.stderr)
