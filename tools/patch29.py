p='/verif/pyvc/eval_call.py'; s=open(p).read()
s=s.replace('''        if ty is None and o.e is not None and attr in ("__getitem__", "__setitem__", "_get_field", "__contains__"):''','''        if ty is None and o.e is not None and attr in ("_get_field", "__setdefault__"):
            # private protocol methods exist only on /repo classes: anything else raises AttributeError
            owner = {"_get_field": "Config", "__setdefault__": "BaseField"}[attr]
            isc = self.o.is_type(o.e, "ref:" + owner)
            br = st.clone()
            br.assume(isc)
            if self.o.feasible(br):
                yield from self.call_method(br, SV(o.e, "ref:" + owner), None if owner == "BaseField" else owner, attr, args, kwargs, cx)
            rest = st.clone()
            rest.assume(z3.Not(isc))
            if self.o.feasible(rest):
                yield from self.raise_new(rest, "AttributeError")
            return
        if ty is None and o.e is not None and attr in ("__getitem__", "__setitem__", "__contains__"):''')
open(p,'w').write(s)
p='/verif/contracts/support.py'; s=open(p).read()
s=s.replace('''implies('.' in key and typeis(fieldof(self, path_head(key)), 'ref:Schema|ref:ConfigTypeField'),"''','''implies('.' in key and fieldof(self, path_head(key)) is not None and not typeis(fieldof(self, path_head(key)), 'ref:VirtualFieldMixin') and has(self._data, path_head(key)) and typeis(get(self._data, path_head(key)), 'ref:Config'),"''')
open(p,'w').write(s)
