#!/usr/bin/env python3
"""rewrite DESIGN.md section 12.7 (seeded changes) and 12.8 from the seeded/ results"""
import subprocess, re
p = '/verif/DESIGN.md'
s = open(p).read()
a = s.index('### 12.7 Seeded changes')
b = s.index('---------------------------------------------------------------------------------------------------\n\n## Appendix A')
table = subprocess.run(['python3', '/verif/tools/seeded_table.py'], capture_output=True, text=True)
summary = table.stderr.strip().splitlines()[-1]
text = '''### 12.7 Seeded changes (independent sub-agents, property text only) and which check catches which

Seven rounds, 260 changes (thirteen per property; round 7 asked for one change per property) and a targeted mini-round of 4 (C01/C05, aimed at the validators newly under contract), each written by a fresh sub-agent that was given only the
property's entry of `properties.jsonl` and its own scratch worktree of /repo (nothing from /verif), each
confirmed by me (`git apply` on a clean checkout; the demo passes without and fails with the change; the
477 tests still pass; `git checkout -- .`): `seeded/<id>/{patch.diff, demo.py, meta.json, result.json,
check_Cxx.txt}`.  None is ever committed to /repo.  `tools/try_mutant.sh seeded/<id>` re-runs one,
`tools/seeded_table.py` prints the table below from the stored results.

What each round found, on its FIRST run against the machinery as it stood, and what was strengthened:

* **Round 1 (`_1`, `_2`): 33/40.**  Misses led to: the keyword clause of `Config.__init__` (C12_2),
  `StringField._validate` under contract (C01_1), virtual fields in `to_tree`'s mask clauses (C10_2), the AES
  format/inversion clauses also serving C02/C19 and `%`/`//` in the executor (C19_1), reporting locked
  auxiliary obligations (§12.2-7: C12_2, C13_2), contracts for `loads`/`include` (C18_1, C18_2) and the stub
  helpers (C20_2), driver histories for detached schemas (C16_1).
* **Round 2 (`_3`, `_4`): 23/40.**  Misses were mostly *histories and input classes the drivers did not
  enumerate*: re-insertion of items edited in place (C11_4, C06_4), key-file histories over several
  sessions (C03_3, C03_4, C19_3), deep lists for the mask (C10_3), lazily self-reading iterables and keys
  holding None (C17_3), repeated loads of includes (C18_3), unusual classes in stubs (C20_3, C20_4),
  cross-configuration assignment (C13_3), empty mutable defaults (C13_4, C12_3), un-encodable values in JSON
  (C19_4), junk base64 (C08_3), plaintext-looking digests (C09_4).  Every driver got the missing scenario
  class (by its author, from a description of the *class*, not of the mutant); the same extensions found
  four genuine defects of the pinned tree (§12.5, last four) and one regression of my own repair.
* **Round 3 (`_5`, `_6`): 36/40.**  Misses: C04_5 (`endswith` root-tag check: the function left the subset
  → exit 2 *undecided*, and the driver had no near-miss tags) → `str.endswith` in the executor + near-miss
  root tags/keys in the driver; C06_6 (a typed list re-used in place, rejected later by the field's own
  validator) → `ListField._validate` held to the virtual contract with the frame "nothing that existed
  changes" + whole-value validators in the driver; C15_6 (tuple keys in dict error paths) → odd keys in the
  driver; C19_6 (`load` strips the bytes: only BSON documents whose length byte is whitespace) → contract
  for `Config.load` + a document-size sweep in the driver.
* **Round 4 (`_7`, `_8`; prompt asked for changes that are as hard to notice as possible): 26/40.**  Misses and what
  they led to: C02_7/C02_8 (YAML root key equal to a field name; default key file preferred over the parent's)
  were caught by contracts that were only tagged for C04/C03 → the format clauses now also serve C02, the
  key-file resolution clauses C02/C19; C03_8 → class-level key files and renaming in the C03 driver; C07_8 (a
  provider cache that keeps the key) → the C07 driver walks the whole object graph after close; C09_8 →
  digest-looking plaintexts; C12_7/C13_8 → empty constant defaults and factories that hand out one shared
  object; C15_8 → `ListProxy._validate` clause "an item is linked before it is validated" + ready-made
  configuration objects in the driver; C16_7/C16_8 → the parser must accept what the field accepts, ignore
  names that are prefixes of other destinations; C17_8 → reflected operators; C18_7 → declaration order of
  includes and nested scopes (independent reference merge in the driver); C19_7/C19_8 → `os.path` models,
  `KeyFile.__enter__/__exit__` clauses also serve C19/C03, destination names and key-file failure histories.
* **Round 5 (`_9`, `_10`; interactions, later steps of a history, boundaries): 34/40.**  Misses: C01_9 (choices
  compared after case folding) → choices together with transforms; C06_10 → dotted paths that reach into
  container fields + a raise clause on `Config.__setitem__`; C07_10 → almost-valid key files; C14_10 → every
  schema construction route must give the documented variable names; C19_9 → values outside a format's domain
  (which also found a genuine defect, §12.5); **C17_9 was first *proved*** → §12.6b.
* **Round 6 (`_11`, `_12`; least obvious clause, shared helpers, other objects, boundaries): 36/40.**  Misses: C10_11
  (masked re-rendering of lists uses the raw item) → element-wise invariants on the re-rendering comprehension of
  `to_tree` + containers of sensitive scalars in the driver (which found a genuine defect, §12.5); C11_12 (held list
  re-validated only for Schema items) → `ListField._validate` clause "every configuration item of the list already
  held is validated again" (loop invariant) + held items invalidated after insertion in the driver; C14_11 →
  challenge/digest defaults with an environment binding; C16_11 (memoised enumeration) → enumeration after a schema
  change and nested-start enumeration (which found a genuine defect of `get_all_fields`, §12.5).

* **Round 7 (`_13`; one change per property, aimed at easily overlooked corners - net/file/url fields, proxies of sibling
  fields, XML converters, key files over sessions, argparse/enumeration helpers): 19/20.**  Miss: C19_13 (`Config.save`
  remembers the bytes it wrote last and skips the write when the content is unchanged and the destination exists; the new
  attribute puts `save` outside the verifier's subset → exit 2 *undecided*, and every history of the driver built a new
  configuration object per save) → histories of ONE configuration object saved several times: to another destination that
  already holds an older configuration, to the same destination after someone else overwrote / truncated / deleted /
  replaced it, after edits.

* **Mini-round 8 (`C01_14`, `C01_15`, `C05_14`, `C05_15`; the agents were pointed at the net / file / url field classes, which session 3
  brought under contract): 3/4.**  C01_15 (prefix bounds skipped for a bare address) and C05_15 (`abspath` → `normpath`) fail named
  obligations of the new contracts and the drivers; C05_14 (`max_prefix_len or net.max_prefixlen`) first left the subset (unknown
  attribute `max_prefixlen`; the driver caught it) → the attribute is modelled and the change now also fails
  `IPv4NetworkField._validate/post:C05+C01.prefix-length-within-bounds`.  Miss: C01_14 (the NetBIOS pattern's length bound `{1,15}` →
  `{1,16}`): regular expressions are uninterpreted in the proofs, so only a driver can see it, and the C01 driver's pool had no
  NetBIOS-only name at the boundary (the C05 driver's pool has, and catches it) → names of length 1, 15 and 16 made of NetBIOS-only
  characters in the C01 pool.

An *undecided* outcome (exit 2: a changed function left the verifier's subset and the bounded driver saw
nothing) is counted as a miss.

''' + table.stdout + '\n' + summary + '''

### 12.8 What is still not under contract (next steps, in order of value)

`DictProxy.__init__/update/|=/copy` and `DictField._validate` (`list(d.items())`, `dict(pairs)`) · slice
assignment and the inherited list/dict built-ins (C17) · `get_all_fields` and the argparse generator (C16) ·
`generate_stub` / `get_method_annotation` (C20) · `Config._process_includes` and `BaseField._ref_path`
(trusted today) · a deep (recursive)
inverse of the XML converters (C04) · end-to-end decryption across sessions as a lemma over `KeyFile` and
`SecureField` (C03) · if-conversion (path merging) in the executor: `StringField._validate` explodes into 706
paths, which is what makes the C01/C05/C11/C13 quick checks take 3–4 minutes.

### 12.9 Session 3: the net / url / file validators brought under contract

`IPv4AddressField`, `IPv4NetworkField`, `HostnameField`, `UrlField` and `FilenameField._validate` (inherited by `IncludeField`) were
"bounded only" until session 3.  They are now verified bodies (`contracts/fields.py`: `register_net`, `register_hostname`,
`register_url`, `register_filename`) against contracts written from the property text and the class documentation: the value stored is
the StringField normal form passed through the external parser (canonical text for addresses and networks, the resolved address for
`resolve=True`, the name resolved against `startdir` for file names), and a value is rejected - always with a `ValueError` - exactly when
the inherited StringField constraints, the parser, or the class's own option (prefix bounds, `allow_ipv4`, DNS/NetBIOS shape, scheme,
existence requirement) refuses it.  The parsers, the resolver and the file system are uninterpreted predicates (§12.4); the contracts do
not restate `accepts_type` through a class-local definition, so the clauses of the `super()._validate` call keep meaning the StringField
constraints.  One assumption had to be stated for `FilenameField`: `transform_strip` has its declared type (`None`, `bool` or `str`) -
union-typed attributes are not assumed on read, and without it the solver chose the tuple allocated for the error message as the strip
option (found as a spurious `sat`, corrected in the contract, not in the code).

Probes on a scratch copy (`tools/mut.sh`, each must fail a named obligation and did; the independent changes of mini-round 8, §12.7, are the real test): `<` → `<=` in the minimum prefix check; `is not None`
→ truthiness for `max_prefix_len` (the pinned tree's original defect); `return value` instead of `str(net)`; parser error swallowed;
`and` → `or` in the host-name shape test; `allow_ipv4` ignored; resolved name dropped; address not canonicalised; resolution failure
swallowed; scheme test weakened; result lower-cased; `isdir` → `exists`; `exists is False` → falsiness; `startdir` applied to absolute
names; `expanduser` dropped.  Two further probes (`max` compared with `min_prefix_len`, the `super()` call removed) leave the subset (a
comparison of `int` with `None`, a parser applied to a value not known to be text) → exit 2, decided by the bounded driver only.

'''
s = s[:a] + text + s[b:]
open(p, 'w').write(s)
print(summary)
