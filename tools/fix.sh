#!/bin/sh
# usage: tools/fix.sh "<commit message>"  (after editing /repo): run the test suite, commit if unchanged, else revert
cd /repo
R=$(/venv/bin/python -m pytest -q -p no:cacheprovider 2>&1 | tail -1)
echo "$R"
case "$R" in
  *"1 failed, 477 passed"*) git add -A && git commit -qm "$1" && git log --oneline | head -1;;
  *) echo "TESTS CHANGED - not committed, reverted"; /venv/bin/python -m pytest -q -p no:cacheprovider 2>&1 | grep FAILED; git checkout -- .;;
esac
