#!/bin/sh
# run every bounded driver once (quick) and list violations
cd /verif
for i in $(seq -w 1 20); do
PYTHONPATH=/verif:${VERIF_REPO:-/repo} .venv/bin/python - <<PY 2>&1 | tail -40
import json, importlib, time
t=time.time()
m = importlib.import_module("props.C${i}_rac")
r = m.rac("quick", 0)
print("C${i}: eval=%d distinct=%d wall=%.1fs violations=%d" % (r["evaluations"], r["distinct_nontrivial"], time.time()-t, len(r["violations"])))
for v in r["violations"]:
    print("    ", v["obligation"], "|", v.get("witness_key"), "|", str(v["what"])[:160])
PY
done
