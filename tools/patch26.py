p='/verif/pyvc/eval_call.py'; s=open(p).read()
s=s.replace('''        if t == "hashalg":
            yield from self.EXTERNALS["hashlib.new"](self, st, [fv] + args, kwargs, cx)
            return
        V, w = self.w.V, self.w''','''        if t == "hashalg" or (fv.e is not None and not t and self.o.entails(st, self.o.is_type(fv.e, "hashalg"), cheap=True)):
            yield from self.EXTERNALS["hashlib.new"](self, st, [fv] + args, kwargs, cx)
            return
        V, w = self.w.V, self.w''')
# namedtuple subclasses defined in /repo
s=s.replace('''        if cname in src.classes:
            st = st.clone()
            r = st.new_ref(cname)''','''        from .eval_expr import NAMEDTUPLES
        if cname in src.classes and any(src.is_subclass(cname, nt) for nt in NAMEDTUPLES) and not src.find_method(cname, "__init__"):
            st = st.clone()
            yield st, o.seq_new(st, cname, list(args))
            return
        if cname in src.classes:
            st = st.clone()
            r = st.new_ref(cname)''')
open(p,'w').write(s)
p='/verif/pyvc/eval_expr.py'; s=open(p).read()
# Hasher.digest_size attribute
s=s.replace('''        for nt, fields in NAMEDTUPLES.items():''','''        if attr == "digest_size" and (o.ty or "") == "ref:Hasher":
            from .builtins_spec import hash_funs
            H, dsz = hash_funs(w)
            alg = st.rd("$alg", self.o.r(o))
            st.assume(dsz(alg) > 0)
            yield st, self.o.int_(dsz(alg))
            return
        for nt, fields in NAMEDTUPLES.items():''')
open(p,'w').write(s)
p='/verif/contracts/a_attrs.py'; s=open(p).read()
s=s.replace('A("ChallengeField", algorithm="any")','A("ChallengeField", algorithm="hashalg")')
open(p,'w').write(s)
