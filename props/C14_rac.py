"""C14 - bounded run-time contract driver: environment variables beat files, assignment beats both, names are
predictable.

A case is a JSON dict (self-contained, also the replay format):

    {"levels": [e0, e1, ...],   schema-level env of the root schema and of each nested schema on the way down
                                (null = absent, true = automatic, "APP" = named prefix, false = disabled)
     "fenv": null|true|"MYVAR"|false,     field-level env
     "kind": "Int" | ...,                 field class under test (see KINDS)
     "state": "unset"|"empty"|"valid"|"invalid",   what the process environment holds for the field's variable
     "ops": ["load_tree", "loads:json", ..., "assign", ...]}     what happens after construction

Schemas are built top-down the documented way: `schema = Schema(env=e0)`; `schema.db = Schema(env=e1)` (or implicit
`schema.db...` when e1 is absent); `schema.db.srv.fhost = <Field>(env=fenv)`.

Reference naming function (from the property and the Field class documentation, NOT from __setkey__):
  * a schema with env=True starts an empty prefix, env="APP" starts the prefix "APP", env=False switches the
    mechanism off for itself and everything that inherits from it, env absent inherits the parent's prefix extended
    with its own upper-cased key (nothing to inherit at the root);
  * field env=False: no variable; env="MYVAR": MYVAR; env absent: prefix + "_" + KEY if the owning schema has a
    prefix, else no variable; env=True: prefix + "_" + KEY, with an empty prefix when the schema has none (the
    property is silent there; this is the literal rule of the class documentation).

Environment of a case: the expected variable (if any) holds the state's value, and EVERY OTHER plausible name (bare
key, full path, with and without APP_, MYVAR, ...) holds a value that is invalid for the field, so a wrong name shows.

Clauses checked on the real library:
  valid    -> the value after construction is the validated variable; load_tree / loads (every format) afterwards
              leave it; assignment replaces it
  invalid  -> construction raises ValidationError whose text names the field
  unset / empty / no variable expected -> construction, loads and assignment behave exactly like on a twin schema
              that has no env setting anywhere (same values after every step)
"""
import base64
import copy

from pyvc.raclib import Recorder, environ, sandbox, strict_eq

PID = "C14"
FORMATS = ["json", "yaml", "xml", "bson", "pickle"]
SCHEMA_ENVS = [None, True, "APP", False]
FIELD_ENVS = [None, True, "MYVAR", False]
KEYS = ["db", "srv", "pool"]    # keys of the nested schemas
FKEY = "fhost"                  # key of the field under test

OB_NAME = "core:Field.__setkey__/post:C14.variable-name"
OB_VALUE = "core:Field.__setdefault__/post:C14.value-is-validated-variable"
OB_INVALID = "core:Field.__setdefault__/raise:C14.invalid-variable-raises"
OB_DOC = "core:Config.load_tree/post:C14.documents-do-not-override"
OB_ASSIGN = "core:Config._set_value/post:C14.assignment-overrides"
OB_NOBIND_BUILD = "core:Field.__setdefault__/post:C14.as-if-no-binding"
OB_NOBIND_LOAD = "core:Config.load_tree/post:C14.as-if-no-binding"


# ------------------------------------------------------------------------------------------------ field kinds

def _b64(b):
    return base64.b64encode(b).decode()


def _kinds():
    """kind -> dict(cls=name of the field class, make=ctor(env), valid=(raw, expected) | None, invalid=raw | None,
    doc=f(i) -> (basic value, expected python value), assign=(value, expected))"""
    import cincoconfig as cc
    from cincoconfig.core import AnyField
    K = {}

    def add(kind, cls, make, valid, invalid, doc, assign):
        K[kind] = {"cls": cls, "make": make, "valid": valid, "invalid": invalid, "doc": doc, "assign": assign}

    add("Int", "IntField", lambda e: cc.IntField(default=5, env=e), ("42", 42), "abc",
        lambda i: (100 + i, 100 + i), (9, 9))
    add("Float", "FloatField", lambda e: cc.FloatField(default=1.5, env=e), ("2.5", 2.5), "x",
        lambda i: (3.25 + i, 3.25 + i), (4.5, 4.5))
    add("Bool", "BoolField", lambda e: cc.BoolField(env=e), ("yes", True), "maybe",
        lambda i: (i % 2 == 1, i % 2 == 1), (False, False))
    add("BoolOff", "BoolField", lambda e: cc.BoolField(default=True, env=e), ("off", False), "2",
        lambda i: (i % 2 == 0, i % 2 == 0), (True, True))
    add("FeatureFlag", "FeatureFlagField", lambda e: cc.FeatureFlagField(env=e), ("on", True), "perhaps",
        lambda i: (i % 2 == 1, i % 2 == 1), (False, False))
    add("String", "StringField", lambda e: cc.StringField(default="dflt", max_len=8, env=e), ("hello", "hello"),
        "waytoolongvalue", lambda i: ("doc%d" % i, "doc%d" % i), ("asg", "asg"))
    add("StringPlain", "StringField", lambda e: cc.StringField(env=e), ("hello", "hello"), None,
        lambda i: ("doc%d" % i, "doc%d" % i), ("asg", "asg"))
    add("Port", "PortField", lambda e: cc.PortField(default=80, env=e), ("8080", 8080), "70000",
        lambda i: (443 + i, 443 + i), (22, 22))
    add("Hostname", "HostnameField", lambda e: cc.HostnameField(default="localhost", env=e),
        ("envhost.example", "envhost.example"), "bad host!",
        lambda i: ("doc%d.example" % i, "doc%d.example" % i), ("asghost", "asghost"))
    add("IPv4Address", "IPv4AddressField", lambda e: cc.IPv4AddressField(default="127.0.0.1", env=e),
        ("10.1.2.3", "10.1.2.3"), "999.1.1.1", lambda i: ("10.9.9.%d" % i, "10.9.9.%d" % i), ("10.8.8.8", "10.8.8.8"))
    add("IPv4Network", "IPv4NetworkField", lambda e: cc.IPv4NetworkField(env=e), ("10.0.0.0/8", "10.0.0.0/8"),
        "notanet", lambda i: ("192.168.%d.0/24" % i, "192.168.%d.0/24" % i), ("172.16.0.0/12", "172.16.0.0/12"))
    add("Url", "UrlField", lambda e: cc.UrlField(env=e), ("http://env.example/", "http://env.example/"), "no-scheme",
        lambda i: ("http://doc%d.example/" % i, "http://doc%d.example/" % i), ("ftp://asg/", "ftp://asg/"))
    add("Filename", "FilenameField", lambda e: cc.FilenameField(default="dflt.txt", env=e),
        ("env/file.txt", "env/file.txt"), None, lambda i: ("doc%d.txt" % i, "doc%d.txt" % i), ("asg.txt", "asg.txt"))
    add("LogLevel", "LogLevelField", lambda e: cc.LogLevelField(default="info", env=e), ("WARNING", "warning"), "loud",
        lambda i: (("error", "critical")[i % 2],) * 2, ("debug", "debug"))
    add("AppMode", "ApplicationModeField",
        lambda e: cc.ApplicationModeField(modes=["development", "production", "testing", "staging"],
                                          create_helpers=False, default="development", env=e),
        ("PRODUCTION", "production"), "nonsense", lambda i: (("testing", "staging")[i % 2],) * 2,
        ("development", "development"))
    add("Bytes", "BytesField", lambda e: cc.BytesField(default=b"dflt", env=e), ("envbytes", b"envbytes"), None,
        lambda i: (_b64(b"doc%d" % i), b"doc%d" % i), ("asg", b"asg"))
    add("Secure", "SecureField", lambda e: cc.SecureField(default="dflt", env=e), ("envsecret", "envsecret"), None,
        lambda i: ("doc%d" % i, "doc%d" % i), ("asg", "asg"))
    add("Challenge", "ChallengeField", lambda e: cc.ChallengeField(env=e), ("envpw", "digest-of:envpw"), None,
        lambda i: ("docpw%d" % i, "digest-of:docpw%d" % i), ("asgpw", "digest-of:asgpw"))
    add("ChallengeDefault", "ChallengeField(default)", lambda e: cc.ChallengeField(default="dfltpw", env=e),
        ("envpw", "digest-of:envpw"), None, lambda i: ("docpw%d" % i, "digest-of:docpw%d" % i),
        ("asgpw", "digest-of:asgpw"))
    # containers: no text is a list / a dict, so every non-empty variable is an invalid one
    add("List", "ListField", lambda e: cc.ListField(default=lambda: ["d"], env=e), None, "a,b",
        lambda i: (["x", i], ["x", i]), (["z"], ["z"]))
    add("ListInt", "ListField", lambda e: cc.ListField(cc.IntField(), env=e), None, "1,2",
        lambda i: ([i, 2], [i, 2]), ([3], [3]))
    add("Dict", "DictField", lambda e: cc.DictField(default=lambda: {"d": 1}, env=e), None, "a=1",
        lambda i: ({"x": i}, {"x": i}), ({"z": 2}, {"z": 2}))
    add("DictStrInt", "DictField", lambda e: cc.DictField(cc.StringField(), cc.IntField(), env=e), None, "a=1",
        lambda i: ({"x": i}, {"x": i}), ({"z": 2}, {"z": 2}))
    add("Any", "AnyField", lambda e: AnyField(default="d", env=e), ("envany", "envany"), None,
        lambda i: ("doc%d" % i, "doc%d" % i), ("asg", "asg"))
    return K


PLAINTEXTS = ["dfltpw", "envpw", "asgpw", "digestpw", "decoypw"] + ["docpw%d" % i for i in range(12)]


def observe(value):
    """comparable form of a field value (DigestValue -> which known plaintext it is the digest of)"""
    if hasattr(value, "challenge") and hasattr(value, "digest"):
        for p in PLAINTEXTS:
            try:
                value.challenge(p)
                return "digest-of:" + p
            except ValueError:
                pass
        return "digest-of:<unknown>"
    if isinstance(value, dict):
        return {k: observe(v) for k, v in value.items()}
    if isinstance(value, (list, tuple)):
        return [observe(v) for v in value]
    return value


# -------------------------------------------------------------------------------------------------- reference

def ref_name(levels, fenv):
    """the variable the field is bound to according to the property / class documentation, or None"""
    prefix = None           # None: nothing to inherit / switched off; str: environment prefix
    for i, e in enumerate(levels):
        if e is False:
            prefix = None
        elif e is True:
            prefix = ""
        elif isinstance(e, str):
            prefix = e
        elif i == 0:
            prefix = None
        elif prefix is not None:
            key = KEYS[i - 1].upper()
            prefix = prefix + "_" + key if prefix else key
    key = FKEY.upper()
    if fenv is False:
        return None
    if isinstance(fenv, str):
        return fenv
    if fenv is True:
        return (prefix + "_" + key) if prefix else key
    if prefix is None:
        return None
    return (prefix + "_" + key) if prefix else key


def candidates(depth):
    """every plausible variable name for the field under some naming rule"""
    key = FKEY.upper()
    path = [k.upper() for k in KEYS[: depth - 1]]
    names = {key, "MYVAR", "APP", "APP_MYVAR"}
    for start in range(len(path) + 1):
        for end in range(start, len(path) + 1):
            part = path[start:end]
            names.add("_".join(part + [key]))
            names.add("_".join(["APP"] + part + [key]))
            names.add("_".join(["APP"] + part + ["MYVAR"]))
            names.add("_".join(part + ["MYVAR"]))
    names.add("_" + key)
    return sorted(n for n in names if n)


# --------------------------------------------------------------------------------------------------- building

def build_schema(levels, fenv, kind, K):
    """top-down; -> (root schema, field)"""
    import cincoconfig as cc
    e0 = levels[0]
    root = cc.Schema() if e0 is None else cc.Schema(env=e0)
    cur = root
    for i, e in enumerate(levels[1:]):
        if e is None:
            cur = getattr(cur, KEYS[i])             # schema.db....: implicit creation
        else:
            sub = cc.Schema(env=e)
            setattr(cur, KEYS[i], sub)
            cur = sub
    field = K[kind]["make"](fenv)
    setattr(cur, FKEY, field)
    cur.other = cc.IntField(default=3, env=False)
    return root, field


def get_value(cfg, depth):
    for k in KEYS[: depth - 1]:
        cfg = getattr(cfg, k)
    return getattr(cfg, FKEY)


def set_value(cfg, depth, value):
    for k in KEYS[: depth - 1]:
        cfg = getattr(cfg, k)
    setattr(cfg, FKEY, value)


def doc_tree(depth, value):
    tree = {FKEY: value, "other": 4}
    for k in reversed(KEYS[: depth - 1]):
        tree = {k: tree}
    return tree


def apply_op(cfg, depth, op, i, spec):
    """-> None or the exception the op raised (ValidationError only; anything else propagates)"""
    from cincoconfig.core import ConfigFormat, ValidationError
    try:
        if op == "load_tree":
            cfg.load_tree(doc_tree(depth, copy.deepcopy(spec["doc"](i)[0])))
        elif op.startswith("loads:"):
            fmt = op.split(":")[1]
            content = ConfigFormat.get(fmt).dumps(cfg, doc_tree(depth, copy.deepcopy(spec["doc"](i)[0])))
            cfg.loads(content, fmt)
        elif op == "assign":
            set_value(cfg, depth, copy.deepcopy(spec["assign"][0]))
        else:
            raise KeyError(op)
    except ValidationError as exc:
        return exc
    return None


def _same(a, b):
    return strict_eq(observe(a), observe(b))


def _twin_trace(depth, kind, K, ops, cands):
    """the reference behaviour "no binding": the same operations on a schema without any env setting, run while
    none of the plausible variables exists -> [(raised?, observed value)] after construction and after each op"""
    with environ(**{c: None for c in cands}):
        twin_schema, _ = build_schema([None] * depth, None, kind, K)
        twin = twin_schema()
        trace = [(False, observe(get_value(twin, depth)))]
        for i, op in enumerate(ops):
            exc = apply_op(twin, depth, op, i, K[kind])
            trace.append((exc is not None, observe(get_value(twin, depth))))
    return trace


def run_case(case):
    """-> (findings, info)"""
    from cincoconfig.core import ValidationError
    K = _kinds()
    levels, fenv, kind, state, ops = case["levels"], case["fenv"], case["kind"], case["state"], case["ops"]
    spec = K[kind]
    depth = len(levels)
    name = ref_name(levels, fenv)
    cands = candidates(depth)
    decoy = spec["invalid"] if spec["invalid"] is not None else "decoy-" + (spec["valid"][0] if spec["valid"] else "x")
    env = {c: None for c in cands}
    if state != "unset" or name is not None:
        for c in cands:
            env[c] = decoy if name is not None else \
                {"empty": "", "valid": (spec["valid"][0] if spec["valid"] else decoy), "invalid": decoy}[state]
    if name is not None:
        env[name] = {"unset": None, "empty": "", "valid": spec["valid"][0] if spec["valid"] else None,
                     "invalid": spec["invalid"]}[state]
        if state in ("valid", "invalid") and env[name] is None:
            raise ValueError("kind %s has no %s variable" % (kind, state))
    findings = []
    wcombo = "schema=%s/field=%s" % (",".join(_e(e) for e in levels), _e(fenv))
    info = {"name": name, "combo": wcombo}

    with environ(**env):
        schema, field = build_schema(levels, fenv, kind, K)
        resolved = field.env if isinstance(field.env, str) and field.env else None
        try:
            cfg = schema()
            built = None
        except ValidationError as exc:
            cfg, built = None, exc

        def blame(ob):
            # a failure with a differently resolved name is a naming failure; a __setdefault__ clause is charged to
            # the class whose __setdefault__ the field actually runs (ListField, DictField, ... override it)
            if resolved != name:
                return OB_NAME
            if ob.startswith("core:Field.__setdefault__/"):
                fn = type(field).__setdefault__
                return "%s:%s/%s" % (fn.__module__.replace("cincoconfig.", "", 1), fn.__qualname__,
                                     ob.split("/", 1)[1])
            return ob

        if name is not None and state == "invalid":
            if built is None:
                obs = get_value(cfg, depth)
                extra = ""
                if resolved == name:
                    before = observe(obs)
                    apply_op(cfg, depth, "load_tree", 0, spec)
                    if _same(get_value(cfg, depth), before):
                        extra = "; and load_tree afterwards still skips the key (value stays %r)" % (before,)
                findings.append({"ob": blame(OB_INVALID), "wkey": _wk(resolved, name, spec["cls"], wcombo),
                                 "what": "%s=%r is not a valid %s: construction must raise ValidationError, but it "
                                         "returned with %s = %r%s" % (name, env[name], spec["cls"], FKEY,
                                                                      observe(obs), extra)})
            elif FKEY not in str(built):
                findings.append({"ob": blame(OB_INVALID), "wkey": "%s:error-does-not-name-field" % spec["cls"],
                                 "what": "ValidationError for invalid %s=%r does not name the field: %s"
                                         % (name, env[name], built)})
            return findings, info

        if name is not None and state == "valid":
            expected = spec["valid"][1]
            if built is not None:
                findings.append({"ob": blame(OB_VALUE), "wkey": _wk(resolved, name, spec["cls"], wcombo),
                                 "what": "%s=%r is valid for %s but construction raised: %s (resolved variable %r)"
                                         % (name, env[name], spec["cls"], built, resolved)})
                return findings, info
            obs = get_value(cfg, depth)
            if not strict_eq(observe(obs), expected):
                findings.append({"ob": blame(OB_VALUE), "wkey": _wk(resolved, name, spec["cls"], wcombo),
                                 "what": "%s=%r: expected %s = %r (the validated variable), observed %r (resolved "
                                         "variable %r)" % (name, env[name], FKEY, expected, observe(obs), resolved)})
                return findings, info
            for i, op in enumerate(ops):
                exc = apply_op(cfg, depth, op, i, spec)
                obs = get_value(cfg, depth)
                if op == "assign":
                    if exc is not None or not strict_eq(observe(obs), spec["assign"][1]):
                        findings.append({"ob": OB_ASSIGN, "wkey": spec["cls"],
                                         "what": "with %s=%r, assigning %r must give %r: observed %r%s"
                                                 % (name, env[name], spec["assign"][0], spec["assign"][1], observe(obs),
                                                    " (raised %s)" % exc if exc else "")})
                    expected = spec["assign"][1]
                    break       # what documents do to an ASSIGNED value is not what the property talks about
                if exc is not None or not strict_eq(observe(obs), expected):
                    findings.append({"ob": OB_DOC, "wkey": "%s:%s" % (spec["cls"], op.split(":")[0]),
                                     "what": "with %s=%r, %s of a document must leave %s = %r: observed %r%s"
                                             % (name, env[name], op, FKEY, expected, observe(obs),
                                                " (raised %s)" % exc if exc else "")})
                    break
            return findings, info

        # unset / empty variable, or no variable expected at all: exactly like a schema without any env setting
        why = ("no variable is expected" if name is None else "%s is %s" % (name, state))
        if built is not None:
            findings.append({"ob": blame(OB_NOBIND_BUILD), "wkey": _wk(resolved, name, spec["cls"], wcombo),
                             "what": "%s, yet construction raised: %s (resolved variable %r; every other plausible "
                                     "name holds %r)" % (why, built, resolved, decoy)})
            return findings, info
        ref = _twin_trace(depth, kind, K, ops, cands)
        obs = get_value(cfg, depth)
        if not strict_eq(observe(obs), ref[0][1]):
            findings.append({"ob": blame(OB_NOBIND_BUILD), "wkey": _wk(resolved, name, spec["cls"], wcombo),
                             "what": "%s, so %s must be the default %r: observed %r (resolved variable %r)"
                                     % (why, FKEY, ref[0][1], observe(obs), resolved)})
            return findings, info
        for i, op in enumerate(ops):
            e1 = apply_op(cfg, depth, op, i, spec)
            obs = get_value(cfg, depth)
            e2, refval = ref[i + 1]
            if (e1 is None) != (not e2) or not strict_eq(observe(obs), refval):
                findings.append({"ob": blame(OB_NOBIND_LOAD if op != "assign" else OB_ASSIGN),
                                 "wkey": _wk(resolved, name, "%s:%s" % (spec["cls"], op.split(":")[0]), wcombo),
                                 "what": "%s, so %s must behave as without binding: expected %r%s, observed %r%s "
                                         "(resolved variable %r)"
                                         % (why, op, refval, " (raised)" if e2 else "", observe(obs),
                                            " (raised %s)" % e1 if e1 else "", resolved)})
                break
    return findings, info


def _e(e):
    return "named" if isinstance(e, str) else {None: "absent", True: "auto", False: "off"}[e]


def _wk(resolved, name, cls, combo):
    """witness key: a naming failure is identified by the env-setting combination, any other one by the field class"""
    return ("name:" + combo) if resolved != name else cls


# ------------------------------------------------------------------------------------------------ enumeration

ALL_OPS = ["load_tree"] + ["loads:" + f for f in FORMATS] + ["assign", "load_tree"]


def all_levels(max_depth):
    out = []
    frontier = [[]]
    for _ in range(max_depth):
        frontier = [lv + [e] for lv in frontier for e in SCHEMA_ENVS]
        out += frontier
    return out


REP_COMBOS = [            # representative naming combinations for the field-class matrix
    ([True], None), (["APP"], None), ([None], "MYVAR"), ([None], True), ([True, None], None),
    (["APP", None, None], None), ([None, "APP"], None), ([True, False], "MYVAR"), (["APP", True], None),
    ([True], False), ([True, False], None), ([None, None], None), ([False], True),
]


def _states(spec, name):
    s = ["unset", "empty"]
    if spec["valid"] is not None:
        s.append("valid")
    if spec["invalid"] is not None:
        s.append("invalid")
    return s


def _emit(rec, case, n):
    if rec.tier != "quick" and rec.out_of_time():
        return
    findings, info = run_case(case)
    rec.case(key=(tuple(case["levels"]), case["fenv"], case["kind"], case["state"], tuple(case["ops"])),
             nontrivial=True,
             sample=dict(case, expected_variable=info["name"]) if n % 701 == 0 else None)
    for fd in findings:
        rec.violation(obligation=fd["ob"], what=fd["what"], witness_key=fd["wkey"],
                      replay=dict(case, obligation=fd["ob"], witness_key=fd["wkey"]))


def rac(tier: str, seed: int) -> dict:
    quick = tier == "quick"
    K = _kinds()
    rec = Recorder(
        PID,
        rule="one case = (schema-level env of every schema on the path x field-level env, field class, state of the "
             "process environment, operations after construction); the expected variable holds the state's value and "
             "every other plausible name holds an invalid value; a case is non-trivial because even without an "
             "expected variable the decoys are set (except state unset without variable: still compared to the twin)",
        bound="schemas built top-down to depth 3: all 4+16+64 schema-env combinations x 4 field-env settings (336) "
              "x states unset/empty/valid/invalid x classes {String(max_len), Int, Bool, Port, List, Challenge} (thorough: "
              "all classes) with load_tree, one rotating document format, assign, load_tree; all %d field classes x %d representative combinations x states x "
              "load_tree + loads in json/yaml/xml/bson/pickle + assign + load_tree; 6 operation orders; "
              "construction routes: root env none/True/'APP'/'app' x 1-3 nested schemas each env none/True/'X'/False "
              "x field env none/True/'NAME'/False (1344 logical schemas) x %d routes (attribute chain, explicit "
              "Schema objects, item paths with implicit creation, item read + attribute, mixed, stand-alone sub-"
              "schema attached later, bottom-up, make_type): names compared with the attribute-chain route and the "
              "documented rule, then build/load/assign with the variable set; stand-alone/make_type routes are "
              "asserted only where nothing is inherited across the attachment (else counted as trivial); "
              "ChallengeField defaults plaintext / DigestValue instance / none x binding named / automatic (schema, "
              "field) / prefix x variable unset / empty / set x depth 1-2 x sha256/md5 with all loads and assignment" %
              (len(K), len(REP_COMBOS), len(ROUTES)),
        tier=tier, seed=seed)
    with sandbox():
        n = 0
        # A: the naming matrix
        for levels in all_levels(3):
            for fenv in FIELD_ENVS:
                name = ref_name(levels, fenv)
                for kind in (("String", "Int", "Bool", "Port", "List", "Challenge") if quick else list(K)):
                    for state in _states(K[kind], name):
                        ops = ["load_tree", "loads:" + FORMATS[n % len(FORMATS)], "assign", "load_tree"]
                        _emit(rec, {"levels": levels, "fenv": fenv, "kind": kind, "state": state, "ops": ops}, n)
                        n += 1
        # B: every field class
        for kind in K:
            for levels, fenv in REP_COMBOS:
                name = ref_name(levels, fenv)
                for state in _states(K[kind], name):
                    _emit(rec, {"levels": levels, "fenv": fenv, "kind": kind, "state": state, "ops": ALL_OPS}, n)
                    n += 1
        # C: operation orders
        orders = [["assign", "load_tree", "loads:json"], ["loads:xml", "assign", "load_tree"],
                  ["load_tree", "assign", "loads:yaml"], ["loads:bson", "loads:pickle", "assign"],
                  ["assign", "assign", "load_tree"], ["load_tree", "load_tree", "assign"]]
        for kind in ("Int", "String", "Bool", "Bytes", "List", "Challenge"):
            for levels, fenv in REP_COMBOS[:8]:
                name = ref_name(levels, fenv)
                for state in _states(K[kind], name):
                    if state == "invalid":
                        continue
                    for ops in orders:
                        _emit(rec, {"levels": levels, "fenv": fenv, "kind": kind, "state": state, "ops": ops}, n)
                        n += 1
        # E: challenge / digest defaults with an environment binding
        for case in challenge_cases():
            findings, info = challenge_case(case)
            rec.case(key=("challenge",) + tuple(sorted(case.items())), nontrivial=True,
                     sample=dict(case, expected_variable=info["name"]) if n % 97 == 0 else None)
            n += 1
            for fd in findings:
                rec.violation(obligation=fd["ob"], what=fd["what"], witness_key=fd["wkey"],
                              replay=dict(case, obligation=fd["ob"], witness_key=fd["wkey"]))
        # D: the same logical schema along every construction route
        for case in route_cases():
            if not quick and rec.out_of_time():
                break
            _emit_route(rec, case, n)
            n += 1
    return rec.result(exhaustive=False)


# ------------------------------------------------------------------- D: how the schema was built must not matter

OB_PREFIX = "core:Schema.__setkey__/post:C14.nested-prefix"
ROOT_ENVS = [None, True, "APP", "app"]
NESTED_ENVS = [None, True, "X", False]
ROUTE_FIELD_ENVS = [None, True, "NAME", False]
ROUTES = ["attr",                   # schema.db.srv.fhost = F(); explicit levels: schema.db = Schema(env=..) first
          "explicit-attr",          # every level an explicit Schema(...) assigned to an attribute, top-down
          "item-set",               # schema['db.srv.fhost'] = F() with implicit creation; explicit levels by item path
          "item-get-attr",          # schema['db.srv'].fhost = F()
          "explicit-item",          # every level an explicit Schema(...) assigned to an item path, top-down
          "mixed",                  # level 1 by attribute, deeper levels by item path relative to it, field by attr
          "standalone-level1",      # level-1 schema built stand-alone (top-down inside), attached to the root last
          "standalone-bottom-up",   # innermost schema first, every schema attached to its parent afterwards
          "make_type-level1"]       # level 1 is a config type (make_type of the stand-alone level-1 schema)
_ROUTE_T = [0]


def _mk(env):
    import cincoconfig as cc
    return cc.Schema() if env is None else cc.Schema(env=env)


def build_route(route, levels, fenv, make):
    """build the logical schema (levels[0] = root env, levels[1:] = env of the nested schemas db/srv/pool, one field
    `fhost` with env=fenv at the innermost level) along one construction route -> (root, field, [nested schemas])"""
    import cincoconfig as cc
    from cincoconfig.core import ConfigTypeField
    root = _mk(levels[0])
    envs = list(levels[1:])
    n = len(envs)
    keys = KEYS[:n]
    field = make(fenv)

    def chain(top, ks, es):            # the documented way below `top`
        cur = top
        for k, e in zip(ks, es):
            if e is None:
                cur = getattr(cur, k)
            else:
                sub = cc.Schema(env=e)
                setattr(cur, k, sub)
                cur = sub
        return cur

    if route == "attr":
        setattr(chain(root, keys, envs), FKEY, field)
    elif route == "explicit-attr":
        cur = root
        for k, e in zip(keys, envs):
            sub = _mk(e)
            setattr(cur, k, sub)
            cur = sub
        setattr(cur, FKEY, field)
    elif route in ("item-set", "item-get-attr", "explicit-item"):
        for i, e in enumerate(envs):
            if e is not None or route == "explicit-item":
                root[".".join(keys[: i + 1])] = _mk(e)
        if route == "item-get-attr":
            setattr(root[".".join(keys)], FKEY, field)
        else:
            root[".".join(keys + [FKEY])] = field
    elif route == "mixed":
        l1 = chain(root, keys[:1], envs[:1])
        for i in range(1, n):
            if envs[i] is not None:
                l1[".".join(keys[1: i + 1])] = cc.Schema(env=envs[i])
        target = l1[".".join(keys[1:])] if n > 1 else l1
        setattr(target, FKEY, field)
    elif route in ("standalone-level1", "make_type-level1"):
        l1 = _mk(envs[0])
        setattr(chain(l1, keys[1:], envs[1:]), FKEY, field)
        if route == "make_type-level1":
            _ROUTE_T[0] += 1
            setattr(root, keys[0], cc.make_type(l1, "RouteT%d" % _ROUTE_T[0]))
        else:
            setattr(root, keys[0], l1)
    elif route == "standalone-bottom-up":
        subs = [_mk(e) for e in envs]
        setattr(subs[-1], FKEY, field)
        for i in range(n - 1, 0, -1):
            setattr(subs[i - 1], keys[i], subs[i])
        setattr(root, keys[0], subs[0])
    else:
        raise KeyError(route)
    nested, cur = [], root
    for k in keys:
        f = cur._fields[k]
        cur = f.config_type.__schema__ if isinstance(f, ConfigTypeField) else f
        nested.append(cur)
    assert nested[-1]._fields[FKEY] is field
    nested[-1].other = cc.IntField(default=3, env=False)       # what doc_tree() also mentions
    return root, field, nested


def _norm(x):
    return x if isinstance(x, str) and x else None


def ref_prefixes(levels):
    """documented effective prefix of every schema on the path (root first); None = no prefix"""
    out, prefix = [], None
    for i, e in enumerate(levels):
        if e is False:
            prefix = None
        elif e is True:
            prefix = ""
        elif isinstance(e, str):
            prefix = e
        elif i == 0:
            prefix = None
        elif prefix is not None:
            key = KEYS[i - 1].upper()
            prefix = prefix + "_" + key if prefix else key
        out.append(prefix)
    return out


def route_in_scope(route, levels):
    """the property is about schemas built top-down.  A route that attaches a stand-alone built schema later is
    only comparable where nothing has to be inherited across the attachment: the attached schema has its own env
    setting, or its parent has no prefix to pass on"""
    if route == "standalone-bottom-up":
        bounds = range(1, len(levels))
    elif route in ("standalone-level1", "make_type-level1"):
        bounds = [1]
    else:
        return True
    eff = ref_prefixes(levels)
    return all(levels[k] is not None or eff[k - 1] is None for k in bounds)


def _route_candidates(n):
    key = FKEY.upper()
    path = [k.upper() for k in KEYS[:n]]
    names = {"NAME", key}
    for start in range(n + 1):
        for end in range(start, n + 1):
            tail = "_".join(path[start:end] + [key])
            for pre in ("", "APP_", "app_", "X_", "APP_X_", "X_X_"):
                names.add(pre + tail)
    return sorted(names)


def _prefix_kind(e):
    return {None: "none", True: "auto", "APP": "named-upper", "app": "named-lower"}[e]


def route_case(case):
    """one logical schema along one route -> (findings, info).  Clauses: the field's variable and the nested
    prefixes equal those of the attribute-chain route and the documented rule; with the variable set the value is
    the validated variable, loads leave it, assignment replaces it; without a variable: default, loads work"""
    from cincoconfig.core import ValidationError
    K = _kinds()
    route, levels, fenv = case["route"], case["levels"], case["fenv"]
    spec = K["Int"]
    depth = len(levels)
    wkey = "schema-construction-route:%s/%s" % (route, _prefix_kind(levels[0]))
    findings = []
    root, field, nested = build_route(route, levels, fenv, spec["make"])
    _, dfield, dnested = build_route("attr", levels, fenv, spec["make"])
    got = (_norm(field.env), [_norm(s._env_prefix) for s in nested])
    doc = (_norm(dfield.env), [_norm(s._env_prefix) for s in dnested])
    rule = (ref_name(levels, fenv), [_norm(p) if p else None for p in ref_prefixes(levels)[1:]])
    info = {"in_scope": route_in_scope(route, levels), "agrees": got == doc, "got": got, "attr_route": doc,
            "rule": rule}
    if not info["in_scope"]:
        return findings, info
    path = ".".join(KEYS[: depth - 1] + [FKEY])
    if got[0] != doc[0] or got[0] != rule[0]:
        findings.append({"ob": OB_NAME, "wkey": wkey,
                         "what": "route %s: %s is bound to %r; attribute-chain route: %r; documented rule: %r "
                                 "(schema envs %r, field env %r)" % (route, path, got[0], doc[0], rule[0], levels, fenv)})
    if got[1] != doc[1] or got[1] != rule[1]:
        findings.append({"ob": OB_PREFIX, "wkey": wkey,
                         "what": "route %s: prefixes of the nested schemas %r; attribute-chain route: %r; documented "
                                 "rule: %r (schema envs %r)" % (route, got[1], doc[1], rule[1], levels)})
    if findings:
        return findings, info
    # behaviour with the process environment set
    name = rule[0]
    env = {c: "abc" for c in _route_candidates(depth - 1)}
    if name is not None:
        env[name] = "42"
    with environ(**env):
        try:
            cfg = root()
        except ValidationError as exc:
            findings.append({"ob": OB_VALUE if name else OB_NOBIND_BUILD, "wkey": wkey,
                             "what": "route %s: construction raised %s although %s (every other plausible name "
                                     "holds 'abc')" % (route, exc, "%s='42'" % name if name else "no variable is "
                                                                                                 "expected")})
            return findings, info
        expected = 42 if name else 5
        obs = get_value(cfg, depth)
        if not strict_eq(obs, expected):
            findings.append({"ob": OB_VALUE if name else OB_NOBIND_BUILD, "wkey": wkey,
                             "what": "route %s: %s after construction: expected %r observed %r (variable %r)"
                                     % (route, path, expected, obs, name)})
            return findings, info
        for i, op in enumerate(("load_tree", "loads:json")):
            exc = apply_op(cfg, depth, op, i, spec)
            obs = get_value(cfg, depth)
            expected = 42 if name else 100 + i
            if exc is not None or not strict_eq(obs, expected):
                findings.append({"ob": OB_DOC if name else OB_NOBIND_LOAD, "wkey": wkey,
                                 "what": "route %s: %s after %s: expected %r observed %r%s (variable %r)"
                                         % (route, path, op, expected, obs, " (raised %s)" % exc if exc else "", name)})
                return findings, info
        exc = apply_op(cfg, depth, "assign", 0, spec)
        obs = get_value(cfg, depth)
        if exc is not None or not strict_eq(obs, 9):
            findings.append({"ob": OB_ASSIGN, "wkey": wkey,
                             "what": "route %s: assigning 9 to %s: observed %r%s" % (route, path, obs,
                                                                                    " (raised %s)" % exc if exc else "")})
    return findings, info


def route_cases():
    for n in (1, 2, 3):
        combos = [[]]
        for _ in range(n):
            combos = [c + [e] for c in combos for e in NESTED_ENVS]
        for e0 in ROOT_ENVS:
            for nested in combos:
                for fenv in ROUTE_FIELD_ENVS:
                    for route in ROUTES:
                        yield {"route": route, "levels": [e0] + nested, "fenv": fenv}


def route_survey():
    """how often each route agrees with the attribute-chain route, inside and outside the asserted scope"""
    out = {}
    with sandbox():
        for case in route_cases():
            _, info = route_case(case)
            r = out.setdefault(case["route"], {"in_scope": 0, "in_scope_disagree": 0, "out_of_scope": 0,
                                               "out_of_scope_disagree": 0, "example": None})
            k = "in_scope" if info["in_scope"] else "out_of_scope"
            r[k] += 1
            if not info["agrees"]:
                r[k + "_disagree"] += 1
                if r["example"] is None:
                    r["example"] = {"levels": case["levels"], "fenv": case["fenv"], "route": info["got"],
                                    "attr_route": info["attr_route"]}
    return out


# --------------------------------------------------------- E: challenge / digest defaults with an environment binding

CH_DEFAULTS = ["plaintext", "digest", "none"]
CH_BINDINGS = ["named", "auto-schema", "auto-field", "prefix"]
CH_STATES = ["unset", "empty", "set"]


def challenge_case(case):
    """ChallengeField(default = plaintext str | DigestValue instance | nothing) bound to a variable by name or
    automatically.  Variable set (non-empty) at build time: the value is the hash of the VARIABLE (challenge with
    it succeeds, with the default's secret fails), later loads are skipped, assignment still wins.  Unset / empty:
    the default (the very DigestValue instance, a hash of the plaintext, or None); loads and assignment work."""
    import hashlib
    import cincoconfig as cc
    from cincoconfig.core import ValidationError
    dkind, binding, state, depth, algo = case["default"], case["binding"], case["state"], case["depth"], case["algo"]
    wkey = "challenge-default+env:%s/%s" % (dkind, binding)
    secret = {"plaintext": "dfltpw", "digest": "digestpw", "none": None}[dkind]
    digest_default = cc.DigestValue.create("digestpw", getattr(hashlib, algo)) if dkind == "digest" else None
    kw = {}
    if dkind == "plaintext":
        kw["default"] = "dfltpw"
    elif dkind == "digest":
        kw["default"] = digest_default
    levels = [{"named": None, "auto-schema": True, "auto-field": None, "prefix": "APP"}[binding]] + [None] * (depth - 1)
    fenv = {"named": "MYVAR", "auto-schema": None, "auto-field": True, "prefix": None}[binding]
    name = ref_name(levels, fenv)
    K = {"Ch": {"make": lambda e: cc.ChallengeField(algo, env=e, **kw)}}
    spec = {"doc": lambda i: ("docpw%d" % i, "digest-of:docpw%d" % i), "assign": ("asgpw", "digest-of:asgpw")}
    env = {c: "decoypw" for c in candidates(depth)}
    env[name] = {"unset": None, "empty": "", "set": "envpw"}[state]
    findings = []

    def add(ob, what):
        findings.append({"ob": ob, "wkey": wkey,
                         "what": "ChallengeField(%s, default=%s) bound to %s (%s), variable %s: %s"
                                 % (algo, {"plaintext": "'dfltpw'", "digest": "DigestValue of 'digestpw'",
                                           "none": "None"}[dkind], name, binding,
                                    {"unset": "unset", "empty": "''", "set": "'envpw'"}[state], what)})

    with environ(**env):
        schema, field = build_schema(levels, fenv, "Ch", K)
        fn = type(field).__setdefault__
        ob_default = "%s:%s/post:C14.%s" % (fn.__module__.replace("cincoconfig.", "", 1), fn.__qualname__,
                                            "value-is-validated-variable" if state == "set" else "as-if-no-binding")
        try:
            cfg = schema()
        except ValidationError as exc:
            add(ob_default, "construction raised %s" % exc)
            return findings, {"name": name}
        value = get_value(cfg, depth)

        def accepts(v, plain):
            try:
                v.challenge(plain)
                return True
            except ValueError:
                return False

        if state == "set":
            if value is None or not hasattr(value, "challenge"):
                add(ob_default, "the value is %r, not a digest" % (value,))
                return findings, {"name": name}
            if not accepts(value, "envpw"):
                add(ob_default, "challenge with the variable's value fails (the value is %s)" % observe(value))
                return findings, {"name": name}
            if secret is not None and accepts(value, secret):
                add(ob_default, "challenge with the default's secret %r succeeds" % secret)
                return findings, {"name": name}
            for i, op in enumerate(["load_tree"] + ["loads:" + f for f in FORMATS]):
                exc = apply_op(cfg, depth, op, i, spec)
                now = get_value(cfg, depth)
                if exc is not None or not accepts(now, "envpw"):
                    add(OB_DOC, "%s of a document must leave the hash of the variable: now %s%s"
                        % (op, observe(now), " (raised %s)" % exc if exc else ""))
                    return findings, {"name": name}
            exc = apply_op(cfg, depth, "assign", 0, spec)
            now = get_value(cfg, depth)
            if exc is not None or not accepts(now, "asgpw") or accepts(now, "envpw"):
                add(OB_ASSIGN, "assigning 'asgpw' must win: now %s%s" % (observe(now), " (raised %s)" % exc if exc else ""))
        else:
            if dkind == "none":
                ok = value is None
            elif dkind == "digest":
                ok = hasattr(value, "challenge") and value == digest_default and accepts(value, "digestpw")
            else:
                ok = hasattr(value, "challenge") and accepts(value, "dfltpw")
            if not ok:
                add(ob_default, "the value must be the default, observed %r" % (observe(value),))
                return findings, {"name": name}
            for i, op in enumerate(["load_tree"] + ["loads:" + f for f in FORMATS]):
                exc = apply_op(cfg, depth, op, i, spec)
                now = get_value(cfg, depth)
                if exc is not None or not hasattr(now, "challenge") or not accepts(now, "docpw%d" % i):
                    add(OB_NOBIND_LOAD, "%s must load the document's value: now %s%s"
                        % (op, observe(now), " (raised %s)" % exc if exc else ""))
                    return findings, {"name": name}
            exc = apply_op(cfg, depth, "assign", 0, spec)
            now = get_value(cfg, depth)
            if exc is not None or not accepts(now, "asgpw"):
                add(OB_ASSIGN, "assigning 'asgpw' must win: now %s" % observe(now))
    return findings, {"name": name}


def challenge_cases():
    for dkind in CH_DEFAULTS:
        for binding in CH_BINDINGS:
            for state in CH_STATES:
                for depth in (1, 2):
                    for algo in ("sha256", "md5"):
                        yield {"challenge": True, "default": dkind, "binding": binding, "state": state,
                               "depth": depth, "algo": algo}


def _emit_route(rec, case, n):
    findings, info = route_case(case)
    rec.case(key=("route", case["route"], tuple(case["levels"]), case["fenv"]), nontrivial=info["in_scope"],
             sample=dict(case, expected_variable=info["rule"][0]) if n % 2003 == 0 else None)
    for fd in findings:
        rec.violation(obligation=fd["ob"], what=fd["what"], witness_key=fd["wkey"],
                      replay=dict(case, obligation=fd["ob"], witness_key=fd["wkey"]))


def replay(case: dict) -> dict:
    if case.get("challenge"):
        with sandbox():
            findings, info = challenge_case(case)
        mine = [f for f in findings if case.get("obligation") in (None, f["ob"])
                and case.get("witness_key") in (None, f["wkey"])]
        return {"fails": bool(mine), "expected": "the clauses of a ChallengeField bound to %r hold" % info["name"],
                "observed": [f["what"] for f in mine][:3] or "clause holds"}
    if "route" in case:
        with sandbox():
            findings, info = route_case(case)
        mine = [f for f in findings if case.get("obligation") in (None, f["ob"])
                and case.get("witness_key") in (None, f["wkey"])]
        return {"fails": bool(mine),
                "expected": "route %s gives the names of the attribute-chain route and of the documented rule %r, and "
                            "the behaviour that goes with them" % (case["route"], info["rule"]),
                "observed": [f["what"] for f in mine][:3] or "clause holds"}
    return _replay_env(case)


def _replay_env(case: dict) -> dict:
    with sandbox():
        findings, info = run_case(case)
    mine = [f for f in findings if case.get("obligation") in (None, f["ob"])
            and case.get("witness_key") in (None, f["wkey"])]
    return {"fails": bool(mine),
            "expected": "clause %s holds (expected variable: %r)" % (case.get("obligation"), info["name"]),
            "observed": [f["what"] for f in mine][:3] or "clause holds"}
