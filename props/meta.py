"""Per-property claim: level, what is proved, what is bounded, what is assumed (feeds MANIFEST.json and evidence)."""

TECH = "contracts on the real source (sidecar) -> VCs from the AST -> z3/cvc5; run-time contract driver as bounded stand-in and replay"
COMMON_TB = [
    "pyvc: symbolic executor over the real AST and the encoding of Python of DESIGN.md 2.2 (universal value datatype, heap = one SMT array per declaring class and attribute, containers as arrays, exceptions as outcomes)",
    "built-in and external specifications in pyvc/builtins_spec.py",
    "declared attribute types (contracts/a_attrs.py) are assumed on read and proved on write; representation containers are never aliased (lint on every run)",
    "user callables (custom validators, default factories, virtual getters/setters) return any value or raise any Exception, are deterministic in their arguments and touch no library state",
    "single thread; no monkey-patching of /repo classes",
]
ACYCLIC = "A.acyclic: a configuration is never stored inside itself (directly or through lists/dicts)"
ADOPT = "A.adoption: validating/loading/decoding a value re-parents only Config objects that occur inside that value (assumed clause of the virtual contracts; exercised by the bounded C06/C13 drivers)"
FIELDS1 = "every field object belongs to one schema under one key (the content invariant `schema._fields[k]._key == k` is assumed on read)"


def M(level, claim, note, explanation, trusted=(), assumptions=(), externals=()):
    return {"level": level, "claim": claim, "note": note, "technique": TECH, "explanation": explanation,
            "trusted_base": COMMON_TB + list(trusted), "assumptions": list(assumptions), "externals": list(externals)}


META = {
    "C01": M("other",
             "Proved for all inputs (149 obligations): every setter route that ends in Config._set_value / __setattr__ / _set_default_value / load_tree stores exactly the value the "
             "field's validate returned, which satisfies accepts(field, .), and changes no other key or object (frame); the per-class meaning of accepts for StringField (all "
             "options), NumberField (IntField/FloatField/PortField: type, min, max with exact int/float comparison), BoolField, BytesField, ChallengeField; typed lists: every item "
             "stored by append / insert / index assignment / extend / construction satisfies the item field, typed dicts: item assignment and setdefault; the class-specific part of "
             "the net / file / url validators (IPv4NetworkField prefix bounds on the value that is stored, UrlField scheme, FilenameField existence requirement) over uninterpreted "
             "parser / file-system predicates. NOT proved: that the canonical text returned by the net validators still satisfies the inherited StringField length / pattern options "
             "(open known finding), slice and bulk dict operations; those are decided by the bounded driver (all field classes x all public routes x sequences <= 3).",
             "virtual contract of Field.validate (result is None or accepts(field, result)) is what callers rely on; per-class refinement proved for 5 validator classes, bounded for the rest. " + ACYCLIC,
             "deductive part: core setters against the virtual validate contract + per-class refinements; bounded part: run-time invariant walk after every step",
             assumptions=[ACYCLIC, ADOPT, FIELDS1, "custom validators return values that satisfy the field's declared constraints"]),
    "C02": M("other",
             "Proved: Config.to_tree renders exactly the stored persistent fields (virtual ones only on request, never instance methods), nested configurations recursively with "
             "the same arguments, through each field's to_basic; load_tree/_set_value store what to_python+validate return; sub-configurations are created with their parent. "
             "The per-field inverse law to_python(to_basic(v)) == v and the format laws (C04) are bounded: real round trips over a schema grammar x 5 formats.",
             "round trip = lemma over to_tree / load_tree contracts + item codecs (bounded) + format laws (assumed, sampled)",
             "to_tree verified with inductive loop invariants over the merged field table",
             assumptions=[FIELDS1, ACYCLIC]),
    "C03": M("other",
             "Proved (243 obligations): Config._keyfile uses the key file named on the configuration itself, else the one named on its parent (recursively through the same contract), "
             "else a default KeyFile kept in a slot of its own - looking a key file up never names one on any configuration (frame on the naming slot); a rebuilt sub-configuration "
             "takes over the key files named in the one it replaces; sub-configurations created by default, by assignment of a map and by Schema.__call__ carry parent and key; "
             "SecureField.to_basic writes null for an empty secret and otherwise a new map with exactly `method` (aes|xor) and a text `ciphertext`, to_python passes null/plain text "
             "through and requires method + text ciphertext; dumps/to_tree/save touch no file other than key files (fs frame); cipher inversion lemmas (C08). Bounded, not proved: "
             "that a second session with the same key file decrypts to the same plaintext end to end (a history over the file system) and 'plaintext absent from the bytes' - driver: "
             "nesting depth 3, lists, config types, 5 formats, key file named at root/sub/type, 18 key-file histories.",
             "cryptographic secrecy is not claimed; 'plaintext absent' is a structural/bounded check",
             "key-file resolution, links and secret shapes proved; cross-session decryption bounded"),
    "C04": M("other",
             "Proved for all inputs (129 obligations): /repo's part of every format. JSON/BSON/pickle wrappers hand tree and bytes through unchanged; the YAML root key wraps on the way "
             "out exactly what it unwraps on the way in (falsy root key = none); 8 lemmas: each format decodes what it encoded and options (pretty/compact, root key) never change the "
             "decoded tree; XML: _to_element tags every scalar with its own type (bool before int), one child per item/entry, TypeError only for non-basic values; _from_element "
             "inverts every scalar case (lemmas: none/bool/int/str/float decode to themselves with their type); loads rejects a wrong root tag with ValueError and decodes under the "
             "right one (lemma over two formatters). Bounded, not proved: the codec law parse(text(d)) == d of the five libraries (assumed; sampled by 28k round trips per quick run on "
             "the real classes: all options, +-inf, NaN, -0.0, empty containers, strings needing escaping) and the deep (recursive) inverse of the XML converters on nested trees.",
             "json/yaml/bson/pickle/ElementTree/minidom laws are third-party: assumed + sampled; recursive tree equality is outside the encoding",
             "contracts on the real format classes discharged by z3/cvc5 + bounded run-time contract checking of loads(dumps(t)) == t"),
    "C05": M("other",
             "Proved (124 obligations): Field.validate (required / None / custom validator chain) against its virtual contract; exactness of StringField (normal form = strip then "
             "case, rejected only if a constraint fails), NumberField (a number of the field's type within the bounds is kept as it is and never rejected, text is parsed, bools and "
             "non-numbers are refused, result within bounds), BoolField (token sets), BytesField (validation + base64/hex codec inverse), ChallengeField; IPv4AddressField, "
             "IPv4NetworkField (canonical text stored, prefix bounds incl. 0, rejected only if the parser or a bound refuses), HostnameField (address / resolve / DNS-or-NetBIOS "
             "shape, each stored form), UrlField (parser accepts and a scheme is present), FilenameField and so IncludeField (resolution against startdir, the four existence "
             "requirements) - each exact in both directions over uninterpreted predicates for the external parser, resolver and file system. The list / dict classes, "
             "idempotence and codec inverses are decided by the bounded driver: every built-in field class x option grid (all pairs, boundaries, 0/None) x "
             "values of every Python type, against an independent reference of ok/norm written from the property text (225k cases per quick run).",
             "regex / ipaddress / urlparse / socket / os.path semantics are external (uninterpreted predicates: ipaddr_ok/ipnet_ok/url_ok/dns_ok, canonical-text laws assumed); int()/float() parsing of text is an assumed law (int_ok/int_parse)",
             "contracts per validator class discharged by z3/cvc5 + bounded run-time contract checking of validate/to_basic/to_python per field class"),
    "C06": M("proof",
             "For all states and all arguments: every exceptional exit of Config._set_value, __setattr__, load_tree (receiver only), Schema.__call__, __setdefault__ leaves every "
             "attribute of every pre-existing object unchanged (frame obligation over the whole heap, parent/key/container links of adopted values excepted). "
             "List/dict single-element operations and document loads (parse failure, unresolvable include) are additionally run by the bounded driver.",
             "proxy operations and loads() are bounded, not yet under contract. " + ADOPT,
             "exceptional postconditions with whole-heap frames on the setter chain",
             assumptions=[ACYCLIC, ADOPT]),
    "C07": M("proof",
             "For all file-system states and all nested open/close sequences: KeyFile.__init__/__load_key/__generate_key/_validate_key/__enter__/__exit__/_get_provider/encrypt/"
             "decrypt satisfy their contracts over the ghost file system (verbatim use, created once, EncryptionError iff malformed, no key retained on any exceptional exit, class "
             "invariant on normal and exceptional exits); the session-level statements are lemmas over these contracts (props/lemmas/c07.py).",
             "file model: open(p,'rb') raises OSError iff p is absent/unreadable; open(p,'wb') raises iff unwritable else truncates; os.urandom(32) returns 32 bytes",
             "all nine KeyFile methods + 4 ghost clients discharged", externals=["os.path", "os.urandom", "open"]),
    "C08": M("proof",
             "XorProvider.encrypt: the real loop verified with an inductive invariant (bit-vector XOR with the key repeated); AesProvider against the assumed cryptography "
             "contract (standard IV||CBC(PKCS7) format, fresh os.urandom draw per call, short/unaligned/badly padded input rejected); KeyFile.encrypt/decrypt dispatch; "
             "inversion lemmas for xor, aes and through KeyFile. SecureField's shape checks are bounded.",
             "AES/PKCS7 primitive laws assumed; distinctness of random draws and 'another key never decrypts' are probabilistic/cryptographic and only stated",
             "loop invariant + lemmas over contracts", externals=["cryptography", "os.urandom", "base64", "str.encode"]),
    "C09": M("proof",
             "DigestValue.create / challenge and ChallengeField._hash / _validate verified for all inputs and all six algorithms (the algorithm is a symbolic member of the "
             "table): random salt of the digest's length from a fresh draw, digest == H(salt + secret), the value holds only salt/digest/algorithm, challenge raises ValueError "
             "iff the hash differs; lemmas: the secret is accepted, another secret is rejected (under the stated collision-freedom instance), two assignments use two draws. "
             "to_basic/to_python (save/load survival, hand-written plaintext) and the absence of the plaintext from serialised output are decided by the bounded driver.",
             "hashlib contract assumed (hash_of uninterpreted, digest_size > 0); collision freedom assumed only in the rejects-another-secret lemma; distinct draws are probabilistic",
             "contracts over the hash primitive + ghost clients", externals=["hashlib", "os.urandom", "base64", "str.encode"]),
    "C10": M("proof",
             "For all configurations, masks and depths of nested sub-configurations: Config.to_tree replaces every truthy sensitive value by the mask (one-character masks "
             "repeated to len(str(v))), renders falsy ones as None, passes the same mask to every nested configuration, and without a mask leaves each field's encoding unaltered "
             "(inductive loop invariants, recursion through the function's own contract). Items of configuration lists are re-rendered by a comprehension whose element-wise "
             "postcondition is bounded (driver: lists of schemas / config types to depth 3).",
             "masking of configurations held in lists is decided by the bounded driver",
             "to_tree contract = recursive definition of the rendered tree"),
    "C11": M("proof",
             "Schema._validate verified for all schemas and configurations: returns [] in raising mode iff every non-ignored field passes and every registered validator passes "
             "(bounded quantifiers as recursive functions with an inductively proved monotonicity lemma), raises ValidationError otherwise, collect mode non-empty iff invalid, a "
             "disabled schema is exempt; Schema._validate_field, Config.validate, load_tree(validate=True). Feature-flag evaluation (generator expression) is trusted + bounded.",
             "validators and field checks are deterministic during one validation pass (outcome predicates field_passes / usercall_ok)",
             "two loops with inductive invariants"),
    "C12": M("proof",
             "Config.__init__ (both loops, inductive invariants): every field not supplied as keyword has its default installed and is marked not-user-defined; "
             "_set_value removes exactly the assigned key from the default marks, leaves them untouched on every exceptional exit; _set_default_value adds the mark; the default "
             "protocol (BaseField/Schema/ConfigTypeField.__setdefault__) touches only its own key. reset_value / is_value_defined and the per-class default values are bounded.",
             "Field.default evaluates a callable default anew on each call (proved); per-class __setdefault__ overrides are bounded",
             "state machine (values, D) as postconditions"),
    "C13": M("proof",
             "Frames: every setter/loader/default installer modifies only the receiver configuration's own representation (and fresh objects); no contract's frame contains any "
             "attribute of Schema or Field objects; Config.__init__ allocates fresh containers; sub-configurations installed by default are fresh and linked. Mutable list/dict "
             "defaults (deep copy) and proxy copies are bounded.",
             ADOPT, "whole-heap frame obligations", assumptions=[ACYCLIC, ADOPT]),
    "C14": M("proof",
             "Field.__setkey__ and Schema.__setkey__ verified against the naming rule of the statement for every combination of field-level and schema-level settings "
             "(opt-out stays out, explicit names kept, automatic name = parent prefix + '_' + upper-cased key, no prefix => no binding, nested schemas inherit); "
             "Field._get_env_value: a value only for a bound, non-empty variable, validated by the field, ValidationError otherwise; Field.__setdefault__: variable beats "
             "default, touches only its own key; load_tree skips exactly the bound non-empty keys while _set_value has no such test (assignment beats both). "
             "List/Dict/Challenge overrides and end-to-end precedence over documents are additionally run by the bounded driver (336 setting combinations x 24 field classes).",
             "str.upper is an uninterpreted function; os.environ is the ghost map env", "contracts on the two __setkey__ methods and the environment lookup",
             externals=["os.environ"]),
    "C15": M("other",
             "Proved: the only exception class leaving Config._set_value/__setattr__ for a persistent declared field is ValidationError; undeclared keys raise AttributeError; "
             "sub-configurations know parent and key (so Config._ref_path can name the full path). The reference-path functions and the loads() routes are bounded "
             "(every leaf path x rejected value types x 5 routes x 5 formats).",
             "ref_path arithmetic on strings is bounded", "exception-class obligations on the setter chain"),
    "C16": M("other",
             "Proved (45 obligations): Config._get_value / BaseField.__getval__ / Config.__getitem__ return the stored value of the named field (plain key = attribute access, "
             "dotted path = chained access) and are read-only; Config.__setitem__ with a plain key is exactly attribute assignment (every clause of _set_value) and with a dotted "
             "path assigns in the sub-configuration and leaves its own level alone; cmdline_args_override leaves the parsed arguments untouched, normalises a single ignore name to a "
             "list and changes nothing when no option was supplied (loop invariant). Bounded, not proved: field enumeration (get_all_fields: recursive list of tuples), the generated "
             "argument parser, and which options an override applies - decided by the driver (schemas depth <= 3, all command lines incl. the empty one, ignore lists, 28k cases).",
             "argparse is external; enumeration builds nested tuples outside the encoding", "contracts discharged by z3/cvc5 + bounded run-time contract checking"),
    "C17": M("other",
             "Proved for all states and arguments (87 obligations): ListProxy.append, insert, index assignment, extend, +=, +, copy and construction (from nothing, a list or a "
             "tuple) and DictProxy item assignment and setdefault behave like the built-in over the normalised items - length, order, untouched prefix, position of the new items, "
             "return values, typed fresh copies, exactly when the items of another proxy are taken over as they are; the generator expressions that feed the built-in list are "
             "verified as the loops they are (inductive invariants). DictProxy construction / update / |= from a dict and copy: every old key is kept, every new or changed entry "
             "satisfies key and value field, a rejected update leaves the dict as it was, a proxy of the same configuration and field is copied as it is, copies are typed and fresh "
             "(WHICH normalised entry ends up under a key - last one wins - is not stated: bounded). Bounded, not proved: arbitrary iterables (iterators, generators, views, pairs, "
             "keyword arguments, the receiver itself), slice assignment, *, pop/remove/delete/sort/reverse/clear (inherited built-ins) and all queries - decided by the differential "
             "driver against the built-in list/dict (100k operation sequences per quick run: every operation of the statement, every iterable kind, return values, typed copies).",
             "built-in list/dict are the oracle of the bounded part; item_norm/entry_norm (what validation makes of a value) are defined by the validators' outcome",
             "contracts on the real proxy classes discharged by z3/cvc5 + bounded differential run-time contract checking"),
    "C18": M("proof",
             "IncludeField.combine_trees verified for all trees: the result's domain is the union, included values win, two maps merge recursively (own contract as induction "
             "hypothesis), keys only in the base are kept, the result is a new map and no input is mutated (inductive loop invariant over the child's keys). include(), "
             "_process_includes() and loads() (path resolution, missing file) are bounded (13 include scenarios x 5 formats x 4 path modes).",
             "file parsing is external", "merge = recursive contract + loop invariant"),
    "C19": M("proof",
             "Config.save verified: on success the destination holds exactly the bytes dumps() returned; on every exceptional exit (dumps raising for any reason, open failing) the "
             "destination's content is unchanged; dumps/to_tree touch only key files. Loading back is C02.",
             "A.destination-is-not-a-key-file; a crash inside file.write is not modelled",
             "exceptional postcondition over the ghost file system"),
    "C20": M("other",
             "Bounded only so far: generate_stub under run-time contracts (ast.parse of the output, one class, attribute per field, __init__ parameters = persistent fields, "
             "method signatures vs inspect.signature, no stdout, schema/config snapshot unchanged) over every field class and parameter kind.",
             "Python syntax of generated text is not expressible as a VC at reasonable cost", "bounded run-time contract checking"),
}
