"""C20 bounded run-time contract driver: generate_stub(schema | config | config type, class_name) returns valid
Python declaring ONE class with an annotated attribute per field (virtual included), an __init__ whose parameters are
exactly the persistent fields and one method per instance method with the bound function's parameter names and kinds;
generating a stub changes neither schema nor configuration and writes nothing to standard output.
"""
import ast
import functools
import hashlib
import inspect
import json
import typing

from pyvc.raclib import Recorder, capture_stdout, sandbox, snapshot

PID = "C20"


class Custom:  # a user class used as annotation
    pass


# ------------------------------------------------------------------------------------------------ method signatures
def m_noargs(cfg):
    return 1


def m_positional(cfg, a, b):
    return a


def m_defaults(cfg, a, b=1, c="x"):
    return a


def m_varargs(cfg, *args):
    return args


def m_pos_varargs(cfg, a, *rest):
    return a


def m_kwonly(cfg, *, k, k2=2):
    return k


def m_pos_kwonly(cfg, a, *, k):
    return k


def m_varargs_kwonly(cfg, a, *args, k, k2=None):
    return k


def m_varkw(cfg, **kwargs):
    return kwargs


def m_everything(cfg, a, b=1, *args, k, k2=2, **kwargs):
    return a


def m_annotated(cfg, a: int, b: str = "x") -> None:
    return None


def m_annotated_all_kinds(cfg, a: int, b: float = 1.0, *args: int, k: str, k2: bool = True, **kwargs: int) -> int:
    return 1


def m_mixed_annotations(cfg, a, b: int, *, k, k2: str = "x"):
    return a


def m_string_annotations(cfg, a: "int", *, k: "typing.List[int]" = None) -> "str":
    return ""


def m_custom_class_annotation(cfg, a: Custom) -> Custom:
    return a


def m_return_only(cfg, a) -> int:
    return 1


def m_return_bool(cfg) -> bool:
    return True


def m_return_typing(cfg, a) -> typing.Optional[int]:
    return None


def m_cfg_annotated(cfg: "cincoconfig.Config", a):
    return a


def m_param_optional(cfg, a: typing.Optional[int] = None):
    return a


def m_param_list(cfg, a: typing.List[str]):
    return a


def m_kwonly_typing(cfg, *, k: typing.Dict[str, int] = None):
    return k


def m_param_any(cfg, a: typing.Any):
    return a


# classes defined in unusual places (used as storage types and annotations)
def _make_local_class():
    class LocalClass:  # __qualname__ '_make_local_class.<locals>.LocalClass'
        pass

    return LocalClass


LocalClass = _make_local_class()


class Outer:
    class Inner:  # __qualname__ 'Outer.Inner'
        pass


Renamed = type("Renamed", (), {})
Renamed.__qualname__ = "Some.Other<Name>"  # __qualname__ says something else than __name__
UNUSUAL_CLASSES = {"local": LocalClass, "nested": Outer.Inner, "renamed": Renamed}


def _unusual_methods():
    out = {}
    for kind, C in UNUSUAL_CLASSES.items():
        def param(cfg, a: C, b=1, *, k: C = None):
            return a

        def ret(cfg, a) -> C:
            return a

        def generic_param(cfg, a: typing.Optional[C] = None, *, k: typing.List[C] = None):
            return a

        def generic_return(cfg, a) -> typing.Dict[str, C]:
            return {}

        for f in (param, ret, generic_param, generic_return):
            f.__name__ = "m_%s_%s_class" % (f.__name__, kind)
            out[f.__name__[2:]] = f
    return out


UNUSUAL_METHODS = _unusual_methods()  # kept apart from METHODS: only used in the dedicated scenario section

def _wrapped_methods():
    """functools.wraps-decorated functions whose own signature differs from the wrapped function's: the instance method
    that will be called is the wrapper"""
    def base_function(cfg, a: int, b: str = "x") -> None:
        return None

    @functools.wraps(base_function)
    def adds_param(cfg, a, b="x", extra=None):
        return base_function(cfg, a, b)

    @functools.wraps(base_function)
    def removes_param(cfg, a):
        return base_function(cfg, a)

    @functools.wraps(base_function)
    def adds_kwonly(cfg, a, b="x", *, verbose=False):
        return base_function(cfg, a, b)

    @functools.wraps(base_function)
    def renames_params(cfg, first, second="x"):
        return base_function(cfg, first, second)

    @functools.wraps(base_function)
    def passes_through(cfg, *args, **kwargs):
        return base_function(cfg, *args, **kwargs)

    @functools.wraps(base_function)
    def same_signature(cfg, a, b="x"):
        return base_function(cfg, a, b)

    return {"wraps_" + n: f for n, f in [
        ("adds_param", adds_param), ("removes_param", removes_param), ("adds_kwonly", adds_kwonly),
        ("renames_params", renames_params), ("passes_through", passes_through), ("same_signature", same_signature)]}


WRAPPED_METHODS = _wrapped_methods()  # registry name -> wrapper (its __name__ is the wrapped function's)


def _method(name):
    for table in (METHODS, UNUSUAL_METHODS, WRAPPED_METHODS):
        if name in table:
            return table[name]
    raise KeyError(name)


METHODS = {f.__name__[2:]: f for f in [
    m_noargs, m_positional, m_defaults, m_varargs, m_pos_varargs, m_kwonly, m_pos_kwonly, m_varargs_kwonly, m_varkw,
    m_everything, m_annotated, m_annotated_all_kinds, m_mixed_annotations, m_string_annotations,
    m_custom_class_annotation, m_return_only, m_return_bool, m_return_typing, m_cfg_annotated, m_param_optional,
    m_param_list, m_kwonly_typing, m_param_any]}
TYPING_PARAM_METHODS = ("param_optional", "param_list", "kwonly_typing")


def _method_class(name):
    f = _method(name)
    if name in WRAPPED_METHODS:
        return "wraps-decorated"
    ann = dict(f.__annotations__)
    parts = []
    if name in TYPING_PARAM_METHODS:
        parts.append("typing-generic-param-annotation")
    if "return" in ann:
        parts.append("return-annotation")
    return "+".join(parts) or "plain"


# ------------------------------------------------------------------------------------------------ fields
def _field_table():
    import cincoconfig as cc

    def item_schema():
        s = cc.Schema()
        s.n = cc.IntField(default=1)
        return s

    def ctype(name="Item"):
        return cc.make_type(item_schema(), name)

    return {
        "Field": lambda: cc.Field(), "AnyField": lambda: cc.AnyField(), "StringField": lambda: cc.StringField(),
        "IntField": lambda: cc.IntField(), "FloatField": lambda: cc.FloatField(),
        "NumberField": lambda: cc.NumberField(int), "PortField": lambda: cc.PortField(),
        "IPv4AddressField": lambda: cc.IPv4AddressField(), "IPv4NetworkField": lambda: cc.IPv4NetworkField(),
        "FilenameField": lambda: cc.FilenameField(), "BoolField": lambda: cc.BoolField(),
        "FeatureFlagField": lambda: cc.FeatureFlagField(default=True), "UrlField": lambda: cc.UrlField(),
        "HostnameField": lambda: cc.HostnameField(), "LogLevelField": lambda: cc.LogLevelField(),
        "ApplicationModeField": lambda: cc.ApplicationModeField(),
        "ApplicationModeField(no helpers)": lambda: cc.ApplicationModeField(create_helpers=False),
        "ChallengeField": lambda: cc.ChallengeField(), "SecureField": lambda: cc.SecureField(),
        "BytesField": lambda: cc.BytesField(), "IncludeField": lambda: cc.IncludeField(),
        "ListField": lambda: cc.ListField(), "ListField(IntField)": lambda: cc.ListField(cc.IntField()),
        "ListField(StringField)": lambda: cc.ListField(cc.StringField()),
        "ListField(ListField(IntField))": lambda: cc.ListField(cc.ListField(cc.IntField())),
        "ListField(Schema)": lambda: cc.ListField(item_schema()),
        "ListField(ConfigType)": lambda: cc.ListField(ctype()),
        "DictField": lambda: cc.DictField(),
        "DictField(StringField,IntField)": lambda: cc.DictField(cc.StringField(), cc.IntField()),
        "DictField(value=FloatField)": lambda: cc.DictField(value_field=cc.FloatField()),
        "DictField(StringField,ListField(IntField))": lambda: cc.DictField(cc.StringField(), cc.ListField(cc.IntField())),
        "VirtualField": lambda: cc.VirtualField(lambda cfg: 1),
        "VirtualField(setter)": lambda: cc.VirtualField(lambda cfg: 1, lambda cfg, v: None),
        "Schema": item_schema,
        "Schema(nested 2)": lambda: _nested2(cc),
        "ConfigType": ctype,
    }


def _nested2(cc):
    s = cc.Schema()
    s.inner.n = cc.IntField(default=1)
    s.m = cc.StringField()
    return s


CTYPE_KINDS = ("ConfigType",)


def _unusual_field_table():
    """Field subclasses whose storage_type is a class defined in an unusual place; typed containers of them"""
    import cincoconfig as cc
    out = {}
    for kind, C in UNUSUAL_CLASSES.items():
        def plain(C=C, kind=kind):
            return type("%sStorageField" % kind.capitalize(), (cc.Field,), {"storage_type": C})()

        out["Field(storage=%s class)" % kind] = plain
        out["ListField(Field(storage=%s class))" % kind] = lambda plain=plain: cc.ListField(plain())
        out["DictField(StringField,Field(storage=%s class))" % kind] = \
            lambda plain=plain: cc.DictField(cc.StringField(), plain())
    return out


def _unusual_feature(desc):
    """-> witness class of a case that uses an unusual class, or None"""
    kinds = [k for _key, k in desc["fields"] if "storage=" in k]
    meths = [n for _key, n in desc.get("methods", []) if n in UNUSUAL_METHODS]
    if any(k.startswith(("ListField(", "DictField(")) for k in kinds):
        return "typing-generic-over-unusual-class:item-storage-type"
    if any(n.startswith("generic_param") for n in meths):
        return "typing-generic-over-unusual-class:param-annotation"
    if any(n.startswith("generic_return") for n in meths):
        return "typing-generic-over-unusual-class:return-annotation"
    if kinds:
        return "unusual-class:storage-type"
    if any(n.startswith("param") for n in meths):
        return "unusual-class:param-annotation"
    if meths:
        return "unusual-class:return-annotation"
    return None


def _build(desc, dynamic=False):
    """desc: {"fields": [[key, field kind], ...], "methods": [[key, method name], ...]} -> Schema"""
    import cincoconfig as cc
    table = _field_table()
    table.update(_unusual_field_table())
    s = cc.Schema(dynamic=True) if dynamic else cc.Schema()
    for key, kind in desc["fields"]:
        setattr(s, key, table[kind]())
    for key, name in desc.get("methods", []):
        cc.instance_method(s, key)(_method(name))
    return s


def _expected(schema):
    """from the schema's declared fields (not from stubs.py): attribute names, persistent names, methods"""
    import cincoconfig as cc
    from cincoconfig.core import VirtualFieldMixin, InstanceMethodFieldMixin
    attrs, persistent, methods = [], [], {}
    for key, field in schema._fields.items():
        if isinstance(field, InstanceMethodFieldMixin):
            methods[key] = field.method
        else:
            attrs.append(key)
            if not isinstance(field, VirtualFieldMixin):
                persistent.append(key)
    return attrs, persistent, methods


KIND_NAMES = {inspect.Parameter.POSITIONAL_ONLY: "positional-only", inspect.Parameter.POSITIONAL_OR_KEYWORD: "positional",
              inspect.Parameter.VAR_POSITIONAL: "*args", inspect.Parameter.KEYWORD_ONLY: "keyword-only",
              inspect.Parameter.VAR_KEYWORD: "**kwargs"}


def _sig_of_function(func):
    # the function that is bound and called (a functools.wraps wrapper is NOT looked through), minus `config`
    params = list(inspect.signature(func, follow_wrapped=False).parameters.values())[1:]
    return [(p.name, KIND_NAMES[p.kind]) for p in params]


def _sig_of_def(node):
    a = node.args
    out = [(x.arg, "positional-only") for x in a.posonlyargs] + [(x.arg, "positional") for x in a.args]
    if a.vararg:
        out.append((a.vararg.arg, "*args"))
    out += [(x.arg, "keyword-only") for x in a.kwonlyargs]
    if a.kwarg:
        out.append((a.kwarg.arg, "**kwargs"))
    return out


def _schema_fingerprint(schema, seen=None):
    """structure of a schema tree: keys, identity and plain attributes of every field, recursively"""
    import cincoconfig as cc
    out = []
    for key, field in schema._fields.items():
        attrs = sorted((k, repr(v)[:120]) for k, v in vars(field).items() if k not in ("_fields",))
        sub = _schema_fingerprint(field) if isinstance(field, cc.Schema) else None
        out.append((key, id(field), type(field).__name__, attrs, sub))
    return (id(schema), schema._key, schema._dynamic, len(schema._validators), out)


def _fresh_view(schema):
    """what a configuration created now from the schema looks like: its keys, extra fields, enumerated paths"""
    import cincoconfig as cc
    new = schema()
    return (sorted(new._data), sorted(new._fields), [p for p, _s, _f in cc.get_all_fields(new)],
            sorted(k for k, _v in new), sorted(schema._fields))


def _check(desc, target, class_name, sharing=None):
    """-> list of (obligation, what, witness_key).  sharing: None | {"dynamic": bool, "extras": bool}: the schema is
    shared with other live configurations (two plain ones and a config-type instance; with `dynamic` the schema is
    dynamic and one other configuration holds an undeclared key; with `extras` the subject configuration itself holds
    two undeclared keys)"""
    import cincoconfig as cc
    from cincoconfig.stubs import generate_stub
    fails = []
    dynamic = bool(sharing and sharing.get("dynamic"))
    extras = bool(sharing and sharing.get("extras") and dynamic)
    schema = _build(desc, dynamic=dynamic)
    made_type = cc.make_type(schema, "MadeType")
    cfg = None
    if target == "schema":
        subject = schema
    elif target == "config":
        subject = cfg = schema()
    elif target == "configtype":
        subject = made_type
    else:  # "configtype-instance"
        subject = cfg = made_type()
    extra_keys = []
    if extras and cfg is not None:
        cfg.extra_one = 5
        cfg.extra_two = {"a": [1]}
        extra_keys = ["extra_one", "extra_two"]
    others = []
    if sharing is not None:
        others = [schema(), schema(), made_type()]
        if dynamic:
            others[1].other_extra = [1, 2]
    want_name = class_name or "MadeType"
    has_ctype = any(k in CTYPE_KINDS for _key, k in desc["fields"])
    mclasses = sorted({_method_class(n) for _k, n in desc.get("methods", [])})
    input_class = _unusual_feature(desc) or "+".join((["config-type-field"] if has_ctype else []) +
                                                     [c for c in mclasses if "typing-generic" in c][:1]) or "plain"
    if "wraps-decorated" in mclasses:
        input_class = "wraps-decorated"
    if sharing is not None:
        input_class = "shared-schema:%s:%s" % (
            "dynamic-config-with-extra-keys" if extra_keys else "dynamic" if dynamic else "static", target)
    others_before = [snapshot(o) for o in others]
    fresh_before = _fresh_view(schema) if sharing is not None else None

    fp_before = _schema_fingerprint(schema)
    snap_before = snapshot(cfg) if cfg is not None else None
    tree_before = repr(cfg.to_tree()) if cfg is not None and not any(k == "SecureField" for _x, k in desc["fields"]) else None
    raised = None
    with capture_stdout() as out:
        try:
            text = generate_stub(subject, class_name) if class_name else generate_stub(subject)
        except Exception as exc:
            raised, text = exc, None
    printed = out.getvalue()
    if printed:
        fails.append(("stubs:generate_stub/post:C20.writes-nothing-to-stdout",
                      "generate_stub wrote %r to standard output" % printed[:160],
                      "method-with-return-annotation" if any("return-annotation" in c for c in mclasses) else "other"))
    if _schema_fingerprint(schema) != fp_before:
        fails.append(("stubs:generate_stub/post:C20.schema-unchanged", "schema changed while generating the stub",
                      input_class))
    if cfg is not None:
        if snapshot(cfg) != snap_before or (tree_before is not None and repr(cfg.to_tree()) != tree_before):
            fails.append(("stubs:generate_stub/post:C20.config-unchanged",
                          "configuration changed while generating the stub", input_class))
    if sharing is not None:
        if [snapshot(o) for o in others] != others_before:
            fails.append(("stubs:generate_stub/post:C20.other-configurations-unchanged",
                          "another configuration of the same schema changed while generating the stub", input_class))
        fresh_after = _fresh_view(schema)
        if fresh_after != fresh_before:
            fails.append(("stubs:generate_stub/post:C20.later-configurations-unaffected",
                          "a configuration created from the schema after generate_stub has (keys, extra fields, paths, "
                          "items, schema fields) %r, before it had %r" % (fresh_after, fresh_before), input_class))
    if raised is not None:
        fails.append(("stubs:generate_stub/raise:C20.total-on-schemas",
                      "generate_stub(%s, %r) raised %s: %s" % (target, class_name, type(raised).__name__, raised),
                      input_class))
        return fails
    if not isinstance(text, str):
        fails.append(("stubs:generate_stub/post:C20.valid-python", "returned %r, not text" % (text,), input_class))
        return fails
    try:
        mod = ast.parse(text)
    except SyntaxError as exc:
        fails.append(("stubs:generate_stub/post:C20.valid-python",
                      "stub is not valid Python (%s): %r" % (exc, text[:300]), input_class))
        return fails
    classes = [n for n in mod.body if isinstance(n, ast.ClassDef)]
    others = [n for n in mod.body if not isinstance(n, (ast.ClassDef, ast.Import, ast.ImportFrom))]
    if len(classes) != 1 or others or classes[0].name != want_name:
        fails.append(("stubs:generate_stub/post:C20.declares-one-class",
                      "stub declares classes %r (+%d other statements), expected one class %r"
                      % ([c.name for c in classes], len(others), want_name), input_class))
        if len(classes) != 1:
            return fails
    cls = classes[0]
    attrs, persistent, methods = _expected(schema)
    got_attrs = [n.target.id for n in cls.body if isinstance(n, ast.AnnAssign) and isinstance(n.target, ast.Name)]
    if extra_keys:  # whether undeclared keys of a dynamic configuration are listed is not fixed by the property
        got_attrs = [a for a in got_attrs if a not in extra_keys or a in attrs]
    if sorted(got_attrs) != sorted(attrs):
        fails.append(("stubs:generate_stub/post:C20.annotated-attribute-per-field",
                      "annotated attributes %r, fields %r (missing %r, extra %r)"
                      % (got_attrs, attrs, sorted(set(attrs) - set(got_attrs)), sorted(set(got_attrs) - set(attrs))),
                      input_class))
    defs = {}
    for n in cls.body:
        if isinstance(n, (ast.FunctionDef, ast.AsyncFunctionDef)):
            defs.setdefault(n.name, []).append(n)
    inits = defs.pop("__init__", [])
    if len(inits) != 1:
        fails.append(("stubs:generate_stub/post:C20.init-takes-persistent-fields",
                      "%d __init__ definitions" % len(inits), input_class))
    else:
        sig = _sig_of_def(inits[0])
        names = [n for n, _k in sig[1:] if n not in extra_keys or n in persistent]
        if not sig or sig[0][1] != "positional" or sorted(names) != sorted(persistent) or \
                any(k not in ("positional", "keyword-only") for _n, k in sig[1:]):
            fails.append(("stubs:generate_stub/post:C20.init-takes-persistent-fields",
                          "__init__ parameters %r, persistent fields %r" % (sig, persistent), input_class))
    if sorted(defs) != sorted(methods) or any(len(v) != 1 for v in defs.values()):
        fails.append(("stubs:generate_stub/post:C20.one-method-per-instance-method",
                      "methods declared %r, instance methods %r" % (sorted(defs), sorted(methods)), input_class))
    registry = dict((k, n) for k, n in desc.get("methods", []))
    for key, func in methods.items():
        if key not in defs:
            continue
        got = _sig_of_def(defs[key][0])
        want = _sig_of_function(func)
        if not got or got[0][1] != "positional" or got[1:] != want:
            fails.append(("stubs:generate_stub/post:C20.method-signature",
                          "method %s declared with parameters %r, the bound function takes %r" % (key, got[1:], want),
                          "signature:" + registry.get(key, func.__name__)))
    return fails


def _cases(tier):
    table = _field_table()
    kinds = list(table)
    cases = []
    targets = ("schema", "config", "configtype", "configtype-instance")

    def add(desc, tgts=targets, names=("Stub",)):
        for t in tgts:
            for cn in names:
                cases.append({"fields": desc["fields"], "methods": desc.get("methods", []), "target": t, "class_name": cn})
            if t == "configtype":
                cases.append({"fields": desc["fields"], "methods": desc.get("methods", []), "target": t, "class_name": None})

    add({"fields": []}, tgts=("schema", "config"))  # empty schema (trivial)
    for k in kinds:  # every field kind alone
        add({"fields": [["f", k]]})
    for k in kinds:  # every field kind between a plain field and a virtual field, with one method
        add({"fields": [["first", "IntField"], ["f", k], ["v", "VirtualField"]], "methods": [["go", "positional"]]},
            tgts=("schema", "config"))
    for name in METHODS:  # every signature shape alone and next to fields
        add({"fields": [], "methods": [["meth", name]]}, tgts=("schema", "configtype"))
        add({"fields": [["a", "IntField"], ["v", "VirtualField"], ["sub", "Schema"]], "methods": [["meth", name]]},
            tgts=("schema", "config"))
    plain_methods = [n for n in METHODS if n not in TYPING_PARAM_METHODS]
    # all field kinds at once (with / without config-type fields), all plain methods at once
    no_ct = [k for k in kinds if k not in CTYPE_KINDS]
    add({"fields": [["f%d" % i, k] for i, k in enumerate(no_ct)],
         "methods": [["m_%s" % n, n] for n in plain_methods if "return" not in METHODS[n].__annotations__]})
    add({"fields": [["f%d" % i, k] for i, k in enumerate(no_ct)], "methods": [["m_%s" % n, n] for n in plain_methods]})
    add({"fields": [["f%d" % i, k] for i, k in enumerate(kinds)], "methods": [["m_%s" % n, n] for n in plain_methods]})
    # classes defined in unusual places as storage type / parameter annotation / return annotation (alone, in context,
    # every storage use with every annotation use), and typed containers / typing generics over them
    ufields, umethods = list(_unusual_field_table()), list(UNUSUAL_METHODS)
    for k in ufields:
        add({"fields": [["f", k]]})
        add({"fields": [["first", "IntField"], ["f", k], ["v", "VirtualField"]], "methods": [["go", "positional"]]},
            tgts=("schema", "config"))
    for name in umethods:
        add({"fields": [], "methods": [["meth", name]]}, tgts=("schema", "configtype"))
        add({"fields": [["a", "IntField"], ["v", "VirtualField"], ["sub", "Schema"]], "methods": [["meth", name]]},
            tgts=("schema", "config"))
    for k in ufields:
        for name in umethods:
            if "storage=" in k and not k.startswith("Field(") or name.startswith("generic"):
                continue
            add({"fields": [["f", k]], "methods": [["meth", name]]}, tgts=("schema", "configtype-instance"))
    # functools.wraps-decorated instance methods whose wrapper signature differs from the wrapped function's
    for name in WRAPPED_METHODS:
        add({"fields": [], "methods": [["meth", name]]})
        add({"fields": [["a", "IntField"], ["v", "VirtualField"], ["sub", "Schema"]], "methods": [["meth", name]]},
            tgts=("schema", "config"))
        for other in ("everything", "annotated", "kwonly"):
            add({"fields": [["n", "IntField"]], "methods": [["one", name], ["two", other]]}, tgts=("schema",))
            add({"fields": [["n", "IntField"]], "methods": [["one", other], ["two", name]]}, tgts=("schema",))
    # schema shared with other live configurations; dynamic schemas; dynamic configuration holding undeclared keys
    shared_descs = [{"fields": [["f", k]]} for k in kinds] + [
        {"fields": [["a", "IntField"], ["l", "ListField(IntField)"], ["sub", "Schema(nested 2)"], ["v", "VirtualField"]],
         "methods": [["go", "everything"]]},
        {"fields": [], "methods": [["go", "positional"]]},
        {"fields": []},
    ]
    for d in shared_descs:
        for sharing in ({"dynamic": False, "extras": False}, {"dynamic": True, "extras": False},
                        {"dynamic": True, "extras": True}):
            for t in targets:
                if sharing["extras"] and t in ("schema", "configtype"):
                    continue  # undeclared keys live in a configuration instance
                cases.append({"fields": d["fields"], "methods": d.get("methods", []), "target": t, "class_name": "Stub",
                              "sharing": sharing})
    # pairs of field kinds (order matters for the rendering)
    for a in kinds:
        for b in kinds:
            add({"fields": [["x", a], ["y", b]]}, tgts=("schema",) if tier == "quick" else ("schema", "config"))
    # every field kind with every signature shape
    for k in kinds:
        for name in METHODS:
            if k in CTYPE_KINDS and name in TYPING_PARAM_METHODS:
                continue  # two known failing input classes at once decide nothing new
            add({"fields": [["f", k]], "methods": [["meth", name]]}, tgts=("schema",))
    # ordered pairs of methods
    for a in METHODS:
        for b in METHODS:
            if a != b:
                add({"fields": [["n", "IntField"]], "methods": [["one", a], ["two", b]]}, tgts=("schema",))
    return cases


def _random_case(rng):
    kinds = list(_field_table())
    names = list(METHODS)
    nf, nm = rng.randrange(0, 7), rng.randrange(0, 4)
    fields = [["k%d" % i, kinds[rng.randrange(len(kinds))]] for i in range(nf)]
    if any(k in CTYPE_KINDS for _key, k in fields):
        names = [n for n in names if n not in TYPING_PARAM_METHODS]
    return {"fields": fields,
            "methods": [["m%d" % i, names[rng.randrange(len(names))]] for i in range(nm)],
            "target": ("schema", "config", "configtype", "configtype-instance")[rng.randrange(4)],
            "class_name": ("Stub", "A_b1")[rng.randrange(2)]}


def replay(case):
    with sandbox():
        fails = _check({"fields": case["fields"], "methods": case.get("methods", [])}, case["target"],
                       case.get("class_name"), case.get("sharing"))
    want = case.get("obligation")
    hit = [f for f in fails if want is None or f[0] == want]
    return {"fails": bool(hit), "expected": "no failed clause" + (" (%s)" % want if want else ""),
            "observed": [{"obligation": f[0], "what": f[1], "witness_key": f[2]} for f in fails][:10]}


def rac(tier="quick", seed=0):
    rec = Recorder(
        PID,
        rule="case = (ordered field kinds, ordered instance-method signature shapes, target: schema | config | config type "
             "| config-type instance, class name or None); expected attributes/constructor parameters/methods are read off "
             "the declared fields and inspect.signature(function) minus the config parameter; non-trivial iff the schema "
             "has a field or a method",
        bound="36 field kinds (every built-in field class, typed/nested lists and dicts, lists of schemas/config types, "
              "virtual with/without setter, nested schemas, config type) + 9 kinds whose storage type is a class defined in a "
              "function / nested in a class / with __qualname__ != __name__ (plain, list item, dict value), 23 + 12 signature "
              "shapes (the 12: such classes as parameter / return annotation, plain and inside typing generics; the 23: positional, defaults, *args, "
              "keyword-only, **kwargs, annotated by class / string / typing generic / user class, with/without return "
              "annotation; 6 functools.wraps wrappers whose signature differs from the wrapped function (adds / removes / "
              "renames a parameter, adds a keyword-only option, *args/**kwargs pass-through, same); shared schemas: 39 "
              "schemas x {static, dynamic, dynamic configuration holding 2 undeclared keys} x 4 targets with 3 other live "
              "configurations and a configuration created afterwards; singles x 4 targets, each kind in context, all kinds at once, all ordered pairs of kinds, every "
              "kind x every signature, all ordered pairs of signatures; + seeded random schemas (<= 6 fields, <= 3 methods, "
              "4 targets): quick 1500, thorough 150000 (or until the budget)",
        tier=tier, seed=seed)
    with sandbox():
        cases = _cases(tier)
        n_random = 1500 if tier == "quick" else 150000
        i = -1
        while True:
            i += 1
            if i < len(cases):
                case = cases[i]
            elif i < len(cases) + n_random and not (tier != "quick" and rec.out_of_time()):
                case = _random_case(rec.rng)
            else:
                break
            desc = {"fields": case["fields"], "methods": case["methods"]}
            fails = _check(desc, case["target"], case["class_name"], case.get("sharing"))
            rec.case(key=hashlib.md5(json.dumps(case, sort_keys=True).encode()).hexdigest(),
                     nontrivial=bool(case["fields"] or case["methods"] or case.get("sharing")), sample=case if i % 557 == 40 else None)
            for obligation, what, wk in fails:
                rec.violation(obligation=obligation, what=what, replay=dict(case, obligation=obligation), witness_key=wk)
    return rec.result(exhaustive=False)
