"""C02 bounded run-time contract driver: saving and re-loading a configuration reproduces it exactly, in every format.

One case = one real round trip ``c2 = fresh config of the same schema with the same key file;
c2.loads(c1.dumps(fmt, **opts), fmt, **opts)`` for a schema built from a grammar of the built-in persistent field
types (*atoms*) placed in structural *slots* (root, nested schemas to depth 3, config types, lists of schemas / config
types, typed lists and dicts, dynamic root), with a valid value set through the public API.

Clauses (oracle = the property statement / the documented ``to_python(to_basic(v)) == v`` contract of Field):
  core:Config.to_tree/post:C02.plain-data              the serialised tree is plain data only
  core:Config.to_tree/post:C02.no-virtual-or-method    no virtual / instance-method keys unless virtual=True is asked
  core:Config.to_tree/post:C02.virtual-on-request      virtual=True adds the virtual value, never the instance method
  core:Config.dumps/raise:C02.dump-succeeds            a valid state representable in the format serialises
  core:Config.loads/raise:C02.reload-succeeds          ... and loads into the fresh configuration
  core:Config.loads/post:C02.value-reproduced          ... and every persistent value is equal (DigestValue: salt+digest,
                                                       secrets: plaintext, bytes as bytes, nested configs and lists of
                                                       configs recursively); only normalisations: unset typed list/dict
                                                       -> empty, empty secret -> unset
  <module>:<Class>.to_python/post:C02.inverse-of-to_basic   field.to_python(cfg, field.to_basic(cfg, v)) == v
  core:Schema.__call__/post:C02.child-knows-parent     the sub-config built during load belongs to its parent
A (state, format) pair whose serialised tree is outside the format's stated domain is skipped (no claim).
"""
import hashlib
import json
import os
import re
from unittest import mock

from pyvc.raclib import Recorder, sandbox

PID = "C02"
FORMATS = ["json", "yaml", "xml", "bson", "pickle"]
OPTION_VALUES = [("json", {"pretty": False}), ("json", {"pretty": True}), ("yaml", {"root_key": "CONFIG"}),
                 ("yaml", {"root_key": ""}), ("yaml", {"root_key": None}), ("xml", {"root_tag": "settings"})]
OB_PLAIN = "core:Config.to_tree/post:C02.plain-data"
OB_NOVIRT = "core:Config.to_tree/post:C02.no-virtual-or-method"
OB_VIRT = "core:Config.to_tree/post:C02.virtual-on-request"
OB_DUMP = "core:Config.dumps/raise:C02.dump-succeeds"
OB_LOAD = "core:Config.loads/raise:C02.reload-succeeds"
OB_VALUE = "core:Config.loads/post:C02.value-reproduced"
OB_PARENT = "core:%s.__call__/post:C02.child-knows-parent"
MAX_VIOLATIONS_PER_OBLIGATION = 60

KEY_BYTES = bytes(range(32))
OTHER_KEY_BYTES = bytes(range(100, 132))


# ---------------------------------------------------------------------------------------------------------------
# Deterministic randomness (replay dicts name atoms/values/slots by label, so they are JSON-able as they are)
# ---------------------------------------------------------------------------------------------------------------


class _DetRandom:
    """deterministic stand-in for os.urandom (salts, IVs, generated keys) so that a run is reproducible"""

    def __init__(self, seed):
        self.seed, self.n = seed, 0

    def __call__(self, size):
        out = b""
        while len(out) < size:
            self.n += 1
            out += hashlib.sha256(b"C02-rac:%d:%d" % (self.seed, self.n)).digest()
        return out[:size]


# ---------------------------------------------------------------------------------------------------------------
# Equality of configurations (persistent field values, recursively) with the two named normalisations
# ---------------------------------------------------------------------------------------------------------------

_MISSING = ("<missing>",)


def _leaf_eq(a, b):
    from cincoconfig.fields import DigestValue
    if isinstance(a, DigestValue) or isinstance(b, DigestValue):
        return (isinstance(a, DigestValue) and isinstance(b, DigestValue) and a.salt == b.salt
                and a.digest == b.digest and a.algorithm is b.algorithm)
    if type(a) is not type(b):
        return False
    if isinstance(a, float):
        return (a != a and b != b) or (a == b and (a != 0 or str(a) == str(b)))
    if isinstance(a, (list, tuple)):
        return len(a) == len(b) and all(_leaf_eq(x, y) for x, y in zip(a, b))
    if isinstance(a, dict):
        return set(a) == set(b) and all(_leaf_eq(a[k], b[k]) for k in a)
    return a == b


def _show(v):
    from cincoconfig.core import Config
    from cincoconfig.fields import DigestValue
    if isinstance(v, Config):
        return "<Config %s>" % ",".join(v._data)
    if isinstance(v, DigestValue):
        return "<Digest %s>" % str(v)[:24]
    return repr(v)[:90]


def diff_value(field, a, b, path, out):
    """a: saved value, b: re-loaded value; appends (path, expected, observed) for every difference"""
    from cincoconfig.core import AnyField, Config
    from cincoconfig.fields import DictField, ListField, SecureField
    if isinstance(a, Config) or isinstance(b, Config):
        if isinstance(a, Config) and isinstance(b, Config):
            diff_config(a, b, path, out)
        else:
            out.append((path, _show(a), _show(b)))
        return
    if isinstance(field, ListField) and field.field is not None and not isinstance(field.field, AnyField):
        if a is None and isinstance(b, list) and not b:
            return  # normalisation named by the property: an unset typed list may come back empty
        if isinstance(a, list) and isinstance(b, list) and type(a) is type(b) and len(a) == len(b):
            for i, (x, y) in enumerate(zip(a, b)):
                diff_value(field.field, x, y, "%s[%d]" % (path, i), out)
            return
    if isinstance(field, DictField) and field._use_proxy:
        if a is None and isinstance(b, dict) and not b:
            return  # an unset typed dict may come back empty
        if isinstance(a, dict) and isinstance(b, dict) and type(a) is type(b) and set(a) == set(b):
            for k in a:
                diff_value(field.value_field, a[k], b[k], "%s[%r]" % (path, k), out)
            return
    if isinstance(field, SecureField) and a == "" and b is None:
        return  # an empty secret comes back unset
    if not _leaf_eq(a, b):
        out.append((path, _show(a), _show(b)))


def diff_config(c1, c2, path="", out=None):
    from cincoconfig.core import InstanceMethodFieldMixin, VirtualFieldMixin
    out = [] if out is None else out
    if type(c1) is not type(c2) or c1._schema is not c2._schema:
        out.append((path or "<root>", "config of %r" % type(c1).__name__, "config of %r" % type(c2).__name__))
        return out
    fields = dict(c1._schema._fields)
    fields.update(c1._fields)
    fields.update(c2._fields)
    for key, field in fields.items():
        if isinstance(field, (VirtualFieldMixin, InstanceMethodFieldMixin)):
            continue
        sub = (path + "." + key) if path else key
        a, b = c1._data.get(key, _MISSING), c2._data.get(key, _MISSING)
        if a is _MISSING or b is _MISSING:
            if a is not b:
                out.append((sub, _show(a), _show(b)))
            continue
        diff_value(field, a, b, sub, out)
    return out


# ---------------------------------------------------------------------------------------------------------------
# Plain data and format domains (from the property statement)
# ---------------------------------------------------------------------------------------------------------------

_XML_BAD_CHAR = re.compile("[^\t\n -\ud7ff\ue000-\ufffd\U00010000-\U0010ffff]")  # also excludes \r
_NS = ("A-Z_a-z\u00c0-\u00d6\u00d8-\u00f6\u00f8-\u02ff\u0370-\u037d\u037f-\u1fff\u200c-\u200d\u2070-\u218f"
       "\u2c00-\u2fef\u3001-\ud7ff\uf900-\ufdcf\ufdf0-\ufffd")
_XML_NAME = re.compile("^[%s][%s\\-.0-9\u00b7\u0300-\u036f\u203f-\u2040]*$" % (_NS, _NS))


def not_plain(v, path="$"):
    """path of the first thing in a tree that is not plain data (None if the tree is plain)"""
    if v is None or type(v) in (bool, int, float, str):
        return None
    if isinstance(v, list):
        for i, x in enumerate(v):
            bad = not_plain(x, "%s[%d]" % (path, i))
            if bad:
                return bad
        return None
    if isinstance(v, dict):
        for k, x in v.items():
            if type(k) is not str:
                return "%s: key %r (%s)" % (path, k, type(k).__name__)
            bad = not_plain(x, "%s.%s" % (path, k))
            if bad:
                return bad
        return None
    return "%s: %s" % (path, type(v).__name__)


def walk(v):
    if isinstance(v, dict):
        for k, x in v.items():
            yield ("key", k)
            yield from walk(x)
    elif isinstance(v, list):
        for x in v:
            yield from walk(x)
    else:
        yield ("leaf", v)


def in_domain(fmt, tree):
    """is the (plain) serialised tree representable in the format, as the property's quantifier states it"""
    for kind, x in walk(tree):
        if kind == "key":
            if not isinstance(x, str):
                return fmt in ("yaml", "pickle")
            if fmt == "xml" and not _XML_NAME.match(x):
                return False
            if fmt == "bson" and "\x00" in x:
                return False
        else:
            if fmt == "xml" and isinstance(x, str) and _XML_BAD_CHAR.search(x):
                return False
            if fmt == "bson" and isinstance(x, int) and not isinstance(x, bool) and not -2 ** 63 <= x < 2 ** 63:
                return False
    return True


def find_keys(tree, prefixes, path="$"):
    """paths of keys starting with one of the prefixes, at any depth"""
    found = []
    if isinstance(tree, dict):
        for k, x in tree.items():
            if isinstance(k, str) and k.startswith(prefixes):
                found.append(path + "." + k)
            found.extend(find_keys(x, prefixes, path + "." + str(k)))
    elif isinstance(tree, list):
        for i, x in enumerate(tree):
            found.extend(find_keys(x, prefixes, "%s[%d]" % (path, i)))
    return found


# ---------------------------------------------------------------------------------------------------------------
# Atoms: every persistent built-in field type with valid values
# ---------------------------------------------------------------------------------------------------------------

NAN, INF = float("nan"), float("inf")


def atoms(tmp):
    """-> ordered dict name -> {make: () -> fresh Field, values: [(label, value | () -> value)]}"""
    import cincoconfig as cc
    out = {}

    def atom(name, make, values):
        out[name] = {"make": make, "values": values}

    strings = [("empty", ""), ("a", "a"), ("true", "true"), ("one", "1"), ("padded", " x "), ("unicode", "\u00e9\u4e2d\U0001f600"),
               ("markup", "<a b=\"c\">&amp;'</a>"), ("multiline", "a\nb\n"), ("null", "null"), ("yaml", "- {a: b} #c"),
               ("cr", "a\r\nb"), ("unset", None)]
    atom("string", lambda: cc.StringField(), strings)
    atom("string-default", lambda: cc.StringField(default="dflt"), [("kept-default", _KEEP), ("set", "x"), ("none", None)])
    atom("string-required", lambda: cc.StringField(required=True), [("x", "x")])
    atom("string-transform", lambda: cc.StringField(transform_case="upper", transform_strip=True, min_len=1, max_len=5,
                                                    regex="^[A-Z]+$"), [("abc", " abc ")])
    atom("string-choices", lambda: cc.StringField(choices=["ab", "cd"]), [("ab", "ab")])
    atom("loglevel", lambda: cc.LogLevelField(), [("DEBUG", "DEBUG"), ("unset", None)])
    atom("appmode", lambda: cc.ApplicationModeField(default="production"), [("development", "development"), ("kept-default", _KEEP)])
    atom("int", lambda: cc.IntField(), [("0", 0), ("-1", -1), ("2^31", 2 ** 31), ("2^63-1", 2 ** 63 - 1), ("-2^63", -2 ** 63),
                                        ("2^70", 2 ** 70), ("from-str", "12"), ("unset", None)])
    atom("int-default", lambda: cc.IntField(default=5, min=0, max=10), [("kept-default", _KEEP), ("7", 7), ("none", None),
                                                                        ("min", 0), ("max", 10)])
    atom("float", lambda: cc.FloatField(), [("0.0", 0.0), ("-0.0", -0.0), ("1.5", 1.5), ("inf", INF), ("-inf", -INF), ("nan", NAN),
                                            ("1e300", 1e300), ("5e-324", 5e-324), ("from-int", 3), ("0.1", 0.1), ("unset", None)])
    atom("port", lambda: cc.PortField(), [("1", 1), ("65535", 65535)])
    atom("bool", lambda: cc.BoolField(), [("true", True), ("false", False), ("from-yes", "yes"), ("unset", None)])
    atom("featureflag", lambda: cc.FeatureFlagField(default=True), [("false", False), ("true", True)])
    blobs = [("ff00", b"\xff\x00"), ("empty", b""), ("all-bytes", bytes(range(256))), ("from-str", "text"), ("unset", None)]
    atom("bytes-base64", lambda: cc.BytesField(), blobs)
    atom("bytes-hex", lambda: cc.BytesField(encoding="hex"), blobs)
    atom("ipv4", lambda: cc.IPv4AddressField(), [("loopback", "127.0.0.1"), ("broadcast", "255.255.255.255")])
    atom("ipv4net", lambda: cc.IPv4NetworkField(min_prefix_len=0, max_prefix_len=32),
         [("10/8", "10.0.0.0/8"), ("0/0", "0.0.0.0/0"), ("host", "1.2.3.4/32")])
    atom("hostname", lambda: cc.HostnameField(), [("localhost", "localhost"), ("dns", "a-b.example.com"), ("ip", "192.168.0.1")])
    atom("url", lambda: cc.UrlField(), [("http", "http://user@h.example:8080/p?q=1&r=2#f"), ("file", "file:///tmp/x")])
    atom("filename", lambda: cc.FilenameField(), [("relative", "rel/x.txt"), ("absolute", "/abs/x y.txt")])
    atom("filename-startdir", lambda: cc.FilenameField(startdir=tmp), [("relative", "rel.txt")])
    atom("include-unset", lambda: cc.IncludeField(), [("unset", None)])
    plain_list = [1, "a", None, True, 1.5, -0.0, "", "true"]
    atom("list-untyped", lambda: cc.ListField(), [("mixed", plain_list), ("empty", []), ("nested", [[1], [{}], {"a": [None]}]),
                                                  ("unset", None)])
    atom("list-any", lambda: cc.ListField(cc.AnyField()), [("mixed", plain_list), ("empty", [])])
    atom("list-int", lambda: cc.ListField(cc.IntField()), [("two", [1, 2]), ("empty", []), ("from-str", ["3"]), ("unset", None)])
    atom("list-str", lambda: cc.ListField(cc.StringField(), required=True), [("three", ["a", "", "true"])])
    atom("list-float", lambda: cc.ListField(cc.FloatField()), [("special", [NAN, -0.0, INF])])
    atom("list-default", lambda: cc.ListField(cc.IntField(), default=lambda: [1, 2]), [("kept-default", _KEEP), ("set", [3])])
    atom("dict-untyped", lambda: cc.DictField(), [("nested", {"a": 1, "b": [1, {"c": None}], "k": ""}), ("empty", {}), ("unset", None)])
    atom("dict-str-int", lambda: cc.DictField(cc.StringField(), cc.IntField()), [("two", {"a": 1, "b": -2}), ("empty", {}), ("unset", None)])
    atom("dict-any-float", lambda: cc.DictField(value_field=cc.FloatField()), [("special", {"n": NAN, "z": -0.0})])
    atom("dict-str-listint", lambda: cc.DictField(cc.StringField(), cc.ListField(cc.IntField())), [("one", {"a": [1, 2], "b": []})])
    atom("dict-int-keys", lambda: cc.DictField(cc.IntField(), cc.StringField()), [("one", {1: "a"})])
    for alg in ("sha256", "md5", "sha512"):
        atom("challenge-" + alg, (lambda alg=alg: cc.ChallengeField(alg)),
             [("password", "password"), ("bytes", b"\xffpw"), ("unset", None)]
             + ([("digest-value", (lambda: cc.DigestValue.create("pw", hashlib.sha256)))] if alg == "sha256" else []))
    atom("challenge-default", lambda: cc.ChallengeField("sha1", default="dflt"), [("kept-default", _KEEP)])
    for method in ("xor", "aes", "best"):
        atom("secure-" + method, (lambda method=method: cc.SecureField(method=method)),
             [("secret", "secret"), ("unicode", "p\u00e4ss \u4e2d"), ("long", "x" * 100), ("empty", ""), ("unset", None)])
    return out


_KEEP = ("<keep the default>",)
N_ATOMS = 40  # checked against the table at run time

# atoms whose values are scalars: these are also used as item/value fields of typed lists and dicts
WRAPPABLE = ["string", "int", "float", "bool", "bytes-base64", "bytes-hex", "ipv4", "hostname", "url", "filename-startdir",
             "loglevel", "challenge-sha256", "challenge-md5", "secure-xor", "secure-aes", "list-int", "dict-str-int",
             "list-untyped", "dict-untyped"]
SECURE = ["secure-xor", "secure-aes", "secure-best"]

# slots: container steps from the root, then typed-container wrappers around the atom
SLOTS = {
    "root": ([], []),
    "dynamic-root": ([], []),
    "schema": (["schema"], []),
    "schema.schema": (["schema", "schema"], []),
    "configtype": (["configtype"], []),
    "schema.configtype": (["schema", "configtype"], []),
    "configtype.schema": (["configtype", "schema"], []),
    "list-of-schema": (["list-of-schema"], []),
    "list-of-configtype": (["list-of-configtype"], []),
    "schema.list-of-schema": (["schema", "list-of-schema"], []),
    "list-of-schema.schema": (["list-of-schema", "schema"], []),
    "typed-list": ([], ["typed-list"]),
    "typed-dict": ([], ["typed-dict"]),
    "typed-list.typed-list": ([], ["typed-list", "typed-list"]),
    "schema.typed-list": (["schema"], ["typed-list"]),
    "list-of-schema.typed-dict": (["list-of-schema"], ["typed-dict"]),
}
WRAPPER_SLOTS = [s for s, (_steps, wraps) in SLOTS.items() if wraps]


def family(aname):
    """witness classes merge the variants of one encoded field type (base64/hex, hash algorithms, cipher methods)"""
    for prefix in ("bytes", "challenge", "secure"):
        if aname.startswith(prefix + "-"):
            return prefix
    return aname


def slot_class(slot):
    """witness classes merge slots with the same kinds of steps: the innermost typed container if there is one (it
    decides how items are decoded), else the set of container kinds between the root and the field"""
    steps, wraps = SLOTS[slot]
    if slot == "dynamic-root":
        return slot
    if wraps:
        return wraps[-1]
    return "+".join(sorted(set(steps))) or "root"


def decorate(schema, tag):
    """every schema of a case also declares a virtual field and an instance method: they must never be serialised"""
    import cincoconfig as cc
    schema["vf_" + tag] = cc.VirtualField(lambda cfg, tag=tag: "virtual-" + tag)
    schema["im_" + tag] = cc.InstanceMethodField(lambda cfg, tag=tag: "method-" + tag)


def place(schema, steps, wraps, fname, make_field):
    """add the atom under `schema` following the slot; -> setter(cfg_of_schema, value)"""
    import cincoconfig as cc
    if not steps:
        field = make_field()
        for w in reversed(wraps):
            field = cc.ListField(field) if w == "typed-list" else cc.DictField(cc.StringField(), field)
        schema[fname] = field

        def set_leaf(cfg, value):
            if value is _KEEP:
                return
            for w in reversed(wraps):
                value = [value, value] if w == "typed-list" else {"k1": value, "k2": value}
            cfg[fname] = value
        return set_leaf
    step, rest = steps[0], steps[1:]
    if step == "schema":
        key = "s_" + fname
        sub = schema[key]
        decorate(sub, key)
        inner = place(sub, rest, wraps, fname, make_field)
        return lambda cfg, value: inner(cfg[key], value)
    if step == "configtype":
        key = "t_" + fname
        ts = cc.Schema()
        decorate(ts, key)
        inner = place(ts, rest, wraps, fname, make_field)
        schema[key] = cc.make_type(ts, "T_" + fname)
        return lambda cfg, value: inner(cfg[key], value)
    if step in ("list-of-schema", "list-of-configtype"):
        key = "l_" + fname
        item = cc.Schema()
        item.other = cc.IntField(default=1)
        decorate(item, key)
        inner = place(item, rest, wraps, fname, make_field)
        factory = item if step == "list-of-schema" else cc.make_type(item, "I_" + fname)
        schema[key] = cc.ListField(factory)

        def set_item(cfg, value):
            first, second = factory(), factory()
            inner(first, value)
            inner(second, value)
            second.other = 2
            cfg[key] = [first, second]
        return set_item
    raise ValueError(step)


def build(entries, tmp, table, keyfile="explicit"):
    """entries: [(slot, atom, value label)] -> (c1, fresh, schema, top-level key of every entry)"""
    import cincoconfig as cc
    from cincoconfig.core import Config
    dynamic = any(slot == "dynamic-root" for slot, _a, _v in entries)
    schema = cc.Schema(dynamic=dynamic)
    decorate(schema, "root")
    setters, tops = [], []
    for i, (slot, aname, vlabel) in enumerate(entries):
        steps, wraps = SLOTS[slot]
        fname = "f%d" % i
        setters.append((place(schema, steps, wraps, fname, table[aname]["make"]), dict(table[aname]["values"])[vlabel]))
        tops.append({"schema": "s_", "configtype": "t_", "list-of-schema": "l_", "list-of-configtype": "l_"}[steps[0]] + fname
                    if steps else fname)
    kf = os.path.join(tmp, "explicit.key") if keyfile == "explicit" else None

    def fresh():
        return Config(schema, key_filename=kf) if kf else Config(schema)

    c1 = fresh()
    for setter, value in setters:
        setter(c1, value() if callable(value) else value)
    if dynamic:
        c1.extra_scalar = "extra"
        c1.extra_tree = {"a": [1, None, {"b": -0.0}], "e": {}}
        c1.extra_none = None
    c1.validate()
    return c1, fresh, schema, tops


# ---------------------------------------------------------------------------------------------------------------
# The clauses on one built state
# ---------------------------------------------------------------------------------------------------------------


class Findings:
    """failures of one run, collapsed over formats: a class that fails in all five formats is one witness"""

    def __init__(self):
        self.pending = {}

    def add(self, obligation, base, fmt, what, replay):
        self.pending.setdefault((obligation, base), {}).setdefault(fmt, (what, replay))

    def emit(self, rec):
        for (ob, base), per_fmt in self.pending.items():
            if sum(1 for v in rec.violations if v["obligation"] == ob) >= MAX_VIOLATIONS_PER_OBLIGATION:
                continue
            if None in per_fmt:  # format-independent clause
                what, replay = per_fmt[None]
                rec.violation(obligation=ob, what=what, replay=replay, witness_key=base)
            elif all(f in per_fmt for f in FORMATS):
                what, replay = per_fmt[FORMATS[0]]
                rec.violation(obligation=ob, what="(all five formats) " + what, replay=replay, witness_key=base)
            else:
                for fmt in FORMATS:
                    if fmt in per_fmt:
                        what, replay = per_fmt[fmt]
                        rec.violation(obligation=ob, what=what, replay=replay, witness_key="%s@%s" % (base, fmt))


def check_tree_clauses(c1, base, replay, report):
    """plain data / no virtual or method keys / virtual on request -> the plain tree or None"""
    tree = c1.to_tree()
    bad = not_plain(tree)
    if bad:
        report(OB_PLAIN, base, None, "to_tree() contains non-plain data at %s" % bad, replay)
    leaked = find_keys(tree, ("vf_", "im_"))
    if leaked:
        report(OB_NOVIRT, base, None, "to_tree() without virtual=True contains %s" % leaked[:3], replay)
    vtree = c1.to_tree(virtual=True)
    if vtree.get("vf_root") != "virtual-root" or find_keys(vtree, ("im_",)):
        report(OB_VIRT, base, None, "to_tree(virtual=True): vf_root=%r, instance-method keys %s"
               % (vtree.get("vf_root"), find_keys(vtree, ("im_",))[:3]), replay)
    return None if bad else tree


def roundtrip(c1, fresh, fmt, opts):
    """-> (stage, detail): ('ok', None) | ('dump', err) | ('load', err) | ('value', (path, expected, observed))"""
    try:
        data = c1.dumps(fmt, **opts)
    except Exception as err:
        return "dump", "%s: %s" % (type(err).__name__, str(err)[:100])
    c2 = fresh()
    try:
        c2.loads(data, fmt, **opts)
    except Exception as err:
        return "load", "%s: %s" % (type(err).__name__, str(err)[:100])
    diffs = diff_config(c1, c2)
    if diffs:
        return "value", diffs[0]
    return "ok", None


def check_state(rec, findings, c1, fresh, case, base, fmtcfgs, sample=False, failed=None, tree_base=None, tops=None):
    """all clauses on one state; one rec.case per (state, format, options); -> set of formats that failed"""
    def report(ob, b, fmt, what, replay):
        findings.add(ob, b, fmt, what, replay)
        if failed is not None:
            failed.add(fmt)

    tree = check_tree_clauses(c1, tree_base or base, dict(case, fmt=None), report)
    case_id = json.dumps(case, sort_keys=True)
    if len(case_id) > 150:
        case_id = case["kind"] + ":" + hashlib.sha1(case_id.encode()).hexdigest()[:16]
    for fmt, opts in fmtcfgs:
        if tree is not None and not in_domain(fmt, tree):
            continue
        if tree is None and fmt not in ("yaml", "pickle"):
            continue  # a tree that is not plain data makes no claim for the text formats (reported above)
        stage, detail = roundtrip(c1, fresh, fmt, opts)
        rec.case(key=(case_id, fmt, json.dumps(opts, sort_keys=True)), nontrivial=True,
                 sample=dict(case, fmt=fmt, opts=opts, outcome=stage) if sample and fmt == sample else None)
        replay = dict(case, fmt=fmt, opts=opts)
        if stage == "dump":
            report(OB_DUMP, base, fmt, "dumps(%r%s) of a valid state failed: %s" % (fmt, opts or "", detail), replay)
        elif stage == "load":
            report(OB_LOAD, base, fmt, "loads(dumps(%r%s)) into a fresh configuration failed: %s" % (fmt, opts or "", detail), replay)
        elif stage == "value":
            top = re.split(r"[.\[]", detail[0])[0]
            where = base if tops is None or top in tops else "%s/other-field:%s" % (base.split("/")[0], top)
            report(OB_VALUE, where, fmt, "%s: saved %s, re-loaded %s (format %s%s)" % (detail + (fmt, opts or "")), replay)


def field_obligation(field):
    mod = type(field).__module__.split(".")[-1]
    prefix = "core" if mod == "core" else "fields." + mod
    return "%s:%s.to_python/post:C02.inverse-of-to_basic" % (prefix, type(field).__name__)


def check_field_inverse(rec, findings, tmp, table, wrap_slot, aname, vlabel):
    """the documented Field contract, on the real field in a real configuration: to_python(to_basic(v)) == v"""
    case = {"kind": "field-inverse", "entries": [[wrap_slot, aname, vlabel]]}
    c1, _fresh, schema, tops = build([(wrap_slot, aname, vlabel)], tmp, table)
    field = schema._fields[tops[0]]
    value = c1._data[tops[0]]
    rec.case(key=("field-inverse", wrap_slot, aname, vlabel), nontrivial=value is not None)
    try:
        back = field.to_python(c1, field.to_basic(c1, value))
    except Exception as err:
        findings.add(field_obligation(field), "%s/%s" % (slot_class(wrap_slot), family(aname)), None,
                     "to_python(to_basic(%s)) raised %s: %s" % (_show(value), type(err).__name__, str(err)[:80]), case)
        return
    diffs = []
    diff_value(field, value, back, tops[0], diffs)
    if diffs:
        findings.add(field_obligation(field), "%s/%s" % (slot_class(wrap_slot), family(aname)), None,
                     "to_python(to_basic(v)) != v at %s: v %s, result %s" % diffs[0], case)


def check_child_parent(rec, findings):
    """Schema.__call__(parent) / ConfigTypeField.__call__(parent): the new sub-config knows its parent"""
    import cincoconfig as cc
    root = cc.Schema()
    root.sub.x = cc.IntField()
    ts = cc.Schema()
    ts.y = cc.IntField()
    root.t = cc.make_type(ts, "T")
    cfg = root()
    for cls, field in (("Schema", root._fields["sub"]), ("ConfigTypeField", root._fields["t"])):
        child = field(cfg)
        rec.case(key=("child-knows-parent", cls), nontrivial=True)
        if child._parent is not cfg:
            findings.add(OB_PARENT % cls, cls + ".__call__", None,
                         "%s.__call__(parent) returned a config whose _parent is %r, not the parent" % (cls, child._parent),
                         {"kind": "child-parent", "cls": cls})


# ---------------------------------------------------------------------------------------------------------------
# Histories: states reached through sequences of public operations
# ---------------------------------------------------------------------------------------------------------------


def history_states(tmp):
    """-> [(name, () -> (c1, fresh))] valid states reached by operation sequences (length 3-4)"""
    import cincoconfig as cc
    from cincoconfig.core import Config
    kf = os.path.join(tmp, "explicit.key")

    def schema():
        s = cc.Schema()
        decorate(s, "root")
        s.name = cc.StringField(default="n")
        s.nums = cc.ListField(cc.IntField())
        s.free = cc.ListField()
        s.lim = cc.DictField(cc.StringField(), cc.IntField())
        s.opts = cc.DictField()
        s.sub.host = cc.HostnameField(default="localhost")
        s.sub.port = cc.PortField(default=80)
        decorate(s.sub, "sub")
        item = cc.Schema()
        item.url = cc.UrlField()
        decorate(item, "item")
        s.hooks = cc.ListField(item)
        s.pw = cc.ChallengeField()
        s.secret = cc.SecureField(method="xor")
        return s, item

    def start():
        s, item = schema()
        return s, item, Config(s, key_filename=kf), (lambda: Config(s, key_filename=kf))

    def list_ops():
        s, item, c, fresh = start()
        c.nums = [1]
        c.nums.append(2)
        c.nums += [3]
        c.nums.insert(0, "0")
        c.free = []
        c.free.append({"a": None})
        return c, fresh

    def dict_ops():
        s, item, c, fresh = start()
        c.lim = {}
        c.lim["a"] = 1
        c.lim.update({"b": 2}, c=3)
        c.opts = {"x": 1}
        c.opts["y"] = [None]
        return c, fresh

    def set_reset_set():
        s, item, c, fresh = start()
        c.name = "first"
        cc.reset_value(c, "name")
        c.sub.port = 8080
        cc.reset_value(c, "sub.port")
        c.pw = "one"
        c.pw = "two"
        c.secret = "s1"
        c.secret = ""
        return c, fresh

    def load_then_modify():
        s, item, c, fresh = start()
        c.load_tree({"name": "loaded", "nums": [1, 2], "sub": {"host": "h.example", "port": 1}, "hooks": [{"url": "http://a/"}],
                     "secret": "plain", "pw": "plain"})
        c.nums.append(3)
        c.hooks.append({"url": "http://b/"})
        c.sub.host = "10.0.0.1"
        return c, fresh

    def assign_dict_to_subschema():
        s, item, c, fresh = start()
        c.sub = {"host": "assigned.example", "port": 2}
        c.hooks = [{"url": "http://a/"}, item(url="http://b/")]
        c.hooks[0].url = "http://c/"
        return c, fresh

    def reload_twice():
        s, item, c, fresh = start()
        c.name = "x"
        c.nums = [1]
        c.secret = "again"
        mid = fresh()
        mid.loads(c.dumps("json"), "json")
        mid.nums.append(2)
        mid.name = "y"
        return mid, fresh

    return [("list-operations", list_ops), ("dict-operations", dict_ops), ("set-reset-set", set_reset_set),
            ("load_tree-then-modify", load_then_modify), ("assign-dict-to-subschema", assign_dict_to_subschema),
            ("reload-modify", reload_twice)]


# ---------------------------------------------------------------------------------------------------------------
# Enumeration
# ---------------------------------------------------------------------------------------------------------------


def single_entries(table):
    """every (slot, atom, value) of the exhaustive part, in a fixed order"""
    for aname, spec in table.items():
        for slot, (_steps, wraps) in SLOTS.items():
            if wraps and aname not in WRAPPABLE:
                continue
            labels = [label for label, _v in spec["values"]]
            if len(SLOTS[slot][0]) + len(wraps) >= 2:
                labels = labels[:3]  # the deepest slots take the first three values of the atom
            for vlabel in labels:
                if wraps and dict(spec["values"])[vlabel] is _KEEP:
                    continue
                yield slot, aname, vlabel


def prepare(tmp):
    with open(os.path.join(tmp, "explicit.key"), "wb") as fp:
        fp.write(KEY_BYTES)
    with open(os.path.join(tmp, ".cincokey"), "wb") as fp:
        fp.write(OTHER_KEY_BYTES)  # fixed default key file: the outcome of the known parentless-child defect is deterministic


def rac(tier: str, seed: int) -> dict:
    rec = Recorder(
        PID,
        rule="one case = (state, format, options) real round trip c2.loads(c1.dumps(fmt, **o), fmt, **o) with c2 a fresh "
             "config of the same schema and key file (+ one per direct to_python(to_basic(v)) evaluation, + 2 direct "
             "__call__(parent) evaluations); states: every (slot, atom, value) single placement x 5 formats, the 6 option "
             "values on the root slots, a default-key-file variant for secrets, 6 operation histories x 11 format/option "
             "values, then seeded composites of 3-6 placements that passed alone; a (state, format) whose serialised tree "
             "is outside the format's stated domain is skipped, not counted.  Witness classes: slot class (innermost "
             "typed container, else the set of container kinds above the field) / atom family (bytes, challenge, secure "
             "merge their variants), suffixed @format unless all five formats fail",
        bound="%d atoms = all persistent built-in field types incl. options/defaults/required (String, LogLevel, "
              "ApplicationMode, Int, Float, Port, Bool, FeatureFlag, Bytes base64+hex, IPv4Address, IPv4Network, Hostname, "
              "Url, Filename(+startdir), Include(unset), List untyped/Any/typed/default, Dict untyped/typed/any-key/"
              "of-lists/int-keys, Challenge sha256/md5/sha512/default, Secure xor/aes/best), 1-12 values each incl. "
              "None/defaults/boundaries (deepest slots: first 3 values); 16 slots up to depth 3 (root, dynamic root + "
              "extra fields, schema, schema.schema, configtype, schema.configtype, configtype.schema, list-of-schema, "
              "list-of-configtype, schema.list-of-schema, list-of-schema.schema, typed-list, typed-dict, "
              "typed-list.typed-list, schema.typed-list, list-of-schema.typed-dict); every schema also declares a "
              "VirtualField and an InstanceMethodField; 5 formats + 6 option values; explicit key file != default key "
              "file, os.urandom replaced by a seeded stream for the duration of the run; composites: quick 40, thorough "
              "until the budget is used" % N_ATOMS,
        tier=tier, seed=seed)
    findings = Findings()
    det = _DetRandom(seed)
    with sandbox() as tmp, mock.patch.object(os, "urandom", det):
        prepare(tmp)
        table = atoms(tmp)
        if len(table) != N_ATOMS:
            raise RuntimeError("driver: bound text says %d atoms, table has %d" % (N_ATOMS, len(table)))
        check_child_parent(rec, findings)
        # the Field contract, directly
        for aname, spec in table.items():
            for wrap_slot in ["root"] + (WRAPPER_SLOTS[:3] if aname in WRAPPABLE else []):
                for vlabel, value in spec["values"]:
                    if value is _KEEP:
                        continue
                    check_field_inverse(rec, findings, tmp, table, wrap_slot, aname, vlabel)
        # single placements, all formats
        passed = []
        samples_at = {("schema.schema", "float", "nan"): "xml", ("typed-list", "bytes-base64", "ff00"): "json",
                      ("list-of-schema", "secure-aes", "secret"): "bson", ("schema", "secure-xor", "secret"): "yaml",
                      ("dynamic-root", "dict-untyped", "nested"): "pickle", ("configtype.schema", "challenge-sha256", "password"): "xml"}
        for slot, aname, vlabel in single_entries(table):
            case = {"kind": "single", "entries": [[slot, aname, vlabel]], "keyfile": "explicit"}
            c1, fresh, _schema, tops = build([(slot, aname, vlabel)], tmp, table)
            failed = set()
            fmtcfgs = [(f, {}) for f in FORMATS] + (OPTION_VALUES if slot in ("root", "dynamic-root") else [])
            check_state(rec, findings, c1, fresh, case, "%s/%s" % (slot_class(slot), family(aname)), fmtcfgs,
                        sample=samples_at.get((slot, aname, vlabel)), failed=failed, tree_base=family(aname), tops=tops)
            if not failed:
                passed.append((slot, aname, vlabel))
            if aname in SECURE and slot in ("root", "schema", "schema.schema", "list-of-schema", "configtype.schema"):
                # same schema, both configurations use the default key file (no key file named anywhere)
                case = dict(case, keyfile="default")
                c1, fresh, _schema, _tops = build([(slot, aname, vlabel)], tmp, table, keyfile="default")
                check_state(rec, findings, c1, fresh, case, "default-keyfile:%s/%s" % (slot_class(slot), family(aname)),
                            [(f, {}) for f in FORMATS], tree_base=family(aname))
        # histories
        for name, make in history_states(tmp):
            try:
                c1, fresh = make()
                c1.validate()
            except Exception as err:
                if name != "reload-modify":
                    raise  # not a clause of C02: a driver bug or an unrelated breakage, let it surface
                findings.add(OB_LOAD, "history:" + name, None, "the intermediate reload of the history failed: %s: %s"
                             % (type(err).__name__, str(err)[:100]), {"kind": "history", "name": name})
                continue
            check_state(rec, findings, c1, fresh, {"kind": "history", "name": name}, "history:" + name,
                        [(f, {}) for f in FORMATS] + OPTION_VALUES, sample="yaml" if name == "load_tree-then-modify" else None)
        # composites of placements that passed alone: interactions between fields / sub-trees
        n = 0
        while passed and (n < 40 if tier == "quick" else not rec.out_of_time()):
            n += 1
            entries = [list(rec.rng.choice(passed)) for _ in range(rec.rng.randint(3, 6))]
            case = {"kind": "composite", "entries": entries, "keyfile": "explicit"}
            c1, fresh, _schema, tops = build([tuple(e) for e in entries], tmp, table)
            local = Findings()
            check_state(rec, local, c1, fresh, case, "composite", [(f, {}) for f in FORMATS] + OPTION_VALUES,
                        sample="json" if n == 1 else None)
            for (ob, _base), per_fmt in local.pending.items():
                for fmt, (what, replay) in per_fmt.items():
                    findings.add(ob, "composite:" + composite_class(what, entries, tops), fmt, what, replay)
        findings.emit(rec)
    return rec.result(exhaustive=False)


def composite_class(what, entries, tops):
    """the (slot/atom) of the entry a composite failure is located in (by its top-level key), else 'whole'"""
    for (slot, aname, _v), top in sorted(zip(entries, tops), key=lambda p: -len(p[1])):
        if what.startswith(top + ".") or what.startswith(top + "[") or what.startswith(top + ":") or (" " + top) in what:
            return "%s/%s" % (slot_class(slot), family(aname))
    return "whole"


def replay(case: dict) -> dict:
    """re-execute one replay dict against the current /repo"""
    findings = Findings()
    rec = Recorder(PID, rule="replay", bound="replay")
    with sandbox() as tmp, mock.patch.object(os, "urandom", _DetRandom(0)):
        prepare(tmp)
        table = atoms(tmp)
        kind = case["kind"]
        if kind == "child-parent":
            check_child_parent(rec, findings)
            findings.pending = {k: v for k, v in findings.pending.items() if k[1].startswith(case["cls"] + ".")}
            expected = "%s.__call__(parent)._parent is parent" % case["cls"]
        elif kind == "field-inverse":
            slot, aname, vlabel = case["entries"][0]
            check_field_inverse(rec, findings, tmp, table, slot, aname, vlabel)
            expected = "field.to_python(cfg, field.to_basic(cfg, v)) == v"
        else:
            if kind == "history":
                try:
                    c1, fresh = dict(history_states(tmp))[case["name"]]()
                except Exception as err:
                    return {"fails": True, "expected": "every step of the history succeeds",
                            "observed": "%s: %s" % (type(err).__name__, str(err)[:100])}
            else:
                c1, fresh, _s, _t = build([tuple(e) for e in case["entries"]], tmp, table, keyfile=case.get("keyfile", "explicit"))
            fmtcfgs = [(case["fmt"], case.get("opts") or {})] if case.get("fmt") else []
            check_state(rec, findings, c1, fresh, {k: v for k, v in case.items() if k not in ("fmt", "opts")}, "replay", fmtcfgs)
            expected = ("plain-data tree without virtual/method keys" if not case.get("fmt")
                        else "the fresh configuration loads the serialised one and every persistent value is equal")
            if case.get("fmt"):
                findings.pending = {k: v for k, v in findings.pending.items() if k[0] in (OB_DUMP, OB_LOAD, OB_VALUE)}
            else:
                findings.pending = {k: v for k, v in findings.pending.items() if k[0] in (OB_PLAIN, OB_NOVIRT, OB_VIRT)}
        observed = [[ob, list(per.values())[0][0]] for (ob, _b), per in findings.pending.items()]
    return {"fails": bool(observed), "expected": expected, "observed": observed or "holds"}


if __name__ == "__main__":
    import sys
    r = rac(sys.argv[1] if len(sys.argv) > 1 else "quick", 0)
    print(json.dumps({k: r[k] for k in r if k != "samples"}, indent=1, default=str))
