"""C01 bounded run-time contract driver.

"Every value a configuration holds satisfies its field's declared constraints."

Schemas are generated from a small JSON grammar over all built-in field classes; operation sequences over every
public mutating route named in the property are run on the REAL library; after every step (accepted or rejected)
every value readable from the configuration is checked against an independent reference predicate written from
the property text and the class docstrings (``conj``: the list of violated constraint names, empty = accepts).
After an accepted assignment the value read back must equal what the setter returned, must equal the independent
normal form ``norm`` and no other field may have changed.

A replay dict is self-contained: {"schema": <schema spec>, "ops": [<op>...], "obligation": ..., "witness_key": ...}.
"""
import argparse
import base64
import copy
import json
import os
import re

from pyvc.raclib import Recorder, sandbox, strict_eq

PID = "C01"
LBL_INV = "C01.held-values-satisfy-constraints"
LBL_VAL = "C01.result-satisfies-constraints"
LBL_READ = "C01.read-equals-validated-result"
LBL_NORM = "C01.reads-normalised-form"
LBL_FRAME = "C01.changes-no-other-field"

STRING_T = ("String", "LogLevel", "AppMode", "IPv4Address", "IPv4Network", "Hostname", "Url", "Filename")
SCALAR_T = STRING_T + ("Int", "Float", "Port", "Bool", "Bytes")
MODULE_OF = {"String": "string_field:StringField", "Int": "number_field:IntField", "Float": "number_field:FloatField",
             "Port": "net_field:PortField", "Bool": "bool_field:BoolField", "Bytes": "bytes_field:BytesField",
             "IPv4Address": "net_field:IPv4AddressField", "IPv4Network": "net_field:IPv4NetworkField",
             "Hostname": "net_field:HostnameField", "Url": "url_field:UrlField", "Filename": "file_field:FilenameField",
             "List": "list_field:ListField", "Dict": "dict_field:DictField",
             "LogLevel": "string_field:LogLevelField", "AppMode": "string_field:ApplicationModeField"}
TRUE_VALUES = ("t", "true", "1", "on", "yes", "y")          # BoolField class documentation
FALSE_VALUES = ("f", "false", "0", "off", "no", "n")


class Unknown(Exception):
    """the reference normal form is not defined for this input (the comparison is skipped, never flagged)"""


class NotApplicable(Exception):
    """the operation cannot be attempted in the current state (e.g. the path does not lead to a list)"""


# --------------------------------------------------------------------------------------------- value coding

def dec(j, env):
    """JSON-coded value -> Python value.  $b bytes, $t tuple, $f float text, $d pairs-dict, $cfg config built by
    constructor keywords, $other value of a second configuration of the same schema, $self value of this one."""
    if isinstance(j, str):
        return j.replace("$TMP", env.tmp) if j.startswith("$TMP") else j
    if isinstance(j, list):
        return [dec(x, env) for x in j]
    if isinstance(j, dict):
        if "$b" in j:
            return bytes.fromhex(j["$b"])
        if "$t" in j:
            return tuple(dec(x, env) for x in j["$t"])
        if "$f" in j:
            return float(j["$f"])
        if "$d" in j:
            return {dec(k, env): dec(v, env) for k, v in j["$d"]}
        if "$cfg" in j:
            return env.types[tuple(j["at"])](**{k: dec(v, env) for k, v in j["$cfg"].items()})
        if "$other" in j:
            return navigate(env.other(), j["$other"])
        if "$self" in j:
            return navigate(env.cfg, j["$self"])
        return {k: dec(v, env) for k, v in j.items()}
    return j


def mk_iterable(kind, items):
    if kind == "list":
        return list(items)
    if kind == "tuple":
        return tuple(items)
    if kind == "iter":
        return iter(list(items))
    if kind == "gen":
        return (x for x in list(items))
    raise ValueError(kind)


# --------------------------------------------------------------------------------------------- schema building

class Env:
    """one case: the schema built from its spec (or, inside rac(), the scenario's schema object, which holds no
    per-configuration state: container defaults are factories), the configuration under test, a second one"""

    def __init__(self, tmp, schema_spec, built=None):
        self.tmp = tmp
        self.spec = schema_spec
        if built is None:
            self.types = {}
            self.schema = build(schema_spec, self, ())
        else:
            self.schema, self.types = built
        self.cfg = None
        self._other = None

    def other(self):
        if self._other is None:
            self._other = self.schema()
        return self._other


def _default(spec, env):
    j = spec.get("default")
    if isinstance(j, list) or (isinstance(j, dict) and not ({"$b", "$f", "$t"} & set(j))):
        return lambda: dec(j, env)          # a fresh container per configuration
    return dec(j, env)


def build(spec, env, path):
    import cincoconfig as cc
    t = spec["t"]
    if t in ("Schema", "ConfigType"):
        schema = cc.Schema(dynamic=bool(spec.get("dynamic")))
        for name, sub in spec["fields"]:
            setattr(schema, name, build(sub, env, path + (name,)))
        if t == "ConfigType":
            typ = cc.make_type(schema, spec.get("name", "Item"))
            env.types[path] = typ
            return typ
        env.types[path] = schema
        return schema
    kw = {k: dec(v, env) for k, v in spec.get("kw", {}).items()}
    if "default" in spec:
        kw["default"] = _default(spec, env)
    if t == "List":
        item = build(spec["item"], env, path) if spec.get("item") else None
        return cc.ListField(item, **kw)
    if t == "Dict":
        key = build(spec["key"], env, path + ("$key",)) if spec.get("key") else None
        val = build(spec["value"], env, path + ("$value",)) if spec.get("value") else None
        return cc.DictField(key, val, **kw)
    cls = {"String": cc.StringField, "Int": cc.IntField, "Float": cc.FloatField, "Port": cc.PortField,
           "Bool": cc.BoolField, "Bytes": cc.BytesField, "IPv4Address": cc.IPv4AddressField,
           "IPv4Network": cc.IPv4NetworkField, "Hostname": cc.HostnameField, "Url": cc.UrlField,
           "Filename": cc.FilenameField, "LogLevel": cc.LogLevelField, "AppMode": cc.ApplicationModeField}[t]
    return cls(**kw)


def prepare_fs(tmp):
    fs = os.path.join(tmp, "fs")
    os.makedirs(os.path.join(fs, "d"), exist_ok=True)
    with open(os.path.join(fs, "a.txt"), "w") as f:
        f.write("x")


def spec_at(spec, path):
    for k in path:
        if spec is None:
            return None
        t = spec["t"]
        if t in ("Schema", "ConfigType") and isinstance(k, str):
            spec = dict(spec["fields"]).get(k)
        elif t == "List" and isinstance(k, int):
            spec = spec.get("item")
        elif t == "Dict":
            spec = spec.get("value")
        else:
            return None
    return spec


def navigate(obj, path):
    from cincoconfig.core import Config
    for k in path:
        if isinstance(obj, Config) and isinstance(k, str):
            obj = getattr(obj, k)
        elif isinstance(obj, (list, tuple)) and isinstance(k, int):
            if not -len(obj) <= k < len(obj):
                raise NotApplicable("no item %r" % (k,))
            obj = obj[k]
        elif isinstance(obj, dict) and k in obj:
            obj = obj[k]
        else:
            raise NotApplicable("cannot follow %r" % (k,))
    return obj


# --------------------------------------------------------------------------------------------- reference predicate

def _ipv4(s):
    m = re.fullmatch(r"([0-9]{1,3})\.([0-9]{1,3})\.([0-9]{1,3})\.([0-9]{1,3})", s)
    if not m:
        return None
    parts = m.groups()
    if any(int(p) > 255 or (len(p) > 1 and p[0] == "0") for p in parts):
        return None
    return sum(int(p) << (24 - 8 * i) for i, p in enumerate(parts))


def _cidr(s):
    addr, sep, pfx = s.partition("/")
    a = _ipv4(addr)
    if a is None or not sep or not re.fullmatch(r"[0-9]{1,2}", pfx) or int(pfx) > 32:
        return None
    n = int(pfx)
    if a & ((1 << (32 - n)) - 1):
        return None
    return a, n


def _string_conj(kw, v, out):
    if kw.get("min_len") is not None and len(v) < kw["min_len"]:
        out.append("min_len")
    if kw.get("max_len") is not None and len(v) > kw["max_len"]:
        out.append("max_len")
    if kw.get("regex") and not re.match(kw["regex"], v):
        out.append("regex")
    if kw.get("choices") and v not in kw["choices"]:
        out.append("choices")
    case = (kw.get("transform_case") or "").lower()
    if case == "upper" and v != v.upper() or case == "lower" and v != v.lower():
        out.append("case")
    strip = kw.get("transform_strip")
    if strip is True and v != v.strip():
        out.append("strip")
    if isinstance(strip, str) and strip and not case and v != v.strip(strip):
        out.append("strip")


def eff_kw(spec):
    """the declared string options of a field; LogLevelField / ApplicationModeField declare `choices` through
    levels= / modes= (documented defaults) and transform to lower case and strip unless told otherwise"""
    kw = dict(spec.get("kw", {}))
    t = spec["t"]
    if t == "LogLevel":
        kw["choices"] = kw.pop("levels", None) or ["debug", "info", "warning", "error", "critical"]
    elif t == "AppMode":
        kw["choices"] = kw.pop("modes", None) or ["development", "production"]
        kw.pop("create_helpers", None)
    if t in ("LogLevel", "AppMode"):
        kw.setdefault("transform_case", "lower")
        kw.setdefault("transform_strip", True)
    return kw


def transform_name(kw):
    """'' or e.g. 'lower', 'upper+strip', 'strip-x': the transforms a string field declares"""
    parts = [kw["transform_case"].lower()] if kw.get("transform_case") else []
    strip = kw.get("transform_strip")
    if strip:
        parts.append("strip" if strip is True else "strip-" + strip)
    return "+".join(parts)


def conj(spec, v, env):
    """names of the declared constraints of a scalar field that the (non-None) value violates"""
    t, kw, out = spec["t"], spec.get("kw", {}), []
    if t in STRING_T:
        kw = eff_kw(spec)
        if not isinstance(v, str):
            return ["type"]
        _string_conj(kw, v, out)
        if t == "IPv4Address" and _ipv4(v) is None:
            out.append("syntax")
        elif t == "IPv4Network":
            net = _cidr(v)
            if net is None:
                out.append("syntax")
            else:
                lo, hi = kw.get("min_prefix_len"), kw.get("max_prefix_len")
                if lo is not None and net[1] < lo:
                    out.append("min_prefix_len=0" if lo == 0 else "min_prefix_len")
                if hi is not None and net[1] > hi:
                    out.append("max_prefix_len=0" if hi == 0 else "max_prefix_len")
        elif t == "Hostname":
            def host_ok(s):
                if _ipv4(s) is not None:
                    return kw.get("allow_ipv4", True)
                return bool(re.fullmatch(r"[A-Za-z0-9][A-Za-z0-9.\-]+", s)
                            or re.fullmatch(r"[\w!@#$%^()\-'{}.~]{1,15}", s))
            if not host_ok(v):
                out.append("syntax:trailing-newline" if v.endswith("\n") and host_ok(v[:-1]) else "syntax")
        elif t == "Url":
            if not re.match(r"[A-Za-z][A-Za-z0-9+.\-]*:", v.strip()):
                out.append("syntax")
        elif t == "Filename" and v:
            startdir = dec(kw.get("startdir"), env) if kw.get("startdir") else None
            if startdir and not os.path.isabs(v):
                out.append("absolute")
            ex = kw.get("exists")
            if ex is True and not os.path.exists(v) or ex is False and os.path.exists(v) \
                    or ex == "file" and not os.path.isfile(v) or ex == "dir" and not os.path.isdir(v):
                out.append("exists")
        return out
    if t in ("Int", "Port", "Float"):
        if t == "Float":
            if type(v) is not float:
                return ["type"]
        elif type(v) is not int:
            return ["type"]
        lo, hi = kw.get("min"), kw.get("max")
        if t == "Port":
            lo, hi = (1 if lo is None else lo), (65535 if hi is None else hi)
        if v != v:
            return ["nan"] if (lo is not None or hi is not None) else []
        if lo is not None and v < lo:
            out.append("min")
        if hi is not None and v > hi:
            out.append("max")
        return out
    if t == "Bool":
        return [] if type(v) is bool else ["type"]
    if t == "Bytes":
        return [] if type(v) is bytes else ["type"]
    raise ValueError(t)


def check_value(spec, v, path, role, out, env, plain=False):
    """append (path, role, leaf spec, violated names, value) for every readable value that breaks its field"""
    from cincoconfig.core import Config
    if v is None or spec is None:
        return
    t = spec["t"]
    if t in ("Schema", "ConfigType"):
        if plain:
            if not isinstance(v, dict):
                out.append((path, role, spec, ["type"], v))
                return
            items = v
        else:
            if not isinstance(v, Config):
                out.append((path, role, spec, ["type"], v))
                return
            try:
                items = dict(iter(v))
            except Exception:                               # fall back to reading the declared fields one by one
                items = {}
        for name, sub in spec["fields"]:
            if plain:
                x = items.get(name)
            else:
                x = items[name] if name in items else getattr(v, name)
            check_value(sub, x, path + [name], "field", out, env, plain)
        return
    if t == "List":
        typed = spec.get("item") is not None
        if not isinstance(v, list if typed else (list, tuple)):
            out.append((path, role, spec, ["type"], v))
            return
        if typed:
            for i, x in enumerate(v):
                check_value(spec["item"], x, path + [i], "list-item", out, env, plain)
        return
    if t == "Dict":
        if not isinstance(v, dict):
            out.append((path, role, spec, ["type"], v))
            return
        for k, x in v.items():
            check_value(spec.get("key"), k, path + [k], "dict-key", out, env, plain)
            check_value(spec.get("value"), x, path + [k], "dict-value", out, env, plain)
        return
    bad = conj(spec, v, env)
    if bad:
        out.append((path, role, spec, bad, v))


def check_config(env, plain=False):
    out = []
    if plain:
        from cincoconfig import asdict
        check_value(env.spec, asdict(env.cfg), [], "field", out, env, plain=True)
    else:
        check_value(env.spec, env.cfg, [], "field", out, env)
    return out


# --------------------------------------------------------------------------------------------- reference normal form

def _default_dump(spec, env):
    if spec["t"] in ("Schema", "ConfigType"):
        return {"$cfg": {n: _default_dump(s, env) for n, s in spec["fields"]}}
    if "default" not in spec:
        return None
    return norm(spec, dec(spec["default"], env), env)


def norm(spec, raw, env, tree=False):
    """the field's normalised form of an acceptable raw value, as a plain dump (see ``dump``); ``tree``: the raw
    value arrives through load_tree (basic form).  Raises Unknown where the documentation does not determine it."""
    from cincoconfig.core import Config
    if raw is None or spec is None:
        return dump(raw)
    t, kw = spec["t"], spec.get("kw", {})
    if t in ("Schema", "ConfigType"):
        if isinstance(raw, Config):
            return dump(raw)
        if not isinstance(raw, dict) or spec.get("dynamic") or set(raw) - {n for n, _ in spec["fields"]}:
            raise Unknown()
        return {"$cfg": {n: norm(s, raw[n], env, True) if n in raw else _default_dump(s, env)
                         for n, s in spec["fields"]}}
    if t == "List":
        if not isinstance(raw, (list, tuple)):
            raise Unknown()
        if spec.get("item") is None:
            return dump(raw)
        if tree and _has_bytes(spec):
            raise Unknown()
        return [norm(spec["item"], x, env) if spec["item"]["t"] not in ("Schema", "ConfigType")
                else norm(spec["item"], x, env, True) for x in raw]
    if t == "Dict":
        if not isinstance(raw, dict):
            raise Unknown()
        if spec.get("key") is None and spec.get("value") is None:
            return dump(raw)
        if tree and _has_bytes(spec):
            raise Unknown()
        return {_hashable(norm(spec.get("key"), k, env)): norm(spec.get("value"), x, env) for k, x in raw.items()}
    if t in STRING_T:
        kw = eff_kw(spec)
        if type(raw) is not str:
            raise Unknown()
        v = raw
        strip = kw.get("transform_strip")
        if strip:
            v = v.strip(strip) if isinstance(strip, str) else v.strip()
        case = (kw.get("transform_case") or "").lower()
        v = v.upper() if case == "upper" else v.lower() if case == "lower" else v
        if t == "IPv4Network":
            addr, sep, pfx = v.partition("/")
            if _ipv4(addr) is None or (sep and not re.fullmatch(r"[1-9]?[0-9]", pfx)):
                raise Unknown()
            v = "%s/%s" % (addr, pfx if sep else "32")
        elif t == "Filename" and v and kw.get("startdir") and not os.path.isabs(v):
            if v.startswith("~"):
                raise Unknown()
            v = os.path.abspath(os.path.join(dec(kw["startdir"], env), v))
        return v
    if t in ("Int", "Port", "Float"):
        if isinstance(raw, bool) or not isinstance(raw, (int, float, str)):
            raise Unknown()
        try:
            return (float if t == "Float" else int)(raw)
        except (ValueError, OverflowError):
            raise Unknown()
    if t == "Bool":
        if isinstance(raw, (bool, int, float)):
            return bool(raw)
        if isinstance(raw, str) and raw.lower() in TRUE_VALUES + FALSE_VALUES:
            return raw.lower() in TRUE_VALUES
        raise Unknown()
    if t == "Bytes":
        if tree:
            if not isinstance(raw, str):
                raise Unknown()
            try:
                return bytes.fromhex(raw) if kw.get("encoding") == "hex" else base64.b64decode(raw, validate=True)
            except ValueError:
                raise Unknown()
        if isinstance(raw, str):
            return raw.encode()
        if type(raw) is bytes:
            return raw
        raise Unknown()
    raise ValueError(t)


def _has_bytes(spec):
    if spec is None:
        return False
    if spec["t"] == "Bytes":
        return True
    return any(_has_bytes(spec.get(k)) for k in ("item", "key", "value")) or \
        any(_has_bytes(s) for _, s in spec.get("fields", []))


def _hashable(v):
    if isinstance(v, (list, dict)):
        raise Unknown()
    return v


def dump(v):
    """plain, type-preserving image of a value (configs become {'$cfg': {...}})"""
    from cincoconfig.core import Config
    if isinstance(v, Config):
        return {"$cfg": {k: dump(x) for k, x in iter(v)}}
    if isinstance(v, list):
        return [dump(x) for x in v]
    if isinstance(v, tuple):
        return tuple(dump(x) for x in v)
    if isinstance(v, dict):
        return {k: dump(x) for k, x in v.items()}
    return v


def flat_fields(d, prefix=()):
    """{path: dump} at field granularity (descends through configurations only)"""
    out = {}
    for k, x in d["$cfg"].items():
        if isinstance(x, dict) and set(x) == {"$cfg"}:
            out[prefix + (k,)] = "$cfg"
            out.update(flat_fields(x, prefix + (k,)))
        else:
            out[prefix + (k,)] = x
    return out


def short(v):
    r = repr(v)
    return r if len(r) <= 60 else r[:57] + "..."


# --------------------------------------------------------------------------------------------- operations

def nest(path, v):
    for k in reversed(path):
        v = {k: v}
    return v


def carrier(op):
    r = op["r"]
    if r == "lop":
        m = {"iadd": "__iadd__", "setidx": "__setitem__", "setslice": "__setitem__", "imul": "__imul__",
             "delidx": "__delitem__"}.get(op["m"], op["m"])
        return "fields.list_field:ListProxy." + m
    if r == "dop":
        m = {"setitem": "__setitem__", "update_dict": "update", "update_pairs": "update", "update_kw": "update",
             "ior_dict": "__ior__", "ior_pairs": "__ior__", "delitem": "__delitem__"}.get(op["m"], op["m"])
        return "fields.dict_field:DictProxy." + m
    return {"new": "core:Config.__init__", "ctor": "core:Config.__init__", "attr": "core:Config.__setattr__",
            "item": "core:Config.__setitem__", "tree": "core:Config.load_tree", "loads": "core:Config.loads",
            "cmdline": "support:cmdline_args_override", "argv": "support:cmdline_args_override",
            "reset": "support:reset_value"}[r]


def apply_op(env, op):
    """run one operation on env.cfg; returns (status, assigned path or None, raw value, returned value)"""
    import cincoconfig as cc
    from cincoconfig.core import Config
    r, cfg = op["r"], env.cfg
    path = op.get("p", [])
    try:
        if r == "ctor":
            raw = dec(op["v"], env)
            env.cfg = env.schema(**{path[0]: nest(path[1:], raw)})
            return "accepted", path[:1], nest(path[1:], raw), None
        if r == "attr":
            parent = navigate(cfg, path[:-1])
            if not isinstance(parent, Config):
                raise NotApplicable("parent is not a configuration")
            raw = dec(op["v"], env)
            return "accepted", path, raw, parent.__setattr__(path[-1], raw)
        if r == "item":
            raw = dec(op["v"], env)
            return "accepted", path, raw, cfg.__setitem__(".".join(path), raw)
        if r == "tree":
            cfg.load_tree(nest(path, dec(op["v"], env)))
            return "accepted", None, None, None
        if r == "loads":
            cfg.loads(json.dumps(nest(path, dec(op["v"], env))), "json")
            return "accepted", None, None, None
        if r == "cmdline":
            raw = dec(op["v"], env)
            cc.cmdline_args_override(cfg, argparse.Namespace(**{".".join(path): raw}))
            return "accepted", None, None, None
        if r == "argv":
            args = cc.generate_argparse_parser(env.schema).parse_args(op["argv"])
            cc.cmdline_args_override(cfg, args)
            return "accepted", None, None, None
        if r == "reset":
            cc.reset_value(cfg, ".".join(path))
            return "accepted", None, None, None
        if r == "lop":
            obj = navigate(cfg, path)
            if not isinstance(obj, list):
                raise NotApplicable("not a list")
            m = op["m"]
            a = dec(op.get("a"), env)
            is_ref = isinstance(op.get("a"), dict) and ("$self" in op["a"] or "$other" in op["a"])
            it = a if is_ref or "kind" not in op else mk_iterable(op["kind"], a)   # a reference is passed as is
            if m == "append":
                obj.append(a)
            elif m == "insert":
                obj.insert(op["i"], a)
            elif m == "extend":
                obj.extend(it)
            elif m == "iadd":
                obj.__iadd__(it)
            elif m == "setidx":
                obj[op["i"]] = a
            elif m == "setslice":
                obj[slice(*op["s"])] = it
            elif m == "imul":
                obj.__imul__(op["n"])
            elif m == "delidx":
                del obj[op["i"]]
            elif m in ("pop", "clear", "reverse"):
                getattr(obj, m)()
            else:
                raise ValueError(m)
            return "accepted", None, None, None
        if r == "dop":
            obj = navigate(cfg, path)
            if not isinstance(obj, dict):
                raise NotApplicable("not a dict")
            m = op["m"]
            a = dec(op.get("a"), env)
            if m == "setitem":
                obj[a[0]] = a[1]
            elif m == "update_dict":
                obj.update(a)
            elif m == "update_pairs":
                obj.update(mk_iterable(op["kind"], [tuple(x) for x in a]))
            elif m == "update_kw":
                obj.update(**a)
            elif m == "setdefault":
                obj.setdefault(a[0], a[1])
            elif m == "ior_dict":
                obj.__ior__(a)
            elif m == "ior_pairs":
                obj.__ior__(mk_iterable(op["kind"], [tuple(x) for x in a]))
            elif m == "pop":
                obj.pop(a)
            elif m == "delitem":
                del obj[a]
            elif m == "clear":
                obj.clear()
            else:
                raise ValueError(m)
            return "accepted", None, None, None
        raise ValueError(r)
    except NotApplicable:
        return "n/a", None, None, None
    except (AssertionError, SystemExit):
        raise
    except Exception:                                       # the library rejected the operation
        return "rejected", None, None, None


# --------------------------------------------------------------------------------------------- attribution

_PRODUCED = {}


def _scalars(j, out):
    if isinstance(j, list):
        for x in j:
            _scalars(x, out)
    elif isinstance(j, dict) and not ({"$b", "$f"} & set(j)):
        for k, x in j.items():
            if k == "$d":
                _scalars([y for pair in x for y in pair], out)
            elif k not in ("at", "$other", "$self"):
                _scalars(x, out)
    else:
        out.append(j)
        if isinstance(j, (int, float)) and not isinstance(j, bool):
            out.append(str(j))
    return out


def validator_produces(spec, bad, env, op):
    """does the field's own validation chain, fed a pool value or a scalar occurring in the operation, return
    exactly `bad`?  -> (coded input, input), else None.  Decides whether the validator or the route is blamed."""
    key = env.tmp + "|" + json.dumps(spec, sort_keys=True)
    e2, c, field, outs = _PRODUCED.get(key) or (None, None, None, None)
    if e2 is None:
        e2 = Env(env.tmp, {"t": "Schema", "fields": [["f", spec]]})
        c, field, outs = e2.schema(), getattr(e2.schema, "f"), {}
        _PRODUCED[key] = (e2, c, field, outs)
    cands = leaf_pool(spec) + _scalars([op.get("v"), op.get("a"), op.get("argv")], [])
    for j in cands:
        k = json.dumps(j, sort_keys=True)
        if k not in outs:
            try:
                raw = dec(j, e2)
                outs[k] = (raw, field.validate(c, raw))
            except Exception:
                outs[k] = None
        if outs[k] is not None and strict_eq(outs[k][1], bad):
            return j, outs[k][0]
    return None


INHERITED = ("min_len", "max_len", "regex", "choices", "case", "strip")


def judge_invariant(env, op, status, found):
    """turn the first broken value into (obligation, witness_key, what, minimal replay or None)"""
    path, role, spec, bad, v = found[0]
    t = spec["t"]
    if t in SCALAR_T:
        src = validator_produces(spec, v, env, op)
        if src is not None:
            j, raw = src
            names = "+".join(bad)
            canonical = all(b in INHERITED for b in bad) and type(raw) is type(v) and not strict_eq(raw, v) \
                and not any(b in conj(spec, raw, env) for b in bad)
            wk = "%s:%s%s" % (t, names, ":canonical-form" if canonical else "")
            if "choices" in bad and t in STRING_T and transform_name(eff_kw(spec)):
                # the stored (transformed) value is not one of the choices as they are declared
                wk = "choices+transform:%s/%s" % (t, transform_name(eff_kw(spec)))
            ob = "fields.%s._validate/post:%s" % (MODULE_OF[t], LBL_VAL)
            what = "%sField(%s) validates %s to %s, which violates its declared %s" % (
                t, json.dumps(spec.get("kw", {})), short(raw), short(v), names)
            mini = {"schema": {"t": "Schema", "fields": [["f", spec]]}, "ops": [{"r": "attr", "p": ["f"], "v": j}]}
            return ob, wk, what, mini
    ob = "%s/%s:%s" % (carrier(op), "post" if status == "accepted" else "raise", LBL_INV)
    wk = {"lop": "stores-unvalidated-item", "dop": "stores-unvalidated-entry"}.get(op["r"], "stores-unvalidated-value")
    what = "after %s (%s) the value at %s (%s) is %s, violating %s of %s(%s)" % (
        json.dumps(op), status, ".".join(map(str, path)), role, short(v), "+".join(bad), t,
        json.dumps(spec.get("kw", {})))
    return ob, wk, what, None


# --------------------------------------------------------------------------------------------- one sequence

def run_sequence(schema_spec, ops, tmp, built=None):
    """execute one case on the real library -> (failures, statuses); a failure is a dict with obligation,
    witness_key, what, step and optionally a smaller replay.  Stops at the first failing step."""
    env = Env(tmp, schema_spec, built)
    statuses = []
    start = 0
    first = {"r": "new"}
    if ops and ops[0]["r"] == "ctor":
        first = ops[0]
        status = apply_op(env, first)
        start = 1
        statuses.append(status[0])
        if status[0] != "accepted":
            env.cfg = env.schema()
        fails = _after_step(env, first, status, None)
    else:
        env.cfg = env.schema()
        fails = _after_step(env, first, ("accepted", None, None, None), None)
    if fails:
        return _stamp(fails, 0), statuses
    for n, op in enumerate(ops[start:], start):
        before = dump(env.cfg) if op["r"] in ("attr", "item") else None
        status = apply_op(env, op)
        statuses.append(status[0])
        fails = _after_step(env, op, status, before)
        if fails:
            return _stamp(fails, n), statuses
    found = check_config(env, plain=True)                   # the asdict() view at the end of the history
    if found:
        ob, wk, what, mini = judge_invariant(env, ops[-1] if ops else first, "accepted", found)
        return _stamp([{"obligation": ob.replace(LBL_INV, LBL_INV + "-asdict"), "witness_key": wk, "what": what,
                        "mini": None}], len(ops)), statuses
    return [], statuses


def _stamp(fails, n):
    for f in fails:
        f["step"] = n
    return fails


CLAUSES = {"invariant": 0, "read-equals-returned": 0, "normalised-form": 0, "normalised-form-undetermined": 0,
           "no-other-field": 0}


def _after_step(env, op, status, before):
    fails = []
    st, path, raw, ret = status
    CLAUSES["invariant"] += 1
    found = check_config(env)
    if found:
        ob, wk, what, mini = judge_invariant(env, op, st, found)
        fails.append({"obligation": ob, "witness_key": wk, "what": what, "mini": mini})
        return fails
    if st != "accepted" or path is None:
        return fails
    # --- accepted assignment: read == returned == reference normal form; nothing else changed
    spec = spec_at(env.spec, path)
    read = navigate(env.cfg, path)
    car = carrier(op)
    tname = spec["t"] if spec else "Any"
    CLAUSES["read-equals-returned"] += op["r"] != "ctor"
    if op["r"] != "ctor" and not (read is ret or strict_eq(dump(read), dump(ret))):
        fails.append({"obligation": "%s/post:%s" % (car, LBL_READ), "witness_key": tname, "mini": None,
                      "what": "%s returned %s but the field reads %s" % (json.dumps(op), short(ret), short(read))})
    try:
        want = norm(spec, raw, env, tree=False)
    except Unknown:
        want = Unknown
    CLAUSES["normalised-form" if want is not Unknown else "normalised-form-undetermined"] += 1
    CLAUSES["no-other-field"] += 1
    if want is not Unknown and not strict_eq(dump(read), want):
        fails.append({"obligation": "%s/post:%s" % (car, LBL_NORM), "witness_key": tname, "mini": None,
                      "what": "%s: field reads %s, the normalised form of the assigned value is %s" % (
                          json.dumps(op), short(dump(read)), short(want))})
    base = flat_fields(before if before is not None else dump(env.schema()))
    now = flat_fields(dump(env.cfg))
    tp = tuple(path)
    changed = [k for k in sorted(set(base) | set(now), key=repr)
               if k[:len(tp)] != tp and tp[:len(k)] != k
               and not (k in base and k in now and strict_eq(base[k], now[k]))]
    if changed:
        fails.append({"obligation": "%s/post:%s" % (car, LBL_FRAME), "witness_key": tname, "mini": None,
                      "what": "%s also changed %s" % (json.dumps(op), [".".join(k) for k in changed])})
    return fails


# --------------------------------------------------------------------------------------------- value pools

def _transformed(kw, v):
    strip = kw.get("transform_strip")
    if strip:
        v = v.strip(strip) if isinstance(strip, str) else v.strip()
    case = (kw.get("transform_case") or "").lower()
    return v.upper() if case == "upper" else v.lower() if case == "lower" else v


def _uniq(xs):
    out, seen = [], set()
    for x in xs:
        k = json.dumps(x, sort_keys=True)
        if k not in seen:
            seen.add(k)
            out.append(x)
    return out


NAN, INF = {"$f": "nan"}, {"$f": "inf"}


_POOLS = {}


def leaf_pool(spec):
    k = json.dumps(spec, sort_keys=True)
    if k not in _POOLS:
        _POOLS[k] = _leaf_pool(spec)
    return list(_POOLS[k])


def _leaf_pool(spec):
    """JSON-coded raw values for a scalar field; the first five are the core: valid (not the default), just
    outside a bound / malformed, wrongly typed, None, valid needing normalisation; then boundaries and more."""
    t, kw = spec["t"], spec.get("kw", {})
    if t in ("String", "LogLevel", "AppMode"):
        kw = eff_kw(spec)
        lo, hi = kw.get("min_len"), kw.get("max_len")
        up = (kw.get("transform_case") or "") == "upper"
        strip = kw.get("transform_strip")
        if kw.get("choices") and (kw.get("transform_case") or strip):
            # case / space variants of every choice and of non-choices
            ch = kw["choices"]
            pad = strip if isinstance(strip, str) else " "
            fixed = [c for c in ch if _transformed(kw, c) == c]
            core = [(fixed or ch)[-1], "zz", 5, None, pad + ch[0].swapcase() + pad]
            more = []
            for c in ch + ["zz"]:
                more += [c, c.lower(), c.upper(), c.title(), c.swapcase(), pad + c + pad, " " + c, c.strip() + "\n",
                         c.strip()]
            return _uniq(core + more + ["", True, ["a"]])
        if kw.get("choices"):
            core = [kw["choices"][-1], "zz", 5, None, " %s " % kw["choices"][0]]
        else:
            n = hi if hi is not None else (lo if lo is not None else 2)
            core = ["b" * max(n, 0), "b" * (hi + 1) if hi is not None else ("b" * (lo - 1) if lo else "B1!"),
                    5, None, " aB "]
        more = ["a" * k for k in (lo - 1 if lo else None, lo, hi, hi + 1 if hi is not None else None)
                if k is not None and k >= 0]
        more += ["", "abc", "ABC", "xabx", "Xabc", "ab\n", "AB" if up else "ab", True, 1.5, {"$b": "6162"}, ["a"],
                 {"a": 1}]
        return _uniq(core + more)
    if t in ("Int", "Port"):
        lo, hi = kw.get("min"), kw.get("max")
        if t == "Port":
            lo, hi = (1 if lo is None else lo), (65535 if hi is None else hi)
        ok = lo + 1 if lo is not None and (hi is None or lo + 1 <= hi) else (lo if lo is not None else
                                                                            (hi - 1 if hi is not None else 3))
        out_ = hi + 1 if hi is not None else (lo - 1 if lo is not None else "x")
        core = [ok, out_, "x", None, str(ok)]
        more = [k for k in (lo - 1 if lo is not None else None, lo, hi, hi + 1 if hi is not None else None)
                if k is not None]
        more += [0, -1, 3, " 2 ", "", 2.0, 2.7, NAN, INF, True, [1], {"$b": "31"}, 10 ** 20, "1e3"]
        return _uniq(core + more)
    if t == "Float":
        lo, hi = kw.get("min"), kw.get("max")
        ok = (lo + hi) / 2 if lo is not None and hi is not None else (lo + 1 if lo is not None else
                                                                      (hi - 1 if hi is not None else 1.5))
        out_ = hi + 0.5 if hi is not None else (lo - 0.5 if lo is not None else "x")
        core = [float(ok), out_, "x", None, str(float(ok))]
        more = [k for k in (lo - 1e-9 if lo is not None else None, lo, hi, hi + 1e-9 if hi is not None else None)
                if k is not None]
        more += [NAN, "nan", INF, {"$f": "-inf"}, 0, 1, 0.0, -0.0, True, [1.0], "", "1e2"]
        return _uniq(core + more)
    if t == "Bool":
        return _uniq([False, "maybe", [], None, "YES", True, 0, 1, 2, 0.0, 0.5, "no", "t", "off", "", "True",
                      {"$b": "31"}, {}])
    if t == "Bytes":
        return _uniq([{"$b": "6162"}, 5, [1], None, "text", {"$b": ""}, {"$b": "ff00"}, "", "YWI=", 1.5, True])
    if t == "IPv4Address":
        return _uniq(["10.0.0.1", "256.1.1.1", 5, None, "1.2.3.4", "255.255.255.255", "0.0.0.0", "1.2.3",
                      "1.2.3.4/8", "01.2.3.4", "host", " 1.2.3.4", "1.2.3.4\n", "", 16909060,
                      {"$b": "01020304"}, "192.168.100.200"])
    if t == "IPv4Network":
        return _uniq(["10.0.0.0/16", "10.0.0.0/33", 5, None, "1.2.3.4", "10.0.0.0/8", "10.0.0.0/24", "10.0.0.0/7",
                      "10.0.0.0/25", "10.0.0.0/23", "0.0.0.0/0", "1.2.3.4/32", "10.0.0.1/8", "10.0.0.0/255.0.0.0",
                      "192.168.100.0/24", "x", "", "10.0.0.0/8\n", ["10.0.0.0/8"]])
    if t == "Hostname":
        return _uniq(["example.com", "host name", 5, None, "1.2.3.4", "localhost", "a", "ab", "-bad", "host\n",
                      "h_1", "1.2.3", "a" * 16 + "!", "under_score.example.com", "", "h\tx", ["h"],
                      # names at the length boundary of each syntax class (NetBIOS-only characters: 1, 15 and 16 long)
                      "_", "a_" * 7 + "a", "a_" * 8])
    if t == "Url":
        return _uniq(["https://example.com/a?b=c", "example.com", 5, None, "HTTP://x", "http://x", "ftp://h",
                      "mailto:a", "//x", "1a:b", "", "http:", ["http://x"]])
    if t == "Filename":
        return _uniq(["a.txt", "missing", 5, None, "d", "$TMP/fs/a.txt", "$TMP/fs/d", "$TMP/fs/nope", "abc", "",
                      "d/../a.txt", ["a.txt"]])
    raise ValueError(t)


def container_values(spec):
    """whole-field values for a List/Dict spec (JSON-coded), core first"""
    t = spec["t"]
    if t == "List":
        it = spec.get("item")
        if it is None:
            return [[1, "a"], "notalist", {"a": 1}, None, {"$t": [1, 2]}, [], [None], 5]
        if it["t"] in ("Schema", "ConfigType"):
            good, bad = item_dicts(it)
            vals = [[good[0]], [good[0], bad[0]], "notalist", None, {"$t": [good[-1]]}, [], [5], [bad[-1]]]
            if "_at" in spec:
                vals += [[{"$cfg": good[0], "at": spec["_at"]}], {"$other": spec["_at"]}]
            return _uniq(vals)
        pool = item_pool(it)
        v1, bad1, wrong, _, v2 = pool[:5]
        vals = [[v1, v2], [v1, bad1], "notalist", None, {"$t": [v2]}, [], [wrong], [None], {"a": 1}, [bad1]]
        if "_at" in spec:
            vals.append({"$other": spec["_at"]})
        if "_lax" in spec:
            vals.append({"$self": spec["_lax"]})
        return _uniq(vals)
    if t == "Dict":
        kspec, vspec = spec.get("key"), spec.get("value")
        if kspec is None and vspec is None:
            return [{"a": 1}, "notadict", [["a", 1]], None, {}, {"$d": [[1, 2]]}, 5]
        ks = item_pool(kspec) if kspec else ["k", "k2", "k3", None, "k5"]
        vs = item_pool(vspec) if vspec else [1, "v", [2], None, 1.5]
        k1, kbad, kwrong, _, k2 = ks[:5]
        v1, vbad, vwrong, _, v2 = vs[:5]
        vals = [{"$d": [[k1, v1], [k2, v2]]}, {"$d": [[k1, vbad]]}, "notadict", None, {"$d": [[k2, v2]]}, {},
                [[k1, v1]], {"$d": [[k1, None]]}]
        if "_at" in spec:
            vals.append({"$other": spec["_at"]})
        if kspec:
            vals += [{"$d": [[kbad, v1]]}, {"$d": [[kwrong, v1]]}]
        if vspec:
            vals += [{"$d": [[k1, vwrong]]}]
        if "_lax" in spec:
            vals.append({"$self": spec["_lax"]})
        return _uniq(vals)
    raise ValueError(t)


def item_pool(spec):
    """raw values for one item/key/value of the given spec (core five first)"""
    if spec["t"] in SCALAR_T:
        return leaf_pool(spec)
    return container_values(spec)


def item_dicts(spec):
    """(acceptable, unacceptable) dict values for a Schema/ConfigType spec"""
    good, bad = [{}], []
    for name, sub in spec["fields"]:
        if sub["t"] in SCALAR_T:
            p = leaf_pool(sub)
            good += [{name: p[0]}, {name: p[4]}]
            bad += [{name: p[1]}, {name: p[2]}]
    return good, bad or [{"nosuchkey": 1}]


def hashable_json(j):
    return not isinstance(j, (list, dict)) or (isinstance(j, dict) and ("$b" in j or "$f" in j or "$t" in j))


def jsonable(j):
    """can the coded value be written as a JSON document (for the loads route)?"""
    if isinstance(j, list):
        return all(jsonable(x) for x in j)
    if isinstance(j, dict):
        if "$f" in j:
            return True
        if "$t" in j:
            return all(jsonable(x) for x in j["$t"])
        if "$d" in j:
            return all(isinstance(k, str) and jsonable(v) for k, v in j["$d"])
        if any(k.startswith("$") for k in j):
            return False
        return all(jsonable(v) for v in j.values())
    return True


# --------------------------------------------------------------------------------------------- op pools

def scalar_ops(path, spec, routes, values, with_reset=True, argv=False):
    ops = []
    for v in values:
        for r in routes:
            if r == "loads" and not jsonable(v):
                continue
            ops.append({"r": r, "p": path, "v": v})
    if argv and spec["t"] in STRING_T + ("Int", "Float", "Port"):
        opt = "--" + "-".join(path).replace("_", "-")
        for v in values:
            if isinstance(v, (str, int, float)) and not isinstance(v, bool) and str(v) and str(v)[0] not in "-$ " \
                    and "\n" not in str(v):
                ops.append({"r": "argv", "argv": [opt, str(v)]})
    if argv and spec["t"] == "Bool":
        opt = "-".join(path).replace("_", "-")
        ops += [{"r": "argv", "argv": ["--" + opt]}, {"r": "argv", "argv": ["--no-" + opt]}]
    if with_reset:
        ops.append({"r": "reset", "p": path})
    return ops


def list_inplace_ops(path, spec, level):
    """in-place operations on the list at `path`; level 0 = all, 1 = mid, 2 = small"""
    it = spec.get("item")
    if it is None:
        vals = [1, "a", None, [1], {"a": 1}]
    elif it["t"] in ("Schema", "ConfigType"):
        good, bad = item_dicts(it)
        vals = [good[1] if len(good) > 1 else good[0], bad[0], 5, None, good[-1],
                {"$cfg": good[1] if len(good) > 1 else good[0], "at": spec["_at"]},
                {"$cfg": bad[0], "at": spec["_at"]}]
    else:
        vals = item_pool(it)[:5]
    v1, bad1 = vals[0], vals[1]
    if level == 2:
        return [{"r": "lop", "p": path, "m": "append", "a": v1}, {"r": "lop", "p": path, "m": "append", "a": bad1},
                {"r": "lop", "p": path, "m": "setslice", "s": [0, 1], "kind": "iter", "a": [bad1]},
                {"r": "lop", "p": path, "m": "iadd", "kind": "gen", "a": [v1, bad1]},
                {"r": "lop", "p": path, "m": "pop"}]
    ops = []
    use = vals if level == 0 else vals[:3]
    for v in use:
        ops.append({"r": "lop", "p": path, "m": "append", "a": v})
        ops.append({"r": "lop", "p": path, "m": "setidx", "i": 0, "a": v})
        if level == 0:
            ops.append({"r": "lop", "p": path, "m": "insert", "i": 0, "a": v})
            ops.append({"r": "lop", "p": path, "m": "insert", "i": 5, "a": v})
            ops.append({"r": "lop", "p": path, "m": "setidx", "i": -1, "a": v})
    kinds = ["list", "tuple", "iter", "gen"] if level == 0 else ["list", "gen"]
    groups = [[v1, vals[4]], [v1, bad1], [bad1]] if level == 0 else [[v1, bad1]]
    for kind in kinds:
        for g in groups:
            ops.append({"r": "lop", "p": path, "m": "extend", "kind": kind, "a": g})
            ops.append({"r": "lop", "p": path, "m": "iadd", "kind": kind, "a": g})
            ops.append({"r": "lop", "p": path, "m": "setslice", "s": [0, 1], "kind": kind, "a": g})
            if level == 0:
                ops.append({"r": "lop", "p": path, "m": "setslice", "s": [None, None], "kind": kind, "a": g})
                ops.append({"r": "lop", "p": path, "m": "setslice", "s": [None, None, 2], "kind": kind, "a": g[:1]})
    if "_lax" in spec:
        for m in ("extend", "iadd"):
            ops.append({"r": "lop", "p": path, "m": m, "kind": "list", "a": {"$self": spec["_lax"]}})
        ops.append({"r": "lop", "p": path, "m": "setslice", "s": [0, 0], "kind": "list", "a": {"$self": spec["_lax"]}})
    ops.append({"r": "lop", "p": path, "m": "extend", "kind": "list", "a": {"$other": spec["_at"]}})
    ops += [{"r": "lop", "p": path, "m": "pop"}, {"r": "lop", "p": path, "m": "clear"}]
    if level == 0:
        ops += [{"r": "lop", "p": path, "m": "reverse"}, {"r": "lop", "p": path, "m": "imul", "n": 2},
                {"r": "lop", "p": path, "m": "delidx", "i": 0}]
    return ops


def dict_inplace_ops(path, spec, level):
    kspec, vspec = spec.get("key"), spec.get("value")
    ks = [k for k in (item_pool(kspec) if kspec else ["k", "k2", 5, None, "k5"])[:5]]
    vs = (item_pool(vspec) if vspec else [1, "v", [2], None, 1.5])[:5]
    k1, kbad, kwrong, _, k2 = ks
    v1, vbad, vwrong, _, v2 = vs
    pairs = [[k1, v1], [k1, vbad], [k2, v2]]
    if kspec:
        pairs += [[kbad, v1], [kwrong, v1]]
    if vspec:
        pairs += [[k1, vwrong]]
    pairs = [p for p in pairs if hashable_json(p[0])]
    ops = []
    if level == 2:
        return [{"r": "dop", "p": path, "m": "setitem", "a": pairs[0]},
                {"r": "dop", "p": path, "m": "setitem", "a": pairs[1]},
                {"r": "dop", "p": path, "m": "ior_dict", "a": {"$d": [pairs[1]]}},
                {"r": "dop", "p": path, "m": "update_pairs", "kind": "gen", "a": [pairs[0], pairs[1]]},
                {"r": "dop", "p": path, "m": "pop", "a": k1}]
    use = pairs if level == 0 else pairs[:2]
    if level == 1 and len(pairs) > 3:
        ops += [{"r": "dop", "p": path, "m": "setitem", "a": pairs[3]},
                {"r": "dop", "p": path, "m": "ior_dict", "a": {"$d": [pairs[3]]}}]
    for p in use:
        ops.append({"r": "dop", "p": path, "m": "setitem", "a": p})
        ops.append({"r": "dop", "p": path, "m": "setdefault", "a": p})
        ops.append({"r": "dop", "p": path, "m": "update_dict", "a": {"$d": [p]}})
        ops.append({"r": "dop", "p": path, "m": "ior_dict", "a": {"$d": [p]}})
        if isinstance(p[0], str) and p[0].isidentifier():
            ops.append({"r": "dop", "p": path, "m": "update_kw", "a": {p[0]: p[1]}})
        for kind in (["list", "tuple", "iter", "gen"] if level == 0 else ["iter"]):
            ops.append({"r": "dop", "p": path, "m": "update_pairs", "kind": kind, "a": [pairs[0], p]})
            if level == 0 or kind == "iter":
                ops.append({"r": "dop", "p": path, "m": "ior_pairs", "kind": kind, "a": [pairs[0], p]})
    if "_lax" in spec:
        ops.append({"r": "dop", "p": path, "m": "update_dict", "a": {"$self": spec["_lax"]}})
        ops.append({"r": "dop", "p": path, "m": "ior_dict", "a": {"$self": spec["_lax"]}})
    ops.append({"r": "dop", "p": path, "m": "update_dict", "a": {"$other": spec["_at"]}})
    ops += [{"r": "dop", "p": path, "m": "pop", "a": k1}, {"r": "dop", "p": path, "m": "clear"}]
    if level == 0:
        ops.append({"r": "dop", "p": path, "m": "delitem", "a": k1})
    return ops


# --------------------------------------------------------------------------------------------- the grammar

def S(t, default=None, **kw):
    spec = {"t": t}
    if kw:
        spec["kw"] = kw
    if default is not None:
        spec["default"] = default
    return spec


def leaves():
    """every built-in scalar field class under the parameterisations of the bound, each with a valid default"""
    T = "$TMP/fs"
    return [
        ("String", S("String", "d")),
        ("String[2..4]", S("String", "abc", min_len=2, max_len=4)),
        ("String[0..0]", S("String", "", min_len=0, max_len=0)),
        ("String/regex", S("String", "abc", regex="^[a-z]+$")),
        ("String/choices", S("String", "a", choices=["a", "b"])),
        ("String/upper", S("String", "ABC", transform_case="upper")),
        ("String/lower+strip[..3]", S("String", "abc", transform_case="lower", transform_strip=True, max_len=3)),
        ("String/strip-x", S("String", "abc", transform_strip="x", min_len=1)),
        ("String/required", S("String", "r", required=True, min_len=1)),
        # choices whose members the declared transform changes (stored value must be a choice as declared)
        ("String/choices+lower", S("String", "blue", choices=["Red", "GREEN", "blue"], transform_case="lower")),
        ("String/choices+upper", S("String", "GREEN", choices=["Red", "GREEN", "blue"], transform_case="upper")),
        ("String/choices[Red]+lower", S("String", None, choices=["Red"], transform_case="lower")),
        ("String/choices+strip", S("String", "b", choices=[" a ", "b", "c "], transform_strip=True)),
        ("String/choices+strip-x", S("String", "b", choices=["xax", "b"], transform_strip="x")),
        ("String/choices[]+lower", S("String", "abc", choices=[], transform_case="lower")),
        ("LogLevel", S("LogLevel", "info")),
        ("LogLevel/upper", S("LogLevel", None, transform_case="upper")),
        ("LogLevel/mixed-levels", S("LogLevel", "warn", levels=["Debug", "INFO", "warn"])),
        ("AppMode", S("AppMode", "production")),
        ("AppMode/mixed-modes", S("AppMode", "test", modes=["Dev", "PROD", "test"])),
        ("AppMode/mixed-modes+upper", S("AppMode", "PROD", modes=["Dev", "PROD", "test"], transform_case="upper",
                                        create_helpers=False)),
        ("AppMode/nostrip", S("AppMode", "test", modes=["Dev", "test"], transform_strip=False, create_helpers=False)),
        ("Int", S("Int", 7)),
        ("Int[1..5]", S("Int", 2, min=1, max=5)),
        ("Int[0..0]", S("Int", 0, min=0, max=0)),
        ("Int[-2..]", S("Int", 0, min=-2)),
        ("Int[..3]", S("Int", 1, max=3, required=True)),
        ("Float", S("Float", 1.0)),
        ("Float[0.5..2.5]", S("Float", 1.0, min=0.5, max=2.5)),
        ("Float[0..0]", S("Float", 0.0, min=0.0, max=0.0)),
        ("Float[..1]", S("Float", 0.5, max=1.0)),
        ("Port", S("Port", 80)),
        ("Port[1024..2048]", S("Port", 1500, min=1024, max=2048)),
        ("Bool", S("Bool", True)),
        ("Bool/required", S("Bool", False, required=True)),
        ("Bytes", S("Bytes", {"$b": "00ff"})),
        ("Bytes/hex", S("Bytes", {"$b": "6869"}, encoding="hex")),
        ("IPv4Address", S("IPv4Address", "127.0.0.1")),
        ("IPv4Address[..9]", S("IPv4Address", "127.0.0.1", max_len=9)),
        ("IPv4Address/regex", S("IPv4Address", "10.0.0.9", regex=r"^10\.")),
        ("IPv4Network", S("IPv4Network", "10.0.0.0/8")),
        ("IPv4Network[8..24]", S("IPv4Network", "10.0.0.0/8", min_prefix_len=8, max_prefix_len=24)),
        ("IPv4Network[..0]", S("IPv4Network", "0.0.0.0/0", max_prefix_len=0)),
        ("IPv4Network[0..32]", S("IPv4Network", "10.0.0.0/8", min_prefix_len=0, max_prefix_len=32)),
        ("IPv4Network/max_len8", S("IPv4Network", None, max_len=8)),
        ("IPv4Network/regex", S("IPv4Network", None, regex=r"^[0-9.]+$")),
        ("Hostname", S("Hostname", "localhost")),
        ("Hostname/noipv4", S("Hostname", "localhost", allow_ipv4=False)),
        ("Hostname[..9]", S("Hostname", "localhost", max_len=9)),
        ("Url", S("Url", "http://h")),
        ("Url[..12]", S("Url", "http://h", max_len=12)),
        ("Filename", S("Filename", "f.txt")),
        ("Filename/startdir", S("Filename", "$TMP/fs/a.txt", startdir=T)),
        ("Filename/startdir+file", S("Filename", "$TMP/fs/a.txt", startdir=T, exists="file")),
        ("Filename/exists-dir", S("Filename", "$TMP/fs/d", startdir=T, exists="dir")),
        ("Filename/not-exists", S("Filename", None, startdir=T, exists=False)),
        ("Filename/exists", S("Filename", None, exists=True)),
        ("Filename/startdir[..8]", S("Filename", None, startdir=T, max_len=8)),
    ]


REPRESENTATIVES = ("Int[1..5]", "String/upper", "Bool", "IPv4Network[8..24]", "Float[0.5..2.5]", "Bytes",
                   "Hostname", "Port", "String/lower+strip[..3]", "IPv4Network/max_len8", "Url", "Filename/startdir")


def containers():
    L = dict(leaves())
    i15, up, net8, flt = L["Int[1..5]"], L["String/upper"], L["IPv4Network/max_len8"], L["Float[0.5..2.5]"]

    def nodef(s):
        return {k: v for k, v in s.items() if k != "default"}
    item = {"t": "Schema", "fields": [["x", i15], ["s", nodef(up)]]}
    ctype = {"t": "ConfigType", "name": "Item", "fields": [["x", i15], ["s", nodef(up)]]}
    key = {"t": "String", "kw": {"regex": "^[a-z]+$", "max_len": 3}}
    chl, chu = nodef(L["String/choices+lower"]), nodef(L["String/choices+upper"])
    out = [
        ("List<String/choices+lower>", {"t": "List", "item": chl, "default": ["blue"]}),
        ("List<LogLevel/upper>", {"t": "List", "item": nodef(L["LogLevel/upper"]), "default": []}),
        ("Dict<String/choices+lower,String/choices+upper>", {"t": "Dict", "key": chl, "value": chu,
                                                              "default": {"blue": "GREEN"}}),
        ("Dict<,AppMode/mixed-modes+upper>", {"t": "Dict", "value": nodef(L["AppMode/mixed-modes+upper"]),
                                               "default": {"a": "PROD"}}),
        ("Dict<LogLevel/mixed-levels,>", {"t": "Dict", "key": nodef(L["LogLevel/mixed-levels"]),
                                           "default": {"warn": 1}}),
        ("List", {"t": "List", "default": [1]}),
        ("List<Int[1..5]>", {"t": "List", "item": nodef(i15), "default": [1, 2]}),
        ("List<String/upper>", {"t": "List", "item": nodef(up), "default": ["A"]}),
        ("List<Bool>", {"t": "List", "item": {"t": "Bool"}, "default": [True]}),
        ("List<IPv4Network/max_len8>", {"t": "List", "item": nodef(net8), "default": []}),
        ("List<Float[0.5..2.5]>", {"t": "List", "item": nodef(flt), "default": [1.0]}),
        ("List<Bytes>", {"t": "List", "item": {"t": "Bytes"}, "default": [{"$b": "00"}]}),
        ("List<Hostname>", {"t": "List", "item": {"t": "Hostname"}, "default": ["h1"]}),
        ("List<Port>", {"t": "List", "item": {"t": "Port"}, "default": [80]}),
        ("List<Int[1..5]>/required", {"t": "List", "item": nodef(i15), "kw": {"required": True}, "default": [1]}),
        ("List<Schema>", {"t": "List", "item": item, "default": [{"x": 1}]}),
        ("List<ConfigType>", {"t": "List", "item": ctype, "default": [{"x": 1}]}),
        ("List<List<Int[1..5]>>", {"t": "List", "item": {"t": "List", "item": nodef(i15)}, "default": [[1]]}),
        ("List<Dict<key,Int[1..5]>>", {"t": "List", "item": {"t": "Dict", "key": key, "value": nodef(i15)},
                                        "default": [{"a": 1}]}),
        ("Dict", {"t": "Dict", "default": {"a": 1}}),
        ("Dict<key,Int[1..5]>", {"t": "Dict", "key": key, "value": nodef(i15), "default": {"a": 1}}),
        ("Dict<,String/upper>", {"t": "Dict", "value": nodef(up), "default": {"a": "A"}}),
        ("Dict<String/upper,>", {"t": "Dict", "key": nodef(up), "default": {"A": 1}}),
        ("Dict<key,List<Int[1..5]>>", {"t": "Dict", "key": key, "value": {"t": "List", "item": nodef(i15)},
                                        "default": {"a": [1]}}),
        ("Dict<,IPv4Network/max_len8>", {"t": "Dict", "value": nodef(net8), "default": {}}),
        ("Dict<,Float[0.5..2.5]>", {"t": "Dict", "value": nodef(flt), "default": {"a": 1.0}}),
        ("Dict<key,Bool>/required", {"t": "Dict", "key": key, "value": {"t": "Bool"}, "kw": {"required": True},
                                     "default": {"a": True}}),
    ]
    return out


def lax_container(spec):
    """a sibling container of the same shape whose items are unconstrained, holding a value the focus rejects"""
    t = spec["t"]
    if t == "List" and spec.get("item") and spec["item"]["t"] in SCALAR_T:
        it = spec["item"]
        bad = leaf_pool(it)[1]
        lax = {"t": it["t"]}
        e = Env("/nonexistent", {"t": "Schema", "fields": []})
        try:
            if conj(lax, dec(bad, e), e):
                return None
        except Exception:
            return None
        return {"t": "List", "item": lax, "default": [bad]}
    if t == "Dict" and spec.get("value") and spec["value"]["t"] in SCALAR_T:
        it = spec["value"]
        bad = leaf_pool(it)[1]
        lax = {"t": it["t"]}
        e = Env("/nonexistent", {"t": "Schema", "fields": []})
        try:
            if conj(lax, dec(bad, e), e):
                return None
        except Exception:
            return None
        return {"t": "Dict", "value": lax, "default": {"zz": bad}}
    return None


BYSTANDER = ["o", {"t": "Int", "default": 7}]
ALL_ROUTES = ["attr", "item", "ctor", "tree", "loads", "cmdline"]


def annotate(spec, at):
    spec = copy.deepcopy(spec)
    spec["_at"] = at
    return spec


def strip_private(spec):
    if isinstance(spec, dict):
        return {k: strip_private(v) for k, v in spec.items() if not k.startswith("_")}
    if isinstance(spec, list):
        return [strip_private(x) for x in spec]
    return spec


def scenarios(tier):
    """-> list of (name, schema spec, ops_full, ops_mid, ops_small)"""
    out = []
    thorough = tier != "quick"
    L = leaves()
    # (1) every scalar class/parameterisation at top level next to a bystander
    for name, spec in L:
        pool = leaf_pool(spec)
        schema = {"t": "Schema", "fields": [["f", spec], BYSTANDER]}
        full = scalar_ops(["f"], spec, ALL_ROUTES, pool, argv=True)
        mid = scalar_ops(["f"], spec, ["attr", "item", "ctor", "tree", "loads", "cmdline"], pool[:2]) + \
            scalar_ops(["f"], spec, ["attr"], pool[2:5], with_reset=False)
        small = scalar_ops(["f"], spec, ["attr"], pool[:2]) + scalar_ops(["f"], spec, ["tree"], pool[:1], False) + \
            scalar_ops(["f"], spec, ["cmdline"], pool[4:5], with_reset=False) + [{"r": "attr", "p": ["o"], "v": 8}]
        out.append(("top/" + name, schema, full, mid, small))
    # (2) containers at top level, with an unconstrained sibling `g` and a bystander
    for name, spec in containers():
        spec = annotate(spec, ["f"])
        fields = [["f", spec], BYSTANDER]
        lax = lax_container(spec)
        if lax:
            spec["_lax"] = ["g"]
            fields.append(["g", lax])
        schema = {"t": "Schema", "fields": fields}
        vals = container_values(spec)
        inplace = list_inplace_ops if spec["t"] == "List" else dict_inplace_ops
        full = scalar_ops(["f"], spec, ["attr", "item", "ctor", "tree", "loads"], vals) + inplace(["f"], spec, 0)
        mid = scalar_ops(["f"], spec, ["attr", "tree", "ctor"], vals[:2]) + inplace(["f"], spec, 1)
        small = scalar_ops(["f"], spec, ["attr"], vals[:2]) + inplace(["f"], spec, 2)
        it = spec.get("item")
        if it and it["t"] in ("Schema", "ConfigType"):        # assignments to fields of item configurations
            x = dict(it["fields"])["x"]
            sub = scalar_ops(["f", 0, "x"], x, ["attr"], leaf_pool(x)[:5], with_reset=False)
            full += sub
            mid += sub[:3]
            small += sub[:2]
        if it and it["t"] in ("List", "Dict"):                # in-place mutation of a nested typed container
            inner = annotate(it, ["f"])
            sub = (list_inplace_ops if it["t"] == "List" else dict_inplace_ops)(["f", 0], inner, 1)
            sub = [o for o in sub if "$other" not in json.dumps(o)]
            full += sub
            mid += sub[:6]
            small += sub[:2]
        if spec["t"] == "Dict" and spec.get("value") and spec["value"]["t"] == "List":
            inner = annotate(spec["value"], ["f"])
            sub = [o for o in list_inplace_ops(["f", "a"], inner, 1) if "$other" not in json.dumps(o)]
            full += sub
            mid += sub[:6]
            small += sub[:2]
        out.append(("top/" + name, schema, full, mid, small))
    # (3) representative leaves under every nesting shape (sub-schema depth 2 and 3, list item, config type, dynamic)
    Ld = dict(L)
    reps = [n for n, _ in L] if thorough else list(REPRESENTATIVES)
    for name in reps:
        spec = Ld[name]
        pool = leaf_pool(spec)
        core = pool[:5]
        side = ["q", {"t": "String", "default": "q"}]
        shapes = [
            ("sub", {"t": "Schema", "fields": [BYSTANDER, ["s", {"t": "Schema", "fields": [["f", spec], side]}]]},
             ["s", "f"]),
            ("sub3", {"t": "Schema", "fields": [BYSTANDER, ["a", {"t": "Schema", "fields": [
                side, ["b", {"t": "Schema", "fields": [["f", spec]]}]]}]]}, ["a", "b", "f"]),
            ("ctype", {"t": "Schema", "fields": [BYSTANDER, ["t", {"t": "ConfigType", "name": "T",
                                                                  "fields": [["f", spec], side]}]]}, ["t", "f"]),
            ("dynamic", {"t": "Schema", "dynamic": True, "fields": [["f", spec], BYSTANDER]}, ["f"]),
        ]
        for shape, schema, path in shapes:
            full = scalar_ops(path, spec, ALL_ROUTES, core, argv=(shape in ("sub", "sub3")))
            mid = scalar_ops(path, spec, ["attr", "item", "tree", "ctor"], core[:3])
            small = scalar_ops(path, spec, ["item", "tree"], core[:2])
            if shape in ("sub", "ctype"):                       # whole sub-configuration assigned from a dict
                extra = [{"r": "attr", "p": path[:1], "v": {"f": v}} for v in core] + \
                        [{"r": "attr", "p": path[:1], "v": {"f": core[0], "q": 5}},
                         {"r": "attr", "p": path[:1], "v": {"$cfg": {"f": core[0]}, "at": path[:1]}},
                         {"r": "attr", "p": path[:1], "v": {"$cfg": {"f": core[1]}, "at": path[:1]}},
                         {"r": "attr", "p": path[:1], "v": "notaconfig"}, {"r": "reset", "p": path[:1]}]
                full += extra
                mid += extra[:2] + extra[-1:]
                small += extra[:1]
            if shape == "dynamic":
                extra = [{"r": "attr", "p": ["zz"], "v": core[1]}, {"r": "tree", "p": ["yy"], "v": [core[2]]},
                         {"r": "ctor", "p": ["zz"], "v": core[1]}, {"r": "item", "p": ["zz"], "v": None}]
                full += extra
                mid += extra[:3]
                small += extra[:1]
            out.append(("%s/%s" % (shape, name), schema, full, mid, small))
        # list of item schemas whose item field is the focus
        item = {"t": "Schema", "fields": [["f", spec], ["n", {"t": "Int", "default": 1}]]}
        lspec = annotate({"t": "List", "item": item, "default": [{}]}, ["items"])
        schema = {"t": "Schema", "fields": [["items", lspec], BYSTANDER]}
        sub = scalar_ops(["items", 0, "f"], spec, ["attr"], core, with_reset=False)
        dicts = [{"f": v} for v in core]
        lops = [{"r": "lop", "p": ["items"], "m": "append", "a": d} for d in dicts] + \
               [{"r": "lop", "p": ["items"], "m": "append", "a": {"$cfg": d, "at": ["items"]}} for d in dicts[:2]] + \
               [{"r": "lop", "p": ["items"], "m": "extend", "kind": "gen", "a": dicts[:2]},
                {"r": "lop", "p": ["items"], "m": "setslice", "s": [0, 1], "kind": "tuple", "a": dicts[:2]},
                {"r": "attr", "p": ["items"], "v": dicts[:2]}, {"r": "tree", "p": ["items"], "v": dicts[:2]},
                {"r": "loads", "p": ["items"], "v": [d for d in dicts if jsonable(d)][:2]},
                {"r": "ctor", "p": ["items"], "v": dicts[:2]}, {"r": "reset", "p": ["items"]}]
        out.append(("listitem/" + name, schema, sub + lops, sub[:2] + lops[:3] + lops[-4:-1], sub[:2] + lops[:2]))
    return out


def sequences(full, mid, small, tier):
    """length 1 over the full pool, length 2 over the mid pool, length 3 over the small pool; a constructor
    keyword operation can only come first"""
    for op in full:
        yield [op]
    for a in mid:
        for b in mid:
            if b["r"] != "ctor":
                yield [a, b]
    for a in small:
        for b in small:
            for c in small:
                if b["r"] != "ctor" and c["r"] != "ctor":
                    yield [a, b, c]


# --------------------------------------------------------------------------------------------- driver entry points

def rac(tier="quick", seed=0):
    rec = Recorder(
        PID,
        rule="schema grammar (every built-in scalar field class x parameterisation at top level; typed/untyped "
             "lists and dicts incl. list of schema / config type / nested containers; StringField / LogLevelField / "
             "ApplicationModeField whose choices contain characters their case / strip transform changes, also as "
             "list item, dict key and dict value (the stored value must be a choice as declared; an empty choices "
             "list counts as no choices declared); representative fields under "
             "sub-schema depth 2 and 3, config-type field, dynamic schema, list-of-schema item) x operation "
             "sequences over the routes attr / dotted item / constructor keyword / load_tree / loads(json) / "
             "cmdline_args_override (Namespace and generated parser) / reset_value / in-place ListProxy and "
             "DictProxy mutators; one case = (schema, op sequence); distinct = distinct (scenario, sequence); "
             "non-trivial = at least one operation was attempted (accepted or rejected) on a non-empty schema",
        bound="sequence length 1 over the full op pool (all routes x 11-20 values per field: valid, min-1/min/max/"
              "max+1, malformed, wrongly typed, None), length 2 over a mid pool, length 3 over a small pool; "
              "nesting depth <= 3; list/dict values of <= 3 entries; thorough: all leaves under all shapes + "
              "seeded random sequences of length 4 until the budget is used",
        tier=tier, seed=seed)
    _PRODUCED.clear()
    for k in CLAUSES:
        CLAUSES[k] = 0
    stats = {}
    cwd = os.getcwd()
    with sandbox() as tmp:
        try:
            os.chdir(tmp)                                   # relative file names resolve inside the sandbox
            prepare_fs(tmp)
            scen = scenarios(tier)
            scen = [(n, strip_private(sc), strip_private(f), strip_private(m), strip_private(sm))
                    for n, sc, f, m, sm in scen]
            for name, schema, full, mid, small in scen:
                proto = Env(tmp, schema)
                built = (proto.schema, proto.types)
                for ops in sequences(full, mid, small, tier):
                    _one(rec, tmp, name, schema, ops, stats, built)
                # the shared schema object must not have picked up state from the cases run on it
                if not strict_eq(dump(proto.schema()), dump(Env(tmp, schema).schema())):
                    raise RuntimeError("C01 driver: schema of scenario %s changed while cases ran on it" % name)
            if tier != "quick":
                while not rec.out_of_time():
                    name, schema, full, mid, small = scen[rec.rng.randrange(len(scen))]
                    ops = [full[rec.rng.randrange(len(full))] for _ in range(4)]
                    ops = [o for i, o in enumerate(ops) if i == 0 or o["r"] != "ctor"]
                    _one(rec, tmp, name, schema, ops, stats)
        finally:
            os.chdir(cwd)
    res = rec.result(exhaustive=False)
    res["scenarios"] = len(scen)
    res["clause_evaluations"] = dict(CLAUSES)
    res["steps"] = {k: stats[k] for k in sorted(stats)}     # per route: [accepted, rejected, not applicable]
    return res


def _one(rec, tmp, name, schema, ops, stats, built=None):
    fails, statuses = run_sequence(schema, ops, tmp, built)
    for op, st in zip(ops, statuses):
        k = op["r"] + ("." + op["m"] if "m" in op else "")
        stats.setdefault(k, [0, 0, 0])[("accepted", "rejected", "n/a").index(st)] += 1
    rec.case(key=(name, json.dumps(ops, sort_keys=True)),
             nontrivial=any(s != "n/a" for s in statuses) and bool(schema["fields"]),
             sample={"scenario": name, "schema": schema, "ops": ops, "statuses": statuses}
             if len(ops) == 2 and rec.evaluations % 997 == 0 else None)
    for f in fails:
        if any(v["obligation"] == f["obligation"] and v["witness_key"] == f["witness_key"] for v in rec.violations):
            continue
        case = {"schema": schema, "ops": ops[:f["step"] + 1], "obligation": f["obligation"],
                "witness_key": f["witness_key"]}
        if f.get("mini"):                                   # one-field schema + one assignment, if that fails alike
            mini = dict(f["mini"], obligation=f["obligation"], witness_key=f["witness_key"])
            if replay(mini, tmp)["fails"]:
                case = mini
        # a violation is reported only as a checked fact: it must reproduce on a schema built from scratch
        if not replay(case, tmp)["fails"]:
            raise RuntimeError("C01 driver: violation not reproduced from scratch: %s" % json.dumps(case))
        rec.violation(obligation=f["obligation"], what=f["what"].replace(tmp, "$TMP"), replay=case,
                      witness_key=f["witness_key"])


def replay(case, tmp=None):
    """re-execute one replay dict on the current /repo"""
    if tmp is None:
        cwd = os.getcwd()
        with sandbox() as tmp2:
            try:
                os.chdir(tmp2)
                prepare_fs(tmp2)
                return replay(case, tmp2)
            finally:
                os.chdir(cwd)
    fails, statuses = run_sequence(case["schema"], case["ops"], tmp)
    want = case.get("obligation")
    hit = [f for f in fails if want is None or (f["obligation"] == want and
                                                 f["witness_key"] == case.get("witness_key", f["witness_key"]))]
    return {"fails": bool(hit), "expected": "every clause of C01 holds after every step of the sequence",
            "observed": hit[0]["what"] if hit else ("no failure of %s; statuses %s; other failures: %s" % (
                want, statuses, [f["obligation"] for f in fails])),
            "statuses": statuses}
