"""C11 - bounded run-time contract driver: a load that returns means required fields are set and every
validator passed.

Schemas are built from a JSON spec, scenarios are lists of JSON steps, so every replay dict is self-contained:

    block := {"fields": [field, ...], "validators": [{"id": str, "field": key, "bad": value}, ...]}
    field := {"k": key, "t": "Int"|"String"|"List"|"Dict"|"Bool"|"ListInt"|"DictStrInt"|"Flag",
              "req": bool, "default": json?, "fv": {"id": str, "bad": value}?}
           | {"k": key, "t": "sub"|"ctype"|"listS"|"listT", "b": block}
    step  := {"op": "load_tree"|"loads"|"load", "tree": {...}, "fmt": ...} | {"op": "validate"}
           | {"op": "assign", "path": "c.ri", "value": ...}
           | {"op": "insert", "path": "c", "how": append|insert|setitem|extend|iadd|assign, "as": dict|config,
              "item": {...}}
           | {"op": "held", "path": "c", "index": 1, "edit": {...}, "call": validate|collect|load_tree-empty|
              load_tree-sibling|loads-empty:<fmt>, "kind": "schema@root"}
             (an item the list holds is invalidated in place - schema validator now fails, required list cleared,
             switched-off item with unset required fields switched on - then the call on the ROOT must raise
             ValidationError / return a non-empty list: held items count, for ListField(Schema) and
             ListField(config type) alike)
           | {"op": "reinsert", "path": "c", "how": pop-append|setitem-other|slice-reorder|extend-proxy|...,
              "edit": {"kind": "assign"|"clear", "key": k, "value": v} | null}
             (item lst[1] - already held, or popped first, or held by the same list of a second configuration of
             the schema ("foreign") - is edited IN PLACE, then put into the list (again); if the call returns and
             the object is an item of the list, it must satisfy the state clauses; "-proxy" forms hand the items
             over inside a ListProxy of the same ListField, e.g. lst.extend(lst.copy()), cfg.c = other_cfg.c)

Validators are registered with cincoconfig.validator(schema) / validator(field); they are instrumented (every call
is logged with the identity of the configuration and the value) and *pure*: a field validator fails iff
value == bad, a schema validator fails iff cfg.<field> == bad.  So the oracle can say, from the final state alone,
whether a validator "passed", and from the call log of the step whether it "was run against the loaded data".

Oracle (from the property statement), evaluated after every step that is a load, an explicit validation or an
insertion into a configuration list and that RETURNED NORMALLY:
  for every configuration C reachable from the root without passing through a configuration whose feature flag is
  off (the property is silent about configurations below a disabled one: not checked), C itself enabled:
    required-set        every required field of C is not None, and not empty for String/List/Dict fields
    field-validator-*   every field validator of a field of C that HAS a value was called during the step with
                        (C, that value) and its predicate holds
    schema-validator-*  every schema validator of C was called during the step with C and its predicate holds
  items of configuration lists: checked (same rule) when the step loaded them (the list key is in the loaded tree)
  or inserted them; not for items that were already there (the property holds them to the rule "when they are
  loaded or inserted").
If the step raises instead, the exception must be a ValidationError.  After every step, whatever it was:
validate(collect_errors=True) returns a non-empty list exactly when validate() raises; and (exemption is exact) when
validate() raises, some configuration NOT below a switched-off one must actually be out of order: if the state of
every enabled configuration (all list items included) is in order and a switched-off configuration exists, the
error can only come from the exempt one -> flag-off-exempt fails.
"""
import copy
import os

from pyvc.raclib import Recorder, sandbox

PID = "C11"
FORMATS = ["json", "yaml", "xml", "bson", "pickle"]
CONTAINERS = ("sub", "ctype", "listS", "listT")

OB = {
    "required": "core:Schema._validate/post:C11.required-set",
    "fv-run": "core:Schema._validate/post:C11.field-validator-run",
    "fv-pass": "core:Schema._validate/post:C11.field-validator-passed",
    "sv-run": "core:Schema._validate/post:C11.schema-validator-run",
    "sv-pass": "core:Schema._validate/post:C11.schema-validator-passed",
    "collect": "core:Config.validate/post:C11.collect-iff-raise",
    "exc": "core:Config.load_tree/raise:C11.validation-error",
    "exempt": "core:Schema._validate/post:C11.flag-off-exempt",
}
OB_ITEM = {k: v.replace("core:Schema._validate", "fields.list_field:ListProxy._validate") for k, v in OB.items()}

NONEMPTY_KINDS = ("String", "List", "Dict", "ListInt", "DictStrInt")

# ------------------------------------------------------------------------------------------------ building

_COUNTER = [0]


def _freeze(v):
    return repr(v)


def _make_field(f, log):
    import cincoconfig as cc
    kw = {"required": bool(f.get("req"))}
    if "default" in f:
        d = f["default"]
        kw["default"] = (lambda d=d: copy.deepcopy(d)) if isinstance(d, (list, dict)) else d
    t = f["t"]
    if t == "Int":
        fld = cc.IntField(**kw)
    elif t == "String":
        fld = cc.StringField(**kw)
    elif t == "List":
        fld = cc.ListField(**kw)
    elif t == "Dict":
        fld = cc.DictField(**kw)
    elif t == "Bool":
        fld = cc.BoolField(**kw)
    elif t == "ListInt":
        fld = cc.ListField(cc.IntField(), **kw)
    elif t == "DictStrInt":
        fld = cc.DictField(cc.StringField(), cc.IntField(), **kw)
    elif t == "Flag":
        fld = cc.FeatureFlagField(**kw)
    else:
        raise KeyError(t)
    if f.get("fv"):
        vid, bad = f["fv"]["id"], f["fv"]["bad"]

        @cc.validator(fld)
        def field_validator(cfg, value, vid=vid, bad=bad):
            log.append(("F", vid, id(cfg), _freeze(value)))
            if value == bad:
                raise ValueError("instrumented field validator %s rejects %r" % (vid, value))
            return value
    return fld


def build_schema(block, log):
    import cincoconfig as cc
    schema = cc.Schema()
    for f in block["fields"]:
        t = f["t"]
        if t in CONTAINERS:
            sub = build_schema(f["b"], log)
            if t in ("ctype", "listT"):
                _COUNTER[0] += 1
                sub = cc.make_type(sub, "T%d" % _COUNTER[0])
            schema._add_field(f["k"], cc.ListField(sub) if t in ("listS", "listT") else sub)
        else:
            schema._add_field(f["k"], _make_field(f, log))
    for v in block.get("validators", []):
        @cc.validator(schema)
        def schema_validator(cfg, sv=v):
            log.append(("S", sv["id"], id(cfg)))
            if _sv_rejects(sv, cfg):
                raise ValueError("instrumented schema validator %s rejects %s" % (sv["id"], _sv_text(sv)))
    return schema


def _sv_rejects(sv, cfg):
    """pure predicate of a schema validator: {"field": k, "bad": v} rejects cfg.k == v;
    {"field": a, "gt": b} (cross-field) rejects cfg.a > cfg.b"""
    a = getattr(cfg, sv["field"])
    if "gt" in sv:
        b = getattr(cfg, sv["gt"])
        return a is not None and b is not None and a > b
    return a == sv["bad"]


def _sv_text(sv):
    return "%s > %s" % (sv["field"], sv["gt"]) if "gt" in sv else "%s == %r" % (sv["field"], sv["bad"])


# -------------------------------------------------------------------------------------------------- oracle

def _enabled(block, cfg):
    return all(getattr(cfg, f["k"]) for f in block["fields"] if f["t"] == "Flag")


ALL_ITEMS = "<all items>"


def check_config(block, cfg, logset, tree, where, path, out, item=False, disabled=None):
    """evaluate the property's post-state on configuration `cfg` (spec `block`) and everything below it.
    logset None: state only (no "was run" clauses); tree ALL_ITEMS: every item of every configuration list"""
    if not _enabled(block, cfg):
        if disabled is not None:
            disabled.append(path or "<root>")
        return
    ob = OB_ITEM if item else OB
    for f in block["fields"]:
        k, t = f["k"], f["t"]
        p = path + "." + k if path else k
        if t in ("sub", "ctype"):
            sub_tree = tree.get(k) if isinstance(tree, dict) else (tree if tree == ALL_ITEMS else None)
            check_config(f["b"], getattr(cfg, k), logset, sub_tree, t, p, out, item, disabled)
            continue
        if t in ("listS", "listT"):
            items = getattr(cfg, k)
            if items and tree == ALL_ITEMS:
                for i, it in enumerate(items):
                    check_config(f["b"], it, logset, tree, "item(%s)" % t, "%s[%d]" % (p, i), out, True, disabled)
            elif items and isinstance(tree, dict) and isinstance(tree.get(k), list):
                for i, it in enumerate(items):
                    it_tree = tree[k][i] if i < len(tree[k]) else None
                    check_config(f["b"], it, logset, it_tree, "item(%s)" % t, "%s[%d]" % (p, i), out, True,
                                 disabled)
            continue
        v = getattr(cfg, k)
        if f.get("req"):
            if v is None:
                out.append({"ob": ob["required"], "wkey": "%s:%s:unset" % (where, t),
                            "what": "required %s field %s is unset" % (t, p)})
            elif t in NONEMPTY_KINDS and len(v) == 0:
                out.append({"ob": ob["required"], "wkey": "%s:%s:empty" % (where, t),
                            "what": "required %s field %s is empty (%r)" % (t, p, v)})
        if f.get("fv") and v is not None:
            if logset is not None and ("F", f["fv"]["id"], id(cfg), _freeze(v)) not in logset:
                out.append({"ob": ob["fv-run"], "wkey": "%s:%s" % (where, t),
                            "what": "validator of field %s was not run against its value %r" % (p, v)})
            if v == f["fv"]["bad"]:
                out.append({"ob": ob["fv-pass"], "wkey": "%s:%s" % (where, t),
                            "what": "validator of field %s rejects the value %r the field holds" % (p, v)})
    for sv in block.get("validators", []):
        if logset is not None and ("S", sv["id"], id(cfg)) not in logset:
            out.append({"ob": ob["sv-run"], "wkey": where,
                        "what": "schema validator %s of configuration %s was not run" % (sv["id"], path or "<root>")})
        if _sv_rejects(sv, cfg):
            out.append({"ob": ob["sv-pass"], "wkey": where + (":cross-field" if "gt" in sv else ""),
                        "what": "schema validator %s of configuration %s rejects %s"
                                % (sv["id"], path or "<root>", _sv_text(sv))})


# --------------------------------------------------------------------------------------------------- steps

class World:
    def __init__(self, spec, tmp):
        self.spec = spec
        self.log = []
        self.schema = build_schema(spec, self.log)
        self.cfg = self.schema()
        self.tmp = tmp
        self.nfile = 0


def _navigate(obj, block, path):
    """follow 'a.b[0].c' from a configuration; -> (value, block of that value if it is a configuration/list)"""
    import re
    for tok in re.findall(r"[^.\[\]]+|\[\d+\]", path):
        if tok.startswith("["):
            obj = obj[int(tok[1:-1])]
        else:
            f = next(f for f in block["fields"] if f["k"] == tok)
            obj = getattr(obj, tok)
            block = f.get("b")
    return obj, block


def _fill(block, cfg, tree):
    """apply a tree to a configuration by assignment (used to make item configurations)"""
    for k, v in tree.items():
        f = next(f for f in block["fields"] if f["k"] == k)
        if f["t"] in ("sub", "ctype"):
            _fill(f["b"], getattr(cfg, k), v)
        else:
            setattr(cfg, k, copy.deepcopy(v))


def run_step(world, step):
    """-> (outcome, findings); outcome: 'ok' | 'raised' | 'setup-failed'.  Only the library call under test is
    guarded: an exception anywhere else is a driver bug and propagates."""
    from cincoconfig.core import ConfigFormat, ValidationError
    cfg = world.cfg
    op = step["op"]
    findings = []
    checked = None       # (block, config getter, tree, where, path, item?) to evaluate the post-state on
    opname = op
    if op == "load_tree":
        tree = copy.deepcopy(step["tree"])
        call = lambda: cfg.load_tree(tree)      # noqa: E731
        checked = (world.spec, lambda: cfg, step["tree"], "root", "", False)
    elif op in ("loads", "load"):
        content = ConfigFormat.get(step["fmt"]).dumps(cfg, copy.deepcopy(step["tree"]))
        if op == "loads":
            call = lambda: cfg.loads(content, step["fmt"])      # noqa: E731
        else:
            world.nfile += 1
            fn = os.path.join(world.tmp, "doc%d.%s" % (world.nfile, step["fmt"]))
            with open(fn, "wb") as fh:
                fh.write(content)
            call = lambda: cfg.load(fn, step["fmt"])        # noqa: E731
        checked = (world.spec, lambda: cfg, step["tree"], "root", "", False)
    elif op == "validate":
        call = cfg.validate
        checked = (world.spec, lambda: cfg, None, "root", "", False)
    elif op == "assign":
        parent, _, key = step["path"].rpartition(".")
        try:
            target = _navigate(cfg, world.spec, parent)[0] if parent else cfg
        except (TypeError, IndexError):
            return "setup-failed", []
        try:
            setattr(target, key, copy.deepcopy(step["value"]))
        except ValidationError:
            pass                # assignments are not what the property is about
        return "ok", _collect_equiv(world, step)
    elif op == "insert":
        try:
            lst, block = _navigate(cfg, world.spec, step["path"])
            parent_path, _, key = step["path"].rpartition(".")
            parent, pblock = (_navigate(cfg, world.spec, parent_path) if parent_path else (cfg, world.spec))
        except (TypeError, IndexError):     # the list to insert into does not exist in this state
            return "setup-failed", []
        lfield = next(f for f in pblock["fields"] if f["k"] == key)
        item_field = parent._schema._fields[key].field
        if step["as"] == "config":
            item = item_field()
            try:
                _fill(block, item, step["item"])
            except ValidationError:
                return "setup-failed", []   # this item state cannot be reached by assignment
        else:
            item = copy.deepcopy(step["item"])
        if lst is None:
            setattr(parent, key, [])
            lst = getattr(parent, key)
        how = step["how"]
        opname = "%s-%s" % (how, step["as"])
        if how == "setitem" and len(lst) == 0:
            return "setup-failed", []
        holder = [lst]
        if how == "append":
            call, idx = (lambda: lst.append(item)), -1
        elif how == "insert":
            call, idx = (lambda: lst.insert(0, item)), 0
        elif how == "setitem":
            call, idx = (lambda: lst.__setitem__(0, item)), 0
        elif how == "extend":
            call, idx = (lambda: lst.extend([item])), -1
        elif how == "iadd":
            call, idx = (lambda: lst.__iadd__([item])), -1
        elif how == "assign":
            def call():
                setattr(parent, key, [item])
                holder[0] = getattr(parent, key)
            idx = 0
        else:
            raise KeyError(how)
        checked = (block, lambda: holder[0][idx], step["item"], "item(%s)" % lfield["t"],
                   "%s[%d]" % (step["path"], idx), True)
    elif op == "held":
        # an item the list holds is invalidated IN PLACE; then a whole-configuration operation must notice
        try:
            lst, block = _navigate(cfg, world.spec, step["path"])
        except (TypeError, IndexError):
            return "setup-failed", []
        if lst is None or len(lst) < 2:
            return "setup-failed", []
        it, edit = lst[step.get("index", 1)], step.get("edit")
        try:
            if edit and edit["kind"] == "assign":
                setattr(it, edit["key"], copy.deepcopy(edit["value"]))
            elif edit and edit["kind"] == "clear":
                getattr(it, edit["key"]).clear()
        except ValidationError:
            return "setup-failed", []
        what = step["call"]
        opname = "held:" + what
        result = []
        if what == "validate":
            call = cfg.validate
        elif what == "collect":
            call = lambda: result.append(cfg.validate(collect_errors=True))     # noqa: E731
        elif what == "load_tree-empty":
            call = lambda: cfg.load_tree({})                                    # noqa: E731
        elif what == "load_tree-sibling":
            call = lambda: cfg.load_tree({"od": 5})                             # noqa: E731
        elif what.startswith("loads-empty:"):
            fmt = what.split(":")[1]
            content = ConfigFormat.get(fmt).dumps(cfg, {})
            call = lambda: cfg.loads(content, fmt)                              # noqa: E731
        else:
            raise KeyError(what)
        del world.log[:]
        findings = []
        try:
            call()
            signalled = bool(result and result[0])
        except ValidationError:
            signalled = True
        except Exception as exc:    # noqa: BLE001
            signalled = True
            findings.append({"ob": OB["exc"], "wkey": "%s:%s" % (opname, type(exc).__name__),
                             "what": "%s raised %s (%s) instead of a ValidationError" % (opname, type(exc).__name__, exc)})
        if not signalled:
            out = []
            check_config(world.spec, cfg, None, ALL_ITEMS, "root", "", out)
            for fd in out[:1]:
                fd["wkey"] = "held-item-invalid:%s/%s" % (step.get("kind", "?"), what)
                fd["what"] = "%s %s although an item the list holds is out of order: %s" % (
                    what, "returned no errors" if what == "collect" else "returned normally", fd["what"])
                findings.append(fd)
        findings.extend(_collect_equiv(world, step))
        return ("raised" if signalled else "ok"), findings
    elif op == "reinsert":
        try:
            lst, block = _navigate(cfg, world.spec, step["path"])
            parent_path, _, key = step["path"].rpartition(".")
            parent, pblock = (_navigate(cfg, world.spec, parent_path) if parent_path else (cfg, world.spec))
        except (TypeError, IndexError):
            return "setup-failed", []
        if lst is None or len(lst) < 2:
            return "setup-failed", []
        lfield = next(f for f in pblock["fields"] if f["k"] == key)
        how, edit = step["how"], step.get("edit")
        other = None
        if "foreign" in how:
            # a second configuration of the same schema; its list (a ListProxy of the same ListField) holds the item
            other_cfg = world.schema()
            other_cfg.load_tree(copy.deepcopy(step["tree"]))
            other = _navigate(other_cfg, world.spec, step["path"])[0]
            it = other[1]
        else:
            it = lst.pop(1) if how.startswith("pop-") else lst[1]  # the item that is edited and re-inserted
        try:
            if edit and edit["kind"] == "assign":
                setattr(it, edit["key"], copy.deepcopy(edit["value"]))
            elif edit and edit["kind"] == "clear":
                getattr(it, edit["key"]).clear()                   # in-place: no validation happens
        except ValidationError:
            return "setup-failed", []
        holder = [lst]
        opname = "re-" + how
        if how == "pop-append" or how == "append-held":
            call = lambda: lst.append(it)                          # noqa: E731
        elif how == "pop-insert" or how == "insert-held":
            call = lambda: lst.insert(0, it)                       # noqa: E731
        elif how == "setitem-other":
            call = lambda: lst.__setitem__(0, it)                  # noqa: E731   lst[0] = lst[1]
        elif how == "setitem-self":
            call = lambda: lst.__setitem__(1, it)                  # noqa: E731   lst[1] = lst[1]
        elif how == "slice-same":
            objs = list(lst)
            call = lambda: lst.__setitem__(slice(None), objs)      # noqa: E731   lst[:] = [same objects]
        elif how == "slice-reorder":
            objs = [lst[1], lst[0]]
            call = lambda: lst.__setitem__(slice(0, 2), objs)      # noqa: E731   lst[0:2] = [lst[1], lst[0]]
        elif how == "slice-tuple":
            objs = (lst[1], lst[0])
            call = lambda: lst.__setitem__(slice(0, 2), objs)      # noqa: E731
        elif how == "extend-held":
            call = lambda: lst.extend([it])                        # noqa: E731
        elif how == "iadd-held":
            call = lambda: lst.__iadd__([it])                      # noqa: E731
        elif how == "assign-list":
            objs = [lst[1], lst[0]]

            def call():
                setattr(parent, key, objs)
                holder[0] = getattr(parent, key)
        elif how.split("-", 1)[1] in ("proxy", "foreign-proxy"):
            if other is None:
                other = lst.copy()                                 # a ListProxy of the same field, same objects
            verb = how.split("-", 1)[0]

            def call():
                if verb == "extend":
                    lst.extend(other)
                elif verb == "iadd":
                    lst.__iadd__(other)
                elif verb == "slice":
                    lst.__setitem__(slice(None), other)
                else:
                    setattr(parent, key, other)
                    holder[0] = getattr(parent, key)
        else:
            raise KeyError(how)
        # state clauses only: the item was validated when it first went in; what matters is that it is held to
        # the rule again now that it has been edited ("was run" would flag a harmless, unchanged item)
        checked = (block, lambda: it, "<state-only>", "item(%s)" % lfield["t"], "%s[re]" % step["path"], True)
    else:
        raise KeyError(op)

    del world.log[:]
    outcome = "ok"
    try:
        call()
    except ValidationError:
        outcome = "raised"
    except Exception as exc:    # noqa: BLE001 - the property demands a ValidationError
        outcome = "raised"
        findings.append({"ob": (OB_ITEM if op in ("insert", "reinsert") else OB)["exc"],
                         "wkey": "%s:%s" % (opname, type(exc).__name__),
                         "what": "%s raised %s (%s) instead of a ValidationError" % (opname, type(exc).__name__, exc)})
    if outcome == "ok":
        block, getter, tree, where, path, item = checked
        out = []
        if tree == "<state-only>":
            target = getter()
            if any(x is target for x in holder[0]):     # it is (again) an item of the configuration list
                check_config(block, target, None, None, where, path, out, item)
            for fd in out:                               # failing input class = the form of (re-)insertion
                fd["wkey"] = "edited-item"
        else:
            check_config(block, getter(), set(world.log), tree, where, path, out, item)
        for fd in out:
            fd["wkey"] = "%s:%s" % (opname, fd["wkey"])
            fd["what"] = "%s returned normally but %s" % (opname, fd["what"])
        findings.extend(out)
    findings.extend(_collect_equiv(world, step))
    return outcome, findings


def _collect_equiv(world, step):
    """validate(collect_errors=True) is non-empty exactly when validate() raises; a validate() that returns is
    itself an explicit validation: its post-state is evaluated too"""
    from cincoconfig.core import ValidationError
    cfg = world.cfg
    findings = []
    other = None
    try:
        errs = cfg.validate(collect_errors=True)
    except Exception as exc:       # noqa: BLE001
        errs = None
        other = exc
    del world.log[:]
    try:
        cfg.validate()
        raised = False
    except ValidationError:
        raised = True
    except Exception as exc:       # noqa: BLE001
        raised = True
        findings.append({"ob": OB["exc"], "wkey": "validate:%s" % type(exc).__name__,
                         "what": "validate() raised %s (%s) instead of a ValidationError" % (type(exc).__name__, exc)})
    if errs is None:
        findings.append({"ob": OB["collect"], "wkey": "collect-raises",
                         "what": "validate(collect_errors=True) raised %r instead of returning the errors" % (other,)})
    elif bool(errs) != raised:
        findings.append({"ob": OB["collect"], "wkey": "raise=%s,collected=%d" % (raised, min(len(errs), 1)),
                         "what": "validate() %s but validate(collect_errors=True) returned %d errors"
                                 % ("raises" if raised else "returns", len(errs))})
    if raised:
        # exemption is exact: when everything outside the switched-off configurations is in order (state only,
        # every list item included), the deficiencies of a switched-off configuration must not make validate() fail
        out, disabled = [], []
        check_config(world.spec, cfg, None, ALL_ITEMS, "root", "", out, disabled=disabled)
        if not out and disabled:
            findings.append({"ob": OB["exempt"], "wkey": "validate:flag-off",
                             "what": "validate() raises although every enabled configuration is in order; "
                                     "switched-off: %s" % ", ".join(disabled)})
    if not raised:
        out = []
        check_config(world.spec, cfg, set(world.log), None, "root", "", out)
        for fd in out:
            fd["wkey"] = "validate:" + fd["wkey"]
            fd["what"] = "validate() returned normally but " + fd["what"]
        findings.extend(out)
    return findings


def run_scenario(spec, steps, tmp):
    """-> [(step index, outcome, findings)]"""
    world = World(spec, tmp)
    res = []
    for i, st in enumerate(steps):
        outcome, findings = run_step(world, st)
        res.append((i, outcome, findings))
    return res


# --------------------------------------------------------------------------------------------- enumeration

COMPLETE = {"ri": 1, "rs": "x", "rl": [1], "rd": {"a": 1}, "rb": False, "rlp": [1, 2], "rdp": {"k": 1}}

# (name, kind, key, value); kind: miss = drop the key, set = put value, level-empty / level-absent,
# default = change the default of a field in the spec (and do not mention the key in the tree)
DEFICIENCIES = [
    ("none", "none", None, None),
    ("miss:ri", "miss", "ri", None), ("miss:rs", "miss", "rs", None), ("miss:rl", "miss", "rl", None),
    ("miss:rd", "miss", "rd", None), ("miss:rb", "miss", "rb", None), ("miss:rlp", "miss", "rlp", None),
    ("miss:rdp", "miss", "rdp", None),
    ("empty:rs", "set", "rs", ""), ("empty:rl", "set", "rl", []), ("empty:rd", "set", "rd", {}),
    ("empty:rlp", "set", "rlp", []), ("empty:rdp", "set", "rdp", {}),
    ("bad:vf", "set", "vf", 13), ("bad:ov", "set", "ov", "BAD"),
    ("poison:sv_a", "set", "od", 666), ("poison:sv_b", "set", "rs", "POISON"),
    ("level-empty", "level-empty", None, None), ("level-absent", "level-absent", None, None),
    ("dflt-bad:vf", "default", "vf", 13), ("dflt-poison:od", "default", "od", 666),
    ("dflt-empty:rs", "default", "rs", ""), ("dflt-empty:rl", "default", "rl", []),
    ("dflt-empty:rd", "default", "rd", {}),
]
DEF_BY_NAME = {d[0]: d for d in DEFICIENCIES}

# feature flag variants: (where relative to the deficient level, default, value in the tree or None)
FLAG_STATES = [(True, None), (False, None), (True, False), (False, True)]
FLAG_VARIANTS = [("none", None, None)] + [(w, d, t) for w in ("self", "child", "parent") for d, t in FLAG_STATES]


def level_block(i, flag_default=None, child=None, dflt=None, cross=False):
    fields = []
    if flag_default is not None:
        fields.append({"k": "enabled", "t": "Flag", "default": flag_default})
    fields += [
        {"k": "ri", "t": "Int", "req": True},
        {"k": "rs", "t": "String", "req": True},
        {"k": "rl", "t": "List", "req": True},
        {"k": "rd", "t": "Dict", "req": True},
        {"k": "rb", "t": "Bool", "req": True},
        {"k": "rlp", "t": "ListInt", "req": True},
        {"k": "rdp", "t": "DictStrInt", "req": True},
        {"k": "od", "t": "Int", "default": 7},
        {"k": "vf", "t": "Int", "default": 1, "fv": {"id": "fv%d.vf" % i, "bad": 13}},
        {"k": "ov", "t": "String", "fv": {"id": "fv%d.ov" % i, "bad": "BAD"}},
    ]
    if dflt:
        for f in fields:
            if f["k"] == dflt[0]:
                f["default"] = dflt[1]
    if child:
        fields.append(child)
    return {"fields": fields,
            "validators": [{"id": "sv%d.a" % i, "field": "od", "bad": 666},
                           {"id": "sv%d.b" % i, "field": "rs", "bad": "POISON"}]
            + ([{"id": "sv%d.x" % i, "field": "ri", "gt": "od"}] if cross else [])}


def make_case(shape, ld, dname, flag):
    """-> (spec, tree, complete_tree): schema of nested levels along `shape`, deficiency `dname` at level `ld`,
    feature flag variant `flag` = (where, default, tree value)"""
    _, kind, key, value = DEF_BY_NAME[dname]
    where, fdefault, ftree = flag
    flag_level = {"none": None, "self": ld, "child": ld + 1, "parent": ld - 1}[where]
    d = len(shape)

    def block(i):
        child = None
        if i < d:
            child = {"k": "c", "t": shape[i], "b": block(i + 1)}
        return level_block(i, flag_default=fdefault if flag_level == i else None, child=child,
                           dflt=(key, value) if (kind == "default" and i == ld) else None)

    def tree(i, with_def):
        t = copy.deepcopy(COMPLETE)
        deficient = with_def and i == ld
        if deficient and kind == "miss":
            del t[key]
        elif deficient and kind == "set":
            t[key] = copy.deepcopy(value)
        elif deficient and kind == "default" and key in t:
            del t[key]
        if flag_level == i and ftree is not None:
            t["enabled"] = ftree
        if deficient and kind == "level-empty":
            return {}
        if i < d:
            absent = with_def and kind == "level-absent" and ld == i + 1
            if not absent:
                if shape[i] in ("sub", "ctype"):
                    t["c"] = tree(i + 1, with_def)
                else:
                    t["c"] = [tree(i + 1, False), tree(i + 1, with_def)]
        return t

    if kind == "level-absent" and ld == 0:
        return block(0), {}, tree(0, False)
    return block(0), tree(0, True), tree(0, False)


def all_shapes(depth):
    shapes = [()]
    frontier = [()]
    for _ in range(depth):
        frontier = [s + (c,) for s in frontier for c in CONTAINERS]
        shapes += frontier
    return shapes


DEEP_SHAPES = [("sub", "sub", "sub"), ("sub", "sub", "listS"), ("sub", "listS", "sub"), ("listS", "sub", "sub"),
               ("ctype", "ctype", "ctype"), ("ctype", "listT", "sub"), ("listT", "listT", "listT"),
               ("listS", "listS", "listS"), ("sub", "ctype", "listT"), ("listT", "sub", "ctype"),
               ("listS", "ctype", "listS"), ("ctype", "sub", "listS")]


def _valid_flag(flag, ld, d):
    where = flag[0]
    return not ((where == "child" and ld + 1 > d) or (where == "parent" and ld == 0))


def _load_step(op, tree):
    if op == "load_tree":
        return {"op": "load_tree", "tree": tree}
    kind, fmt = op.split(":")
    return {"op": kind, "fmt": fmt, "tree": tree}


def _run_case(rec, tmp, key, spec, steps, sample=False):
    res = run_scenario(spec, steps, tmp)
    trivial = any(o == "setup-failed" for _, o, _ in res)
    rec.case(key=key, nontrivial=not trivial,
             sample={"key": [str(k) for k in key], "steps": [s["op"] for s in steps],
                     "outcomes": [o for _, o, _ in res]} if sample else None)
    for i, _, findings in res:
        for fd in findings:
            if any(v["obligation"] == fd["ob"] and v["witness_key"] == fd["wkey"] for v in rec.violations):
                continue
            rec.violation(obligation=fd["ob"], what=fd["what"], witness_key=fd["wkey"],
                          replay={"spec": spec, "steps": steps[: i + 1], "obligation": fd["ob"],
                                  "witness_key": fd["wkey"]})
    return res


HISTORY_SHAPE = ("sub", "listS")


def _history_ops():
    spec, _, complete = make_case(HISTORY_SHAPE, 1, "none", ("self", True, None))
    item = complete["c"]["c"][0]
    bad_item = dict(item, rs="")
    poison_item = dict(item, od=666)
    sub_def = copy.deepcopy(complete["c"])
    del sub_def["ri"]
    ops = [
        {"op": "load_tree", "tree": complete},
        {"op": "load_tree", "tree": {}},
        {"op": "load_tree", "tree": {"od": 5}},
        {"op": "load_tree", "tree": {k: v for k, v in complete.items() if k != "ri"}},
        {"op": "load_tree", "tree": {"c": {"enabled": False}}},
        {"op": "load_tree", "tree": {"c": sub_def}},
        {"op": "load_tree", "tree": {"c": dict(sub_def, enabled=False)}},
        {"op": "loads", "fmt": "json", "tree": {"c": dict(complete["c"], od=666)}},
        {"op": "loads", "fmt": "yaml", "tree": {"c": dict(complete["c"], c=[item, bad_item])}},
        {"op": "assign", "path": "c.enabled", "value": False},
        {"op": "assign", "path": "c.enabled", "value": True},
        {"op": "assign", "path": "od", "value": 666},
        {"op": "assign", "path": "c.rs", "value": "POISON"},
        {"op": "assign", "path": "ri", "value": 5},
        {"op": "insert", "path": "c.c", "how": "append", "as": "dict", "item": item},
        {"op": "insert", "path": "c.c", "how": "append", "as": "dict", "item": poison_item},
        {"op": "insert", "path": "c.c", "how": "insert", "as": "config", "item": bad_item},
        {"op": "validate"},
    ]
    return spec, ops


def _explicit_items(tree, shape):
    """the complete tree with every key of the innermost list's items spelled out (so that the set-up load works
    whatever the defaults of the item schema are)"""
    tree = copy.deepcopy(tree)
    nodes = [tree]
    for t in shape:
        nodes = [n["c"] for n in nodes] if t in ("sub", "ctype") else [i for n in nodes for i in n["c"]]
    for n in nodes:
        n.update({"od": 7, "vf": 1})
    return tree


def _plan(tier):
    """-> iterator of (key, spec, steps) in a fixed order"""
    quick = tier == "quick"
    shapes2 = all_shapes(2)
    n = 0
    # X1: load_tree on a fresh configuration: deficiency x level x flag variant
    for shape in shapes2 + DEEP_SHAPES:
        d = len(shape)
        for ld in range(d + 1):
            if quick and d >= 2 and ld < d - 1:
                continue
            if d <= 1 or not quick:
                flags = FLAG_VARIANTS
            elif d == 2:
                flags = [FLAG_VARIANTS[0], ("self", True, False), ("child", True, False)]
            else:
                flags = [FLAG_VARIANTS[0]] + ([("self", True, False)] if ld == d else [])
            for dname, *_ in DEFICIENCIES:
                for flag in flags:
                    if not _valid_flag(flag, ld, d):
                        continue
                    spec, tree, _ = make_case(shape, ld, dname, flag)
                    yield (shape, ld, dname, flag, "fresh", "load_tree"), spec, [_load_step("load_tree", tree)]
    # X2: documents in every format and load(file)
    doc_ops = ["loads:" + f for f in FORMATS] + ["load:json", "load:xml"]
    for shape in shapes2:
        d = len(shape)
        for ld in range(d + 1):
            if quick and d >= 2 and ld < d:
                continue
            for dname, *_ in DEFICIENCIES:
                for flag in (FLAG_VARIANTS[0], ("self", True, False), ("child", True, False)):
                    if not _valid_flag(flag, ld, d) or (quick and d >= 2 and flag[0] != "none"):
                        continue
                    spec, tree, _ = make_case(shape, ld, dname, flag)
                    if not quick or (d <= 1 and flag[0] == "none"):
                        ops = doc_ops
                    else:
                        n += 1
                        ops = [doc_ops[n % len(doc_ops)]]
                    for op in ops:
                        yield (shape, ld, dname, flag, "fresh", op), spec, [_load_step(op, tree)]
    # X3: prior states
    for shape in shapes2:
        d = len(shape)
        for ld in range(d + 1):
            if quick and d >= 2 and ld < d - 1:
                continue
            for dname, *_ in DEFICIENCIES:
                for flag in (FLAG_VARIANTS[0], ("self", True, False)):
                    if quick and d >= 2 and flag[0] != "none":
                        continue
                    spec, tree, complete = make_case(shape, ld, dname, flag)
                    _, failing, _ = make_case(shape, 0, "empty:rs", flag)
                    priors = [("complete", complete), ("failed", failing)]
                    if quick and d >= 2:
                        n += 1
                        priors = [priors[n % 2]]
                    for prior, first in priors:
                        yield ((shape, ld, dname, flag, prior, "load_tree"), spec,
                               [_load_step("load_tree", first), _load_step("load_tree", tree)])
    # B: insertion into configuration lists
    hows = [(h, a) for h in ("append", "insert", "setitem", "extend", "iadd", "assign") for a in ("dict", "config")]
    for shape in [("listS",), ("listT",), ("sub", "listS"), ("ctype", "listT"), ("listS", "listT"),
                  ("listT", "listS")]:
        d = len(shape)
        for dname, kind, *_ in DEFICIENCIES:
            if kind == "level-absent":
                continue
            for fi, flag in enumerate((FLAG_VARIANTS[0], ("self", True, False), ("self", False, None),
                                       ("self", False, True))):
                spec, tree, complete = make_case(shape, d, dname, flag)
                holder = tree       # -> the deficient innermost item
                path = ""
                for i, t in enumerate(shape):
                    path = (path + "." if path else "") + "c"
                    holder = holder["c"] if t in ("sub", "ctype") else holder["c"][1]
                    if t in ("listS", "listT") and i < d - 1:
                        path += "[0]"
                setup = _load_step("load_tree", _explicit_items(complete, shape))
                forms = hows
                if quick and (d == 2 or fi >= 2):
                    n += 1
                    forms = [hows[n % len(hows)], hows[(n + 5) % len(hows)]]
                for how, as_ in forms:
                    yield ((shape, dname, flag, how, as_), spec,
                           [setup, {"op": "insert", "path": path, "how": how, "as": as_, "item": holder}])
    # R: re-insertion of item configurations that were edited in place while (or after) the list held them
    for shape in REINSERT_SHAPES:
        spec, setup_tree, path = reinsert_case(shape)
        for how in REINSERT_HOWS:
            for ename, disabled_item, edit in REINSERT_EDITS:
                tree = setup_tree
                if disabled_item:
                    tree = copy.deepcopy(setup_tree)
                    _innermost_lists(tree, shape)[0][1] = {"enabled": False}   # exempt while switched off
                step = {"op": "reinsert", "path": path, "how": how, "edit": edit}
                if "foreign" in how:
                    step["tree"] = tree
                yield ("reinsert", shape, how, ename), spec, [_load_step("load_tree", tree), step]
    # H: items the list HOLDS become invalid in place; whole-configuration operations must notice
    for shape in REINSERT_SHAPES:
        spec, setup_tree, path = reinsert_case(shape)
        kind = "%s@%s" % ({"listS": "schema", "listT": "configtype"}[shape[-1]],
                          "root" if len(shape) == 1 else ("nested" if shape[0] in ("sub", "ctype") else "outer-item"))
        item_tree = _innermost_lists(setup_tree, shape)[0][0]
        for ename, disabled_item, edit in REINSERT_EDITS:
            for appended in (False, True):
                tree = setup_tree
                new_item = item_tree
                if disabled_item:
                    new_item = {"enabled": False}
                    if not appended:
                        tree = copy.deepcopy(setup_tree)
                        _innermost_lists(tree, shape)[0][1] = {"enabled": False}
                for call in HELD_CALLS:
                    steps = [_load_step("load_tree", tree)]
                    if appended:
                        steps.append({"op": "insert", "path": path, "how": "append", "as": "config" if not
                                      disabled_item else "dict", "item": new_item})
                    steps.append({"op": "held", "path": path, "index": -1 if appended else 1, "edit": edit,
                                  "call": call, "kind": kind})
                    yield ("held", shape, ename, appended, call), spec, steps
    # C: histories
    spec, ops = _history_ops()
    seqs = [[a] for a in range(len(ops))] + [[a, b] for a in range(len(ops)) for b in range(len(ops))]
    for seq in seqs:
        yield ("history", tuple(seq)), spec, [ops[i] for i in seq]


HELD_CALLS = ["validate", "collect", "load_tree-empty", "load_tree-sibling"] + ["loads-empty:" + f for f in FORMATS]
REINSERT_SHAPES = [("listS",), ("listT",), ("sub", "listS"), ("ctype", "listT"), ("listS", "listT"), ("listT", "listS")]
REINSERT_HOWS = ["pop-append", "pop-insert", "append-held", "insert-held", "setitem-other", "setitem-self",
                 "slice-same", "slice-reorder", "slice-tuple", "extend-held", "iadd-held", "assign-list",
                 "extend-proxy", "iadd-proxy", "slice-proxy", "assign-proxy",
                 "extend-foreign-proxy", "iadd-foreign-proxy", "slice-foreign-proxy", "assign-foreign-proxy"]
REINSERT_EDITS = [        # (name, item starts switched off?, edit)
    ("none", False, None),
    ("cross-field", False, {"kind": "assign", "key": "ri", "value": 50}),          # ri > od: only sv.x objects
    ("schema-validator", False, {"kind": "assign", "key": "od", "value": 666}),
    ("clear:rl", False, {"kind": "clear", "key": "rl"}),
    ("clear:rd", False, {"kind": "clear", "key": "rd"}),
    ("clear:rlp", False, {"kind": "clear", "key": "rlp"}),
    ("clear:rdp", False, {"kind": "clear", "key": "rdp"}),
    ("switch-on-unset", True, {"kind": "assign", "key": "enabled", "value": True}),   # required fields never set
]


def _innermost_lists(tree, shape):
    nodes = [tree]
    for t in shape[:-1]:
        nodes = [n["c"] for n in nodes] if t in ("sub", "ctype") else [i for n in nodes for i in n["c"]]
    return [n["c"] for n in nodes]


def reinsert_case(shape):
    """-> (spec, complete set-up tree, path of the innermost list): the item schema (innermost level) has a
    feature flag (default on) and the cross-field validator ri <= od besides the usual fields"""
    d = len(shape)

    def block(i):
        child = {"k": "c", "t": shape[i], "b": block(i + 1)} if i < d else None
        return level_block(i, flag_default=True if i == d else None, child=child, cross=(i == d))

    def tree(i):
        t = copy.deepcopy(COMPLETE)
        if i < d:
            t["c"] = tree(i + 1) if shape[i] in ("sub", "ctype") else [tree(i + 1), tree(i + 1)]
        return t

    path = ""
    for i, t in enumerate(shape):
        path = (path + "." if path else "") + "c"
        if t in ("listS", "listT") and i < d - 1:
            path += "[0]"
    return block(0), tree(0), path


def rac(tier: str, seed: int) -> dict:
    quick = tier == "quick"
    rec = Recorder(
        PID,
        rule="one case = (schema shape, level and kind of deficiency, feature-flag variant, prior state, operation); "
             "every level has required Int/String/List/Dict/Bool/List(Int)/Dict(Str,Int) fields, a default, two "
             "field validators and two schema validators (instrumented, registered with validator()); deficiency = "
             "one of %d ways a level of the tree / the defaults can fall short (missing, empty, rejected by a field "
             "or schema validator, level empty/absent, bad default); flag variant = no flag or a FeatureFlagField on "
             "the deficient level / its child / its parent x (default, value in tree); plus insertions into "
             "configuration lists and operation histories; after EVERY step validate() and "
             "validate(collect_errors=True) are compared and a returning validate() is checked too; cases whose "
             "set-up is impossible count as trivial" % len(DEFICIENCIES),
        bound="shapes: every path over {sub, make_type, ListField(Schema), ListField(config type)} of depth <= 2 "
              "(21) + 12 of depth 3; 24 deficiencies; 13 flag variants; load_tree, loads in json/yaml/xml/bson/"
              "pickle, load(file); priors fresh / after a complete load / after a failed load; 6 insertion forms x "
              "dict/config items on 6 list shapes; re-insertion of held / popped item objects edited in place: %d "
              "forms x %d edits (cross-field validator, schema validator, required list/dict emptied in place, "
              "switched-off item with unset required fields switched on) x 6 list shapes; the same edits on an item the list "
              "HOLDS (loaded or appended) followed by validate / validate(collect) / load_tree({}) / load_tree of a "
              "sibling key / loads of an empty document in 5 formats; histories of <= 3 operations out of 18 on one schema.  quick: "
              "full flag cross on depth <= 1, 3 flag variants and the two innermost levels on depth 2, all formats "
              "on depth <= 1 and one rotating format on the innermost level of depth 2, histories of length <= 2 exhaustive + 300 sampled "
              "of length 3; thorough: full crosses until the budget is used" % (len(REINSERT_HOWS), len(REINSERT_EDITS)),
        tier=tier, seed=seed)
    with sandbox() as tmp:
        n = 0
        for key, spec, steps in _plan(tier):
            if not quick and rec.out_of_time():
                break
            _run_case(rec, tmp, key, spec, steps, sample=(n % 1499 == 0))
            n += 1
        spec, ops = _history_ops()
        triples = [[a, b, c] for a in range(len(ops)) for b in range(len(ops)) for c in range(len(ops))]
        rec.rng.shuffle(triples)
        for seq in triples[:300] if quick else triples:
            if not quick and rec.out_of_time():
                break
            _run_case(rec, tmp, ("history", tuple(seq)), spec, [ops[i] for i in seq], sample=(n % 1499 == 0))
            n += 1
    return rec.result(exhaustive=False)


def replay(case: dict) -> dict:
    """re-run case['steps'] on a fresh configuration of case['spec']; fails iff the LAST step yields a finding for
    case['obligation'] (with case['witness_key'] if given)"""
    with sandbox() as tmp:
        res = run_scenario(case["spec"], case["steps"], tmp)
    _, outcome, findings = res[-1]
    mine = [f for f in findings if f["ob"] == case["obligation"]
            and (case.get("witness_key") is None or f["wkey"] == case["witness_key"])]
    return {"fails": bool(mine), "expected": "no finding for %s after the last step" % case["obligation"],
            "observed": {"outcome": outcome, "findings": [f["what"] for f in mine][:3]}}
