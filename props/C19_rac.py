"""C19 bounded run-time contract driver: a failed save never damages the file on disk; a successful one writes
exactly the bytes serialisation produced and loads back into an equal configuration.

Every case runs the real ``Config.save`` on a destination that holds previous content, with a fault injected at one
of the steps serialisation goes through (or none), under two spies: ``Config.dumps`` is wrapped to see whether and
what serialisation returned, ``builtins.open`` is wrapped to see which files are opened for writing.  Both spies and
all fault patches are ``unittest.mock.patch`` context managers on the real classes and are restored afterwards.

Clauses (oracle = the property statement):
  save/raise:C19.dest-untouched     serialisation failed => destination exists iff it did, bytes identical, and it was
                                    never opened for writing
  save/post:C19.exact-bytes         save returned => destination bytes == what dumps returned (== an independent
                                    cfg.dumps(fmt, **kw) when the output is deterministic); serialisation succeeded
                                    => save does not fail
  load/post:C19.loads-back          a fresh configuration of the same schema/key file loaded from the written file
                                    equals the saved one
Two further scenario classes use the same clauses as a disjunction (raise + untouched, or saved + loads back equal):
  key-file histories                save; give the root / a sub-configuration / a config type another key file (or use a
                                    sub-configuration on its own first, or move it between roots); change a secret; save
                                    again; a fresh configuration naming the key files in force must load every secret
  destination names                 names containing $VAR / ${VAR} / %VAR% / ~ / ./ / a/../ / spaces ...: the bytes are in the
                                    file the name denotes after ~ expansion only, load(the same name) is equal
                                    (save/post:C19.writes-exactly-the-serialised-bytes)
  key-file failure histories        malformed key file -> failed save/load -> repair/regenerate -> rotate, on one
                                    configuration: failed saves leave the destination untouched, the others load back
  values outside a format's domain  control / non-XML characters, YAML look-alikes, odd string keys and dynamic field names,
                                    NaN/inf, huge ints, non-plain objects, deep nesting, in typed / untyped / dynamic
                                    holders, every format, over a previous file: raise + untouched, or loads back equal
                                    (non-string map keys and tuple values are not enumerated: outside C02's plain-data
                                    domain, coerced as the codecs document; loads-back is read modulo that domain)
  document boundary sweep           text of every length 0..300 (all document lengths modulo 256), values beginning or
                                    ending with whitespace / control bytes, at the root and nested, every format:
                                    file == dumps, Config.load(file) and loads(file bytes) equal the saved one
  un-encodable values               bytes, bytearray, Decimal, Fraction, complex, set, frozenset, range, date, datetime,
                                    custom object, generator held in AnyField / dynamic fields / untyped lists and dicts
                                    (also nested), every format (minus the codecs' documented coercions): a save that
                                    "succeeds" by writing something that loads back differently violates loads-back
"""
import contextlib
import json
import os
from unittest import mock

from pyvc.raclib import Recorder, sandbox

PID = "C19"
FORMATS = ["json", "yaml", "xml", "bson", "pickle"]
FORMAT_CLASS = {"json": ("json", "JsonConfigFormat"), "yaml": ("yaml", "YamlConfigFormat"),
                "xml": ("xml", "XmlConfigFormat"), "bson": ("bson", "BsonConfigFormat"),
                "pickle": ("pickle", "PickleConfigFormat")}
OB_UNTOUCHED = "core:Config.save/raise:C19.dest-untouched"
OB_EXACT = "core:Config.save/post:C19.exact-bytes"
OB_LOADS_BACK = "core:Config.load/post:C19.loads-back"


class InjectedAbort(BaseException):
    """a non-Exception fault (like KeyboardInterrupt) raised from inside serialisation"""


# ---------------------------------------------------------------------------------------------------------------
# Equality of configurations (persistent field values, recursively)
# ---------------------------------------------------------------------------------------------------------------

_MISSING = ("<missing>",)


def _leaf_eq(a, b):
    """type-strict, NaN-aware structural equality; iterative, so nesting depth is not limited by the interpreter stack"""
    from cincoconfig.fields import DigestValue
    stack = [(a, b)]
    while stack:
        a, b = stack.pop()
        if isinstance(a, DigestValue) or isinstance(b, DigestValue):
            if not (isinstance(a, DigestValue) and isinstance(b, DigestValue) and a.salt == b.salt
                    and a.digest == b.digest and a.algorithm is b.algorithm):
                return False
            continue
        if type(a) is not type(b):
            return False
        if isinstance(a, float):
            if not ((a != a and b != b) or (a == b and (a != 0 or str(a) == str(b)))):
                return False
        elif isinstance(a, (list, tuple)):
            if len(a) != len(b):
                return False
            stack.extend(zip(a, b))
        elif isinstance(a, dict):
            if set(a) != set(b):
                return False
            stack.extend((a[k], b[k]) for k in a)
        elif a != b:
            return False
    return True


def _show(v):
    from cincoconfig.core import Config
    from cincoconfig.fields import DigestValue
    if isinstance(v, Config):
        return "<Config %s>" % ",".join(v._data)
    if isinstance(v, DigestValue):
        return "<Digest %s>" % str(v)[:24]
    try:
        return repr(v)[:100]
    except RecursionError:
        return "<deeply nested %s>" % type(v).__name__


def diff_value(field, a, b, path, out):
    """a: saved value, b: re-loaded value; appends (path, expected, observed) for every difference"""
    from cincoconfig.core import AnyField, Config
    from cincoconfig.fields import DictField, ListField, SecureField
    if isinstance(a, Config) or isinstance(b, Config):
        if isinstance(a, Config) and isinstance(b, Config):
            diff_config(a, b, path, out)
        else:
            out.append((path, _show(a), _show(b)))
        return
    if isinstance(field, ListField) and field.field is not None and not isinstance(field.field, AnyField):
        if a is None and isinstance(b, list) and not b:
            return  # normalisation named by the property: an unset typed list may come back empty
        if isinstance(a, list) and isinstance(b, list) and type(a) is type(b) and len(a) == len(b):
            for i, (x, y) in enumerate(zip(a, b)):
                diff_value(field.field, x, y, "%s[%d]" % (path, i), out)
            return
    if isinstance(field, DictField) and field._use_proxy:
        if a is None and isinstance(b, dict) and not b:
            return  # an unset typed dict may come back empty
        if isinstance(a, dict) and isinstance(b, dict) and type(a) is type(b) and set(a) == set(b):
            for k in a:
                diff_value(field.value_field, a[k], b[k], "%s[%r]" % (path, k), out)
            return
    if isinstance(field, SecureField) and a == "" and b is None:
        return  # an empty secret comes back unset
    if not _leaf_eq(a, b):
        out.append((path, _show(a), _show(b)))


def diff_config(c1, c2, path="", out=None):
    from cincoconfig.core import InstanceMethodFieldMixin, VirtualFieldMixin
    out = [] if out is None else out
    if type(c1) is not type(c2) or c1._schema is not c2._schema:
        out.append((path or "<root>", "config of %r" % type(c1).__name__, "config of %r" % type(c2).__name__))
        return out
    fields = dict(c1._schema._fields)
    fields.update(c1._fields)
    fields.update(c2._fields)
    for key, field in fields.items():
        if isinstance(field, (VirtualFieldMixin, InstanceMethodFieldMixin)):
            continue
        sub = (path + "." + key) if path else key
        a, b = c1._data.get(key, _MISSING), c2._data.get(key, _MISSING)
        if a is _MISSING or b is _MISSING:
            if a is not b:
                out.append((sub, _show(a), _show(b)))
            continue
        diff_value(field, a, b, sub, out)
    return out


# ---------------------------------------------------------------------------------------------------------------
# Configurations
# ---------------------------------------------------------------------------------------------------------------

KEY_BYTES = bytes(range(32))
OTHER_KEY_BYTES = bytes(range(100, 132))


def _boom_field(exc_kind):
    from cincoconfig.core import Field, ValidationError

    class BoomField(Field):
        """a user-defined field whose encoding fails"""

        def to_basic(self, cfg, value):
            if exc_kind == "RuntimeError":
                raise RuntimeError("injected to_basic fault")
            if exc_kind == "ValidationError":
                raise ValidationError(cfg, self, "injected to_basic fault")
            if exc_kind == "OSError":
                raise OSError(5, "injected to_basic fault")
            raise InjectedAbort("injected to_basic fault")

    return BoomField(default="x")


def _bad_getter(cfg):
    raise ZeroDivisionError("injected getter fault")


KINDS = ["flat", "nested", "dynamic", "secure-xor", "secure-aes"]
DEFECT_KINDS = ["typed-list-of-bytes", "nested-schema-secure"]  # classes where C02's known defects surface
DETERMINISTIC = {"flat", "nested", "dynamic", "secure-xor", "typed-list-of-bytes", "nested-schema-secure"}


def build(kind, tmp, variant=1, boom=None, keyfile=None, bad_method=False, bad_virtual=False):
    """-> (cfg, fresh) : a populated configuration and a factory of fresh configurations of the same schema/key file"""
    import cincoconfig as cc
    from cincoconfig.core import Config

    def put_boom(schema, pos):
        if boom and boom[0] == pos:
            schema.boom = _boom_field(boom[1])

    s = cc.Schema(dynamic=(kind == "dynamic"))
    kf = None
    put_boom(s, "first")
    if kind in ("flat", "dynamic"):
        s.name = cc.StringField(default="n")
        s.count = cc.IntField(default=1, min=0)
        s.ratio = cc.FloatField()
        s.flag = cc.BoolField(default=False)
        s.blob = cc.BytesField()
        s.items = cc.ListField()
        s.opts = cc.DictField()

        def populate(c):
            c.name = ["first", "second <&> \u00e9"][variant]
            c.count = [7, 2 ** 40][variant]
            c.ratio = [0.5, -0.0][variant]
            c.flag = bool(variant)
            c.blob = [b"\x00\x01", b"\xff" * 40][variant]
            c.items = [[1, "a"], [1, "1", True, None, 1.5, [2], {"k": []}]][variant]
            c.opts = [{"a": 1}, {"a": {"b": [None, "x"]}, "c": ""}][variant]
            if kind == "dynamic":
                c.extra = [5, "five"][variant]
                c.more = {"a": [1, None], "v": variant}
    elif kind == "nested":
        s.title = cc.StringField(default="t")
        s.mode = cc.ApplicationModeField(default="production")
        s.db.host = cc.HostnameField(default="localhost")
        s.db.port = cc.PortField(default=5432)
        s.db.auth.user = cc.StringField()
        s.db.auth.pw = cc.ChallengeField("sha256")
        put_boom(s.db.auth, "nested")
        s.tags = cc.ListField(cc.StringField())
        s.limits = cc.DictField(cc.StringField(), cc.IntField())
        item = cc.Schema()
        item.url = cc.UrlField()
        item.retries = cc.IntField(default=3)
        put_boom(item, "list-item")
        s.hooks = cc.ListField(item)
        ts = cc.Schema()
        ts.level = cc.LogLevelField(default="info")
        ts.ratio = cc.FloatField(default=1.0)
        put_boom(ts, "configtype")
        s.t = cc.make_type(ts, "T")
        s.upper = cc.VirtualField(_bad_getter if bad_virtual else (lambda c: c.title.upper()))
        s.hello = cc.InstanceMethodField(lambda c: "hello " + c.title)

        def populate(c):
            c.title = ["one", "two"][variant]
            c.mode = ["development", "production"][variant]
            c.db.host = ["db.example.com", "10.0.0.1"][variant]
            c.db.port = [1, 65535][variant]
            c.db.auth.user = ["u", "admin"][variant]
            c.db.auth.pw = ["pw0", "correct horse"][variant]
            c.tags = [["x"], ["a", "", "true"]][variant]
            c.limits = [{"a": 1}, {"cpu": 4, "mem": 2 ** 33}][variant]
            h1, h2 = item(), item()
            h1.url = "http://a.example/x?y=1&z=2"
            h2.url = "https://b.example/"
            h2.retries = 0
            c.hooks = [[h1], [h1, h2]][variant]
            c.t.level = ["debug", "error"][variant]
            c.t.ratio = [0.25, float("inf")][variant]
    elif kind in ("secure-xor", "secure-aes"):
        method = "rot13" if bad_method else ("xor" if kind == "secure-xor" else "aes")
        kf = os.path.join(tmp, "keys", kind + ".key")
        s.user = cc.StringField(default="u")
        s.password = cc.SecureField(method=method)
        ts = cc.Schema()
        ts.token = cc.SecureField(method="best" if kind == "secure-aes" and not bad_method else method)
        s.t = cc.make_type(ts, "Tok")
        item = cc.Schema()
        item.name = cc.StringField()
        item.secret = cc.SecureField(method=method)
        s.accounts = cc.ListField(item)

        def populate(c):
            c.user = ["u0", "u1"][variant]
            c.password = ["hunter2", "p\u00e4ss w\u00f6rd " * 5][variant]
            c.t.token = ["tok0", "tok1"][variant]
            a = item()
            a.name = "acc"
            a.secret = ["s0", "s1"][variant]
            c.accounts = [a]
    elif kind == "typed-list-of-bytes":
        s.blobs = cc.ListField(cc.BytesField())

        def populate(c):
            c.blobs = [b"\xff\x00"]
    elif kind == "nested-schema-secure":
        kf = os.path.join(tmp, "keys", kind + ".key")
        s.db.password = cc.SecureField(method="xor")

        def populate(c):
            c.db.password = "secret"
    else:
        raise ValueError(kind)
    put_boom(s, "last")
    if keyfile is not None:
        kf = keyfile
    if kf is not None and keyfile is None and not os.path.exists(kf):
        os.makedirs(os.path.dirname(kf), exist_ok=True)
        with open(kf, "wb") as fp:
            fp.write(KEY_BYTES)

    def fresh():
        return Config(s, key_filename=kf) if kf else Config(s)

    cfg = fresh()
    populate(cfg)
    return cfg, fresh


# ---------------------------------------------------------------------------------------------------------------
# Faults: (id, kinds, formats, builder kwargs, cfg mutation, save kwargs / format override, patches)
# ---------------------------------------------------------------------------------------------------------------


def _raiser(exc):
    def raising(*_a, **_k):
        raise exc
    return raising


def _format_class(fmt):
    import importlib
    mod, cls = FORMAT_CLASS[fmt]
    return getattr(importlib.import_module("cincoconfig.formats." + mod), cls)


def _field_class(name):
    import cincoconfig
    return getattr(cincoconfig, name)


def _gen():
    return (i for i in ())


def faults():
    """-> list of dicts describing every injected fault, in a fixed order"""
    out = []

    def add(fid, kinds, formats=FORMATS, **spec):
        out.append(dict(id=fid, kinds=kinds, formats=list(formats), **spec))

    # 1. a field whose to_basic raises (user-defined field), at every position of the traversal
    for pos in ("first", "last", "nested", "list-item", "configtype"):
        for exc in ("RuntimeError", "ValidationError", "OSError", "BaseException"):
            add("to_basic-raises:%s:%s" % (pos, exc), ["nested"], build={"boom": (pos, exc)})
    # 2. the encoding of each built-in field class fails (patch on the real class)
    for kind, classes in (("flat", ["StringField", "IntField", "FloatField", "BoolField", "BytesField", "ListField", "DictField"]),
                          ("nested", ["HostnameField", "PortField", "ChallengeField", "UrlField", "ApplicationModeField",
                                      "LogLevelField"]),
                          ("dynamic", ["AnyField"]),
                          ("secure-xor", ["SecureField"]), ("secure-aes", ["SecureField"])):
        for cls in classes:
            add("patched-to_basic:" + cls, [kind], patch=("field", cls))
    # 3. unusable key file
    for kf in ("is-directory", "size-0", "size-31", "size-33", "missing-parent-dir"):
        add("keyfile:" + kf, ["secure-xor", "secure-aes"], keyfile=kf)
    # 4. encryption fails
    add("encrypt-raises:KeyFile.encrypt", ["secure-xor", "secure-aes"], patch=("keyfile-encrypt",))
    add("encrypt-raises:XorProvider.encrypt", ["secure-xor"], patch=("provider", "XorProvider"))
    add("encrypt-raises:AesProvider.encrypt", ["secure-aes"], patch=("provider", "AesProvider"))
    add("encrypt-raises:unknown-method", ["secure-xor", "secure-aes"], build={"bad_method": True})
    # 5. unknown format name / bad formatter option
    add("unknown-format:toml", ["flat", "secure-xor"], fmt_override="toml")
    add("unknown-format:empty", ["flat"], fmt_override="")
    add("unknown-format:uppercase", ["flat", "nested"], fmt_override="<upper>")
    add("bad-format-option", ["flat", "nested"], kw={"no_such_option": 1})
    # 6. a value outside the format's domain
    add("domain:object-in-untyped-list", ["flat"], ["json", "xml", "bson"], mutate=("items", "object"))
    add("domain:generator-in-untyped-list", ["flat"], mutate=("items", "generator"))
    add("domain:generator-deep-in-untyped-dict", ["flat"], mutate=("opts", "deep-generator"))
    add("domain:set-in-untyped-dict", ["flat"], ["json", "xml", "bson"], mutate=("opts", "set"))
    add("domain:bytes-in-untyped-list", ["flat"], ["json", "xml"], mutate=("items", "bytes"))
    add("domain:int-beyond-64-bit", ["flat"], ["bson"], mutate=("count", "2**70"))
    add("domain:key-not-an-xml-name", ["flat"], ["xml"], mutate=("opts", "bad-xml-key"))
    add("domain:non-xml-character", ["flat"], ["xml"], mutate=("name", "nul-char"))
    add("domain:generator-in-dynamic-field", ["dynamic"], mutate=("extra", "generator"))
    # 7. the formatter fails
    for exc in ("OSError", "ValueError", "MemoryError", "BaseException"):
        add("formatter-dumps-raises:" + exc, ["flat", "secure-aes"], patch=("formatter-dumps", exc))
    add("formatter-init-raises", ["flat"], patch=("formatter-init",))
    add("ConfigFormat.get-raises", ["flat"], patch=("format-get",))
    # 8. other steps
    add("to_tree-raises", ["flat", "nested"], patch=("to_tree",))
    add("virtual-getter-raises", ["nested"], build={"bad_virtual": True}, kw={"virtual": True})
    return out


FAULTS = {f["id"]: f for f in faults()}


def _exc(name):
    return {"OSError": OSError(28, "injected: no space left"), "ValueError": ValueError("injected"),
            "MemoryError": MemoryError("injected"), "BaseException": InjectedAbort("injected"),
            "RuntimeError": RuntimeError("injected")}[name]


@contextlib.contextmanager
def apply_patch(spec, fmt):
    """install one fault patch on the real classes; always restored"""
    from cincoconfig import encryption
    from cincoconfig.core import Config, ConfigFormat
    if spec is None:
        yield
        return
    what = spec[0]
    if what == "field":
        target = mock.patch.object(_field_class(spec[1]), "to_basic", _raiser(RuntimeError("injected to_basic fault")))
    elif what == "keyfile-encrypt":
        target = mock.patch.object(encryption.KeyFile, "encrypt", _raiser(encryption.EncryptionError("injected")))
    elif what == "provider":
        target = mock.patch.object(getattr(encryption, spec[1]), "encrypt", _raiser(encryption.EncryptionError("injected")))
    elif what == "formatter-dumps":
        target = mock.patch.object(_format_class(fmt), "dumps", _raiser(_exc(spec[1])))
    elif what == "formatter-init":
        target = mock.patch.object(_format_class(fmt), "__init__", _raiser(TypeError("injected: format is not available")))
    elif what == "format-get":
        target = mock.patch.object(ConfigFormat, "get", _raiser(KeyError("injected")))
    elif what == "to_tree":
        target = mock.patch.object(Config, "to_tree", _raiser(RuntimeError("injected to_tree fault")))
    else:
        raise ValueError(spec)
    with target:
        yield


def bad_keyfile(tmp, how):
    d = os.path.join(tmp, "badkeys")
    os.makedirs(d, exist_ok=True)
    path = os.path.join(d, how)
    if how == "is-directory":
        os.makedirs(path, exist_ok=True)
    elif how.startswith("size-"):
        with open(path, "wb") as fp:
            fp.write(b"k" * int(how[5:]))
    elif how == "missing-parent-dir":
        path = os.path.join(d, "no-such-dir", "key")
    return path


def mutate(cfg, spec):
    if spec is None:
        return
    key, what = spec
    value = {"object": lambda: [1, object()], "generator": lambda: ["a", _gen()],
             "deep-generator": lambda: {"a": [{"b": _gen()}]}, "set": lambda: {"s": {1, 2}},
             "bytes": lambda: [b"raw"], "2**70": lambda: 2 ** 70, "bad-xml-key": lambda: {"not a name": 1},
             "nul-char": lambda: "a\x00b"}[what]()
    if what == "generator" and key == "extra":
        value = _gen()
    cfg[key] = value


# ---------------------------------------------------------------------------------------------------------------
# One evaluation
# ---------------------------------------------------------------------------------------------------------------

MAX_VIOLATIONS_PER_OBLIGATION = 150
PRIORS = ["previous-save", "garbage-longer", "empty-file", "absent"]
WRITE_FLAGS = set("wax+")


def read_state(path):
    path = os.path.expanduser(path)
    if not os.path.lexists(path):
        return None
    with open(path, "rb") as fp:
        return fp.read()


def set_prior(dest, prior, kind, fmt, tmp):
    """put the previous content at the destination; 'previous-save' is a real earlier save of the same kind"""
    real = os.path.expanduser(dest)
    os.makedirs(os.path.dirname(real), exist_ok=True)
    if os.path.lexists(real):
        os.remove(real)
    if prior == "absent":
        return
    if prior == "previous-save":
        base_kind = kind if kind in KINDS else "flat"
        old, _fresh = build(base_kind, tmp, variant=0)
        old.save(dest, fmt)
        if not read_state(dest):
            raise RuntimeError("driver: previous save produced nothing")
        return
    with open(real, "wb") as fp:
        fp.write(b"" if prior == "empty-file" else b"\x00\xffPREVIOUS CONFIGURATION\n" * 400)


def run_save(cfg, dest, fmt, kw, patch_spec):
    """the real Config.save under the two spies -> dict(raised, dumped, opened)"""
    import builtins
    from cincoconfig.core import Config
    dumped, opened = [], []
    real_dumps, real_open = Config.dumps, builtins.open

    def dumps_spy(self, *a, **k):
        res = real_dumps(self, *a, **k)
        dumped.append(res)
        return res

    def open_spy(file, mode="r", *a, **k):
        opened.append((file, mode))
        return real_open(file, mode, *a, **k)

    raised = None
    with mock.patch.object(Config, "dumps", dumps_spy), mock.patch.object(builtins, "open", open_spy):
        with apply_patch(patch_spec, fmt):
            try:
                cfg.save(dest, fmt, **kw)
            except BaseException as err:  # noqa: B902 - every exceptional exit counts, including non-Exception ones
                raised = err
    return {"raised": raised, "dumped": dumped, "opened": opened}


def same_file(a, b):
    try:
        return os.path.realpath(os.path.expanduser(os.fspath(a))) == os.path.realpath(os.path.expanduser(os.fspath(b)))
    except TypeError:
        return False


def evaluate(tmp, case):
    """run one case; -> dict(outcome, failures=[(obligation, what)], nontrivial)"""
    kind, fmt, prior = case["kind"], case["fmt"], case["prior"]
    fault = FAULTS[case["fault"]] if case.get("fault") else {}
    kw = dict(case.get("kw") or {})
    kw.update(fault.get("kw") or {})
    bkw = dict(fault.get("build") or {})
    if "boom" in bkw:
        bkw["boom"] = tuple(bkw["boom"])
    if fault.get("keyfile"):
        bkw["keyfile"] = bad_keyfile(tmp, fault["keyfile"])
    dest = case.get("dest") or os.path.join(tmp, "out", "config." + fmt)
    if dest.startswith("~"):
        dest = dest  # expanded by save/load themselves against the sandbox $HOME
    set_prior(dest, prior, kind, fmt, tmp)
    cfg, fresh = build(kind, tmp, variant=case.get("variant", 1), **bkw)
    mutate(cfg, fault.get("mutate"))
    use_fmt = fault.get("fmt_override", fmt)
    if use_fmt == "<upper>":
        use_fmt = fmt.upper()
    before = read_state(dest)
    res = run_save(cfg, dest, use_fmt, kw, fault.get("patch"))
    after = read_state(dest)
    failures = []
    raised, dumped = res["raised"], res["dumped"]
    err = "%s: %s" % (type(raised).__name__, str(raised)[:80]) if raised is not None else None
    if raised is not None and not dumped:
        outcome = "serialisation-failed"
        if after != before:
            failures.append((OB_UNTOUCHED, "save failed with %s but the destination changed: before %s, after %s"
                             % (err, _short(before), _short(after))))
        wr = [(str(f), m) for f, m in res["opened"] if same_file(f, dest) and WRITE_FLAGS & set(m)]
        if wr:
            failures.append((OB_UNTOUCHED, "save failed with %s but the destination was opened for writing: %s" % (err, wr)))
    elif raised is not None:
        outcome = "failed-after-serialisation"
        failures.append((OB_EXACT, "serialisation succeeded (%d bytes) but save raised %s; destination now %s"
                         % (len(dumped[0]), err, _short(after))))
    else:
        outcome = "saved"
        if len(dumped) != 1 or after != dumped[0]:
            failures.append((OB_EXACT, "destination holds %s but serialisation produced %s"
                             % (_short(after), _short(dumped[0] if dumped else None))))
        if kind in DETERMINISTIC and not fault:
            again = cfg.dumps(use_fmt, **kw)
            if after != again:
                failures.append((OB_EXACT, "destination holds %s but cfg.dumps(%r, **%r) is %s"
                                 % (_short(after), use_fmt, kw, _short(again))))
        if not fault and not kw.get("virtual") and kw.get("sensitive_mask") is None:
            fmt_opts = {k: v for k, v in kw.items() if k not in ("virtual", "sensitive_mask")}
            c2 = fresh()
            try:
                if fmt_opts:
                    with open(os.path.expanduser(dest), "rb") as fp:
                        c2.loads(fp.read(), use_fmt, **fmt_opts)
                else:
                    c2.load(dest, use_fmt)
            except Exception as lerr:
                failures.append((OB_LOADS_BACK, "loading the saved file failed: %s: %s" % (type(lerr).__name__, str(lerr)[:100])))
            else:
                diffs = diff_config(cfg, c2)
                if diffs:
                    failures.append((OB_LOADS_BACK, "re-loaded configuration differs at %s: saved %s, loaded %s" % diffs[0]))
    return {"outcome": outcome, "failures": failures, "error": err}


def _short(b):
    if b is None:
        return "<absent>"
    return "%d bytes %r" % (len(b), b[:24])


# ---------------------------------------------------------------------------------------------------------------
# Histories: sequences of successful and failing saves on one destination
# ---------------------------------------------------------------------------------------------------------------

HISTORY_OPS = ["ok0", "ok1", "fault"]
HISTORY_FAULTS = ["patched-to_basic:StringField", "domain:generator-in-untyped-list", "formatter-dumps-raises:OSError",
                  "unknown-format:toml", "to_tree-raises"]


def evaluate_history(tmp, case):
    """ops on one destination; after every step the file must equal the last successfully serialised content"""
    fmt, ops = case["fmt"], case["ops"]
    dest = os.path.join(tmp, "out", "history." + fmt)
    set_prior(dest, "absent", "flat", fmt, tmp)
    expected = None
    failures = []
    for i, op in enumerate(ops):
        fault = FAULTS[op[6:]] if op.startswith("fault:") else {}
        cfg, _fresh = build("flat", tmp, variant=1 if op == "ok1" else 0)
        mutate(cfg, fault.get("mutate"))
        res = run_save(cfg, dest, fault.get("fmt_override", fmt), dict(fault.get("kw") or {}), fault.get("patch"))
        if res["raised"] is None:
            expected = res["dumped"][0] if res["dumped"] else None
        elif res["dumped"]:
            failures.append((OB_EXACT, "step %d (%s): serialisation succeeded but save raised %r" % (i, op, res["raised"])))
            break
        now = read_state(dest)
        if now != expected:
            ob = OB_UNTOUCHED if res["raised"] is not None else OB_EXACT
            failures.append((ob, "step %d (%s) of %s: destination holds %s, expected the last saved content %s"
                             % (i, op, ops, _short(now), _short(expected))))
            break
    return {"outcome": "history", "failures": failures, "error": None}


# ---------------------------------------------------------------------------------------------------------------
# One configuration object saved several times: every successful save leaves its destination holding exactly the
# bytes serialised by that save, whatever the object was saved to before and whatever happened to the files since
# ---------------------------------------------------------------------------------------------------------------

OBJECT_HISTORIES = [
    # (label, steps); a step is ("save", dest-name), ("clobber", dest-name, how), ("edit",)
    ("other-existing-destination", [("save", "a"), ("clobber", "b", "older-save"), ("save", "b")]),
    ("same-destination-overwritten-by-someone-else", [("save", "a"), ("clobber", "a", "garbage"), ("save", "a")]),
    ("same-destination-replaced-by-older-save", [("save", "a"), ("clobber", "a", "older-save"), ("save", "a")]),
    ("same-destination-truncated", [("save", "a"), ("clobber", "a", "empty"), ("save", "a")]),
    ("same-destination-deleted", [("save", "a"), ("clobber", "a", "absent"), ("save", "a")]),
    ("two-destinations-alternating", [("save", "a"), ("save", "b"), ("clobber", "a", "garbage"), ("save", "a"), ("clobber", "b", "older-save"), ("save", "b")]),
    ("edit-and-back", [("save", "a"), ("edit",), ("save", "a"), ("edit",), ("clobber", "a", "older-save"), ("save", "a")]),
    ("unchanged-resave-of-an-untouched-file", [("save", "a"), ("save", "a"), ("save", "a")]),
]


def evaluate_object_history(tmp, case):
    fmt = case["fmt"]
    steps = dict(OBJECT_HISTORIES)[case["object_history"]]
    kind = case.get("kind", "flat")
    cfg, fresh = build(kind, tmp, variant=1)
    dests = {n: os.path.join(tmp, "out", "object-%s.%s" % (n, fmt)) for n in ("a", "b")}
    os.makedirs(os.path.join(tmp, "out"), exist_ok=True)
    failures = []
    edits = 0
    for i, step in enumerate(steps):
        if step[0] == "clobber":
            dest, how = dests[step[1]], step[2]
            if how == "older-save":
                set_prior(dest, "previous-save", kind, fmt, tmp)
            elif how == "absent":
                set_prior(dest, "absent", kind, fmt, tmp)
            else:
                set_prior(dest, "empty-file" if how == "empty" else "garbage-longer", kind, fmt, tmp)
            continue
        if step[0] == "edit":
            edits += 1
            other, _f = build(kind, tmp, variant=edits % 2)
            cfg.load_tree(other.to_tree())
            continue
        dest = dests[step[1]]
        res = run_save(cfg, dest, fmt, {}, None)
        if res["raised"] is not None:
            failures.append((OB_EXACT, "step %d of %s: a save that should succeed raised %r" % (i, case["object_history"], res["raised"])))
            break
        now = read_state(dest)
        expected = res["dumped"][0] if res["dumped"] else None
        if now != expected:
            failures.append((OB_EXACT, "step %d (%s) of %s: save returned but the destination holds %s, not the bytes just serialised %s"
                             % (i, step, case["object_history"], _short(now), _short(expected))))
            break
        back = fresh()
        try:
            back.load(dest, fmt)
        except Exception as err:  # noqa: BLE001
            failures.append((OB_LOADS_BACK, "step %d of %s: the file just saved does not load: %r" % (i, case["object_history"], err)))
            break
        d = diff_config(cfg, back)
        if d:
            failures.append((OB_LOADS_BACK, "step %d of %s: the file just saved loads back different: %s" % (i, case["object_history"], d[:3])))
            break
    return {"outcome": "object-history", "failures": failures, "error": None}


# ---------------------------------------------------------------------------------------------------------------
# Save histories with key-file changes: the file written last must be encrypted, at every depth, with the key file
# the configuration names at the time of that save, so a fresh configuration naming the same key files loads it back
# ---------------------------------------------------------------------------------------------------------------

KEYFILE_NAMES = ["k1", "k2", "k3"]


def _keyfiles(tmp):
    """fixed, pairwise different key files (the default ~/.cincokey of the sandbox is a fourth one)"""
    d = os.path.join(tmp, "history-keys")
    os.makedirs(d, exist_ok=True)
    paths = {}
    for i, name in enumerate(KEYFILE_NAMES):
        paths[name] = os.path.join(d, name)
        with open(paths[name], "wb") as fp:
            fp.write(bytes(range(140 + 30 * i, 172 + 30 * i)))
    return paths


def _secret_schema(class_keyfile=None):
    """secrets at the root, in nested sub-configurations (depth 2), in a config type and in list items (+ their
    nested sub-configuration); xor and aes mixed"""
    import cincoconfig as cc
    s = cc.Schema()
    s.user = cc.StringField(default="u")
    s.password = cc.SecureField(method="xor")
    s.sub.password = cc.SecureField(method="xor")
    s.sub.deep.password = cc.SecureField(method="aes")
    ts = cc.Schema()
    ts.token = cc.SecureField(method="xor")
    s.t = cc.make_type(ts, "Tok", key_filename=class_keyfile)
    item = cc.Schema()
    item.secret = cc.SecureField(method="best")
    item.inner.secret = cc.SecureField(method="xor")
    s.accounts = cc.ListField(item)
    return s, item


def _fill_secrets(c, item, tag):
    c.password = "root-" + tag
    c.sub.password = "sub-" + tag
    c.sub.deep.password = "deep-" + tag
    c.t.token = "tok-" + tag
    acc = item()
    acc.secret = "item-" + tag
    acc.inner.secret = "inner-" + tag
    c.accounts = [acc]


def _change(c, what):
    if what == "root":
        c.password = "root-changed"
    elif what == "sub":
        c.sub.password = "sub-changed"
    elif what == "deep":
        c.sub.deep.password = "deep-changed"
    elif what == "configtype":
        c.t.token = "tok-changed"
    elif what == "item":
        c.accounts[0].secret = "item-changed"
    elif what == "item-inner":
        c.accounts[0].inner.secret = "inner-changed"
    elif what != "none":
        raise ValueError(what)


def keyfile_histories():
    """name -> (tmp, fmt, dest, keys) -> (saved config, fresh config naming the key files in force at the last save).
    Every history ends *before* its last save; the caller performs that save under the spies."""
    from cincoconfig.core import Config
    out = {}

    def root_rekey(change):
        def run(tmp, fmt, dest, k):
            s, item = _secret_schema()
            c = Config(s, key_filename=k["k1"])
            _fill_secrets(c, item, "a")
            c.save(dest, fmt)
            c._key_filename = k["k2"]
            _change(c, change)
            return c, Config(s, key_filename=k["k2"])
        return run
    for change in ("root", "deep", "item-inner", "configtype", "none"):
        out["root-rekey/change-" + change] = root_rekey(change)

    def sub_rekey(change):
        def run(tmp, fmt, dest, k):
            s, item = _secret_schema()
            c = Config(s, key_filename=k["k1"])
            _fill_secrets(c, item, "a")
            c.save(dest, fmt)
            c.sub._key_filename = k["k3"]
            _change(c, change)
            fresh = Config(s, key_filename=k["k1"])
            fresh.sub._key_filename = k["k3"]
            return c, fresh
        return run
    for change in ("sub", "deep", "none"):
        out["sub-schema-rekey/change-" + change] = sub_rekey(change)

    def configtype_rekey(tmp, fmt, dest, k):
        s, item = _secret_schema()
        c = Config(s, key_filename=k["k1"])
        _fill_secrets(c, item, "a")
        c.save(dest, fmt)
        c.t._key_filename = k["k3"]
        _change(c, "configtype")
        fresh = Config(s, key_filename=k["k1"])
        fresh.t._key_filename = k["k3"]
        return c, fresh
    out["configtype-rekey/change-configtype"] = configtype_rekey

    def configtype_class_keyfile(tmp, fmt, dest, k):
        s, item = _secret_schema(class_keyfile=k["k3"])  # make_type(..., key_filename=k3): named by the type itself
        c = Config(s, key_filename=k["k1"])
        _fill_secrets(c, item, "a")
        c.save(dest, fmt)
        c._key_filename = k["k2"]
        _change(c, "configtype")
        return c, Config(s, key_filename=k["k2"])
    out["configtype-class-keyfile+root-rekey"] = configtype_class_keyfile

    def sub_used_then_root_rekey(tmp, fmt, dest, k):
        s, item = _secret_schema()
        c = Config(s, key_filename=k["k1"])
        _fill_secrets(c, item, "a")
        for part in (c.sub, c.sub.deep, c.t, c.accounts[0], c.accounts[0].inner):
            part.dumps(fmt)  # every sub-configuration has used the key file of the moment
        c.sub.save(dest + ".sub", fmt)
        c.save(dest, fmt)
        c._key_filename = k["k2"]
        return c, Config(s, key_filename=k["k2"])
    out["sub-used-first-then-root-rekey"] = sub_used_then_root_rekey

    def rekey_twice(tmp, fmt, dest, k):
        s, item = _secret_schema()
        c = Config(s, key_filename=k["k1"])
        _fill_secrets(c, item, "a")
        c.save(dest, fmt)
        c._key_filename = k["k2"]
        c.save(dest, fmt)
        c._key_filename = k["k3"]
        _change(c, "deep")
        return c, Config(s, key_filename=k["k3"])
    out["root-rekey-twice"] = rekey_twice

    def default_then_named(tmp, fmt, dest, k):
        s, item = _secret_schema()
        c = Config(s)
        _fill_secrets(c, item, "a")
        c.save(dest, fmt)
        c._key_filename = k["k2"]
        return c, Config(s, key_filename=k["k2"])
    out["default-keyfile-then-named"] = default_then_named

    def named_then_unset(tmp, fmt, dest, k):
        s, item = _secret_schema()
        c = Config(s, key_filename=k["k1"])
        _fill_secrets(c, item, "a")
        c.save(dest, fmt)
        c._key_filename = None
        _change(c, "sub")
        return c, Config(s)
    out["named-then-unset"] = named_then_unset

    def sub_named_then_unset(tmp, fmt, dest, k):
        s, item = _secret_schema()
        c = Config(s, key_filename=k["k1"])
        _fill_secrets(c, item, "a")
        c.sub._key_filename = k["k3"]
        c.save(dest, fmt)
        c.sub._key_filename = None
        return c, Config(s, key_filename=k["k1"])
    out["sub-schema-named-then-unset"] = sub_named_then_unset

    def standalone_item_used_first(tmp, fmt, dest, k):
        s, item = _secret_schema()
        c = Config(s, key_filename=k["k1"])
        _fill_secrets(c, item, "a")
        c.save(dest, fmt)
        solo = item()
        solo.secret = "solo-item"
        solo.inner.secret = "solo-inner"
        solo.dumps(fmt)  # used on its own (names no key file), then put into the list of a root that names one
        c.accounts.append(solo)
        return c, Config(s, key_filename=k["k1"])
    out["standalone-item-used-first-then-attached"] = standalone_item_used_first

    def standalone_sub_used_first(tmp, fmt, dest, k):
        s, item = _secret_schema()
        c = Config(s, key_filename=k["k1"])
        _fill_secrets(c, item, "a")
        c.save(dest, fmt)
        sub = s._fields["sub"]()
        sub.password = "solo-sub"
        sub.deep.password = "solo-deep"
        sub.save(dest + ".sub", fmt)  # saved on its own first, then assigned to the root
        c.sub = sub
        return c, Config(s, key_filename=k["k1"])
    out["standalone-sub-saved-first-then-attached"] = standalone_sub_used_first

    def moved_between_roots(tmp, fmt, dest, k):
        s, item = _secret_schema()
        a = Config(s, key_filename=k["k1"])
        _fill_secrets(a, item, "a")
        a.save(dest, fmt)
        b = Config(s, key_filename=k["k2"])
        _fill_secrets(b, item, "b")
        b.sub = a.sub  # a sub-configuration that was saved under one root moves to a root naming another key file
        b.accounts = list(a.accounts)
        return b, Config(s, key_filename=k["k2"])
    out["sub-and-items-moved-to-root-with-other-keyfile"] = moved_between_roots
    return out


def evaluate_keyfile_history(tmp, case):
    fmt = case["fmt"]
    dest = os.path.join(tmp, "out", "keyfiles." + fmt)
    set_prior(dest, "absent", "flat", fmt, tmp)
    cfg, fresh = keyfile_histories()[case["keyfile_history"]](tmp, fmt, dest, _keyfiles(tmp))
    before = read_state(dest)
    res = run_save(cfg, dest, fmt, {}, None)
    return _judge_saved_or_untouched(res, cfg, fresh, dest, fmt, before, "after the key-file history")


def _judge_saved_or_untouched(res, cfg, fresh, dest, fmt, before, context):
    """the disjunction of the statement: the save raised and left the destination untouched, or it succeeded, wrote
    what serialisation produced and the file loads back into an equal configuration"""
    after = read_state(dest)
    raised, dumped = res["raised"], res["dumped"]
    err = "%s: %s" % (type(raised).__name__, str(raised)[:80]) if raised is not None else None
    failures = []
    if raised is not None and not dumped:
        outcome = "serialisation-failed"
        if after != before:
            failures.append((OB_UNTOUCHED, "save failed with %s but the destination changed: before %s, after %s"
                             % (err, _short(before), _short(after))))
        wr = [(str(f), m) for f, m in res["opened"] if same_file(f, dest) and WRITE_FLAGS & set(m)]
        if wr:
            failures.append((OB_UNTOUCHED, "save failed with %s but the destination was opened for writing: %s" % (err, wr)))
    elif raised is not None:
        outcome = "failed-after-serialisation"
        failures.append((OB_EXACT, "serialisation succeeded (%d bytes) but save raised %s; destination now %s"
                         % (len(dumped[0]), err, _short(after))))
    else:
        outcome = "saved"
        if len(dumped) != 1 or after != dumped[0]:
            failures.append((OB_EXACT, "destination holds %s but serialisation produced %s"
                             % (_short(after), _short(dumped[0] if dumped else None))))
        try:
            fresh.load(dest, fmt)
        except Exception as lerr:
            failures.append((OB_LOADS_BACK, "save succeeded %s but loading the file failed: %s: %s"
                             % (context, type(lerr).__name__, str(lerr)[:90])))
        else:
            diffs = diff_config(cfg, fresh)
            if diffs:
                failures.append((OB_LOADS_BACK, "save succeeded %s but the file loads back differently at %s: saved %s, loaded %s"
                                 % ((context,) + diffs[0])))
    return {"outcome": outcome, "failures": failures, "error": err}


# ---------------------------------------------------------------------------------------------------------------
# Values a format cannot encode, held where any value is accepted: the save either fails cleanly or loads back equal
# ---------------------------------------------------------------------------------------------------------------


class Custom:
    """a user object with value equality (importable, so pickle / YAML python tags can rebuild it)"""

    def __init__(self, a):
        self.a = a

    def __eq__(self, other):
        return type(other) is Custom and other.a == self.a

    def __hash__(self):
        return hash(("Custom", self.a))

    def __repr__(self):
        return "Custom(%r)" % (self.a,)


# Scope: C02/C04 claim the round trip only for values representable in the format (plain data, string-keyed maps), and
# the third-party codecs document some coercions (tuple -> array, non-string scalar keys -> strings in json/bson,
# Decimal -> double and naive datetime -> aware datetime in bson).  Those are therefore not enumerated: no tuples, no
# non-string map keys, no Decimal / datetime for bson.
UNENCODABLE_SKIP = {("decimal", "bson"), ("datetime-naive", "bson")}


def unencodable_values():
    """kind -> () -> value"""
    import datetime
    import decimal
    import fractions
    return {
        "bytes": lambda: b"\xff\x00raw", "bytearray": lambda: bytearray(b"ab"), "decimal": lambda: decimal.Decimal("1.10"),
        "fraction": lambda: fractions.Fraction(1, 3), "complex": lambda: 1 + 2j, "set": lambda: {1, 2},
        "frozenset": lambda: frozenset({"a"}), "range": lambda: range(3), "date": lambda: datetime.date(2020, 1, 2),
        "datetime-naive": lambda: datetime.datetime(2020, 1, 2, 3, 4, 5), "custom-object": lambda: Custom([1, "x"]),
        "generator": _gen,
    }


HOLDERS = ["any-field", "dynamic-field", "untyped-list", "untyped-dict", "list-in-list", "dict-in-list-in-dict",
           "any-field-in-sub-schema", "list-of-schema-item-any-field"]


def build_holder(holder, value):
    """-> (cfg holding the value, fresh cfg of the same schema)"""
    import cincoconfig as cc
    s = cc.Schema(dynamic=(holder == "dynamic-field"))
    s.name = cc.StringField(default="n")
    s.any = cc.AnyField()
    s.items = cc.ListField()
    s.opts = cc.DictField()
    s.sub.any = cc.AnyField()
    item = cc.Schema()
    item.any = cc.AnyField()
    s.rows = cc.ListField(item)
    c = s()
    c.name = "holder"
    if holder == "any-field":
        c.any = value
    elif holder == "dynamic-field":
        c.extra = value
    elif holder == "untyped-list":
        c.items = [1, value]
    elif holder == "untyped-dict":
        c.opts = value if isinstance(value, dict) else {"k": value}
    elif holder == "list-in-list":
        c.items = [[value], "x"]
    elif holder == "dict-in-list-in-dict":
        c.opts = {"a": [{"b": value}]}
    elif holder == "any-field-in-sub-schema":
        c.sub.any = value
    elif holder == "list-of-schema-item-any-field":
        row = item()
        row.any = value
        c.rows = [row]
    else:
        raise ValueError(holder)
    return c, s()


def evaluate_unencodable(tmp, case):
    import warnings
    fmt, prior = case["fmt"], case["prior"]
    dest = os.path.join(tmp, "out", "unencodable." + fmt)
    set_prior(dest, prior, "flat", fmt, tmp)
    cfg, fresh = build_holder(case["holder"], unencodable_values()[case["unencodable"]]())
    before = read_state(dest)
    with warnings.catch_warnings():
        warnings.simplefilter("ignore")  # e.g. bson's MissingTimezoneWarning
        res = run_save(cfg, dest, fmt, {}, None)
        return _judge_saved_or_untouched(res, cfg, fresh, dest, fmt, before,
                                         "with a %s in %s" % (case["unencodable"], case["holder"]))


# ---------------------------------------------------------------------------------------------------------------
# Document boundary sweep: the serialised size runs through a whole period of every format's length/header bytes,
# and values begin/end with whitespace or control bytes; file == dumps, and load(file) / loads(file bytes) give back
# an equal configuration
# ---------------------------------------------------------------------------------------------------------------

SWEEP_SIZES = range(0, 301)
EDGE_STRINGS = {"leading-space": " x", "trailing-space": "x ", "space-only": " ", "newline": "\n", "newline-both-ends": "\nx\n",
                "tabs": "\t\t", "crlf": "\r\n", "vertical-tab": "\x0b", "form-feed": "\x0c", "nul": "\x00",
                "nul-both-ends": "\x00x\x00"}
_WS = b" \t\n\r\x0b\x0c"
_SWEEP_SCHEMAS = {}


def _sweep_schema(tmp):
    """one schema for the whole sweep of a run"""
    import cincoconfig as cc
    if tmp not in _SWEEP_SCHEMAS:
        _SWEEP_SCHEMAS.clear()
        s = cc.Schema()
        s.text = cc.StringField()
        s.blob = cc.BytesField()
        s.sub.text = cc.StringField()
        s.sub.blob = cc.BytesField()
        _SWEEP_SCHEMAS[tmp] = s
    return _SWEEP_SCHEMAS[tmp]


def _byte_class(b):
    if bytes([b]) in [_WS[i:i + 1] for i in range(len(_WS))]:
        return "whitespace"
    if b < 0x20 or b == 0x7f:
        return "control"
    return "other"


def sweep_cases():
    for fmt in FORMATS:
        for place in ("root", "nested"):
            for n in SWEEP_SIZES:
                yield {"sweep": "size", "fmt": fmt, "place": place, "n": n}
            for kind in EDGE_STRINGS:  # no format is exempted: the clause is a disjunction (raise + untouched | loads back)
                yield {"sweep": "edge", "fmt": fmt, "place": place, "edge": kind}
            for b in range(256):
                yield {"sweep": "edge", "fmt": fmt, "place": place, "edge": "bytes:%d" % b}


def evaluate_sweep(tmp, case):
    from cincoconfig.core import Config
    fmt = case["fmt"]
    schema = _sweep_schema(tmp)
    cfg = Config(schema)
    target = cfg if case["place"] == "root" else cfg.sub
    if case["sweep"] == "size":
        target.text = "x" * case["n"]
    elif case["edge"].startswith("bytes:"):
        b = int(case["edge"][6:])
        target.blob = bytes([b]) + b"mid" + bytes([b])
    else:
        target.text = EDGE_STRINGS[case["edge"]]
    dest = os.path.join(tmp, "out", "sweep." + fmt)  # the previous content is the previous document of the sweep
    os.makedirs(os.path.dirname(dest), exist_ok=True)
    before = read_state(dest)
    res = run_save(cfg, dest, fmt, {}, None)
    out = _judge_saved_or_untouched(res, cfg, Config(schema), dest, fmt, before, "(%s)" % _sweep_label(case))
    data = read_state(dest) or b""
    if out["outcome"] == "saved":
        again = Config(schema)
        try:
            again.loads(data, fmt)
        except Exception as lerr:
            out["failures"].append((OB_LOADS_BACK, "save succeeded (%s) but loads(file bytes) failed: %s: %s"
                                    % (_sweep_label(case), type(lerr).__name__, str(lerr)[:90])))
        else:
            diffs = diff_config(cfg, again)
            if diffs:
                out["failures"].append((OB_LOADS_BACK, "save succeeded (%s) but loads(file bytes) differs at %s: saved %s, loaded %s"
                                        % ((_sweep_label(case),) + diffs[0])))
    # witness class: by the first / last byte of the document for the size sweep, by the kind of value for edge values
    if case["sweep"] == "size":
        lead, trail = (_byte_class(data[0]), _byte_class(data[-1])) if data else ("other", "other")
        if lead != "other":
            bucket = "leading-byte-is-" + lead
        elif trail != "other":
            bucket = "trailing-byte-is-" + trail
        else:
            bucket = "other-lengths"
        out["witness"] = "size-sweep:%s:%s" % (fmt, bucket)
        out["doc"] = "%d bytes, len%%256=%d, first byte 0x%02x" % (len(data), len(data) % 256, data[0] if data else 0)
        out["failures"] = [(ob, "%s [document: %s]" % (what, out["doc"])) for ob, what in out["failures"]]
    elif case["edge"].startswith("bytes:"):
        out["witness"] = "edge-bytes:%s:bytes-%s-at-both-ends" % (fmt, _byte_class(int(case["edge"][6:])))
    else:
        out["witness"] = "edge-bytes:%s:%s" % (fmt, case["edge"])
    return out


def _sweep_label(case):
    if case["sweep"] == "size":
        return "%s text of %d characters, %s" % (case["place"], case["n"], case["fmt"])
    return "%s value %s, %s" % (case["place"], case["edge"], case["fmt"])


# ---------------------------------------------------------------------------------------------------------------
# Destination names: the bytes go to the file the name denotes after `~` expansion ONLY (no variable expansion, no
# normalisation beyond what open() does), and load(the same name) reads them back
# ---------------------------------------------------------------------------------------------------------------

OB_WRITES = "core:Config.save/post:C19.writes-exactly-the-serialised-bytes"
DEST_NAMES = [  # (kind, name template; {ext} is the format name; relative names are relative to the case's work dir)
    ("dollar-variable", "cfg-$STAGE.{ext}"),
    ("dollar-brace-variable", "cfg-${{STAGE}}.{ext}"),
    ("percent-variable", "cfg-%STAGE%.{ext}"),
    ("dollar-home-prefix", "$HOME/x.{ext}"),
    ("contains-dollar", "price$.a$b.{ext}"),
    ("contains-percent", "100%.{ext}"),
    ("tilde-home", "~/sub/x.{ext}"),
    ("tilde-not-leading", "x~/y~.{ext}"),
    ("dot-slash", "./x.{ext}"),
    ("parent-segment", "a/../x.{ext}"),
    ("spaces", "my config  file.{ext}"),
    ("trailing-dot", "x.{ext}."),
    ("upper-case-extension", "X.{EXT}"),
    ("absolute-with-dollar-variable", "{abs}/abs-$STAGE.{ext}"),
]


@contextlib.contextmanager
def _chdir(path):
    old = os.getcwd()
    os.chdir(path)
    try:
        yield
    finally:
        os.chdir(old)


def _tree_state(root):
    """path -> bytes of every regular file under root"""
    out = {}
    for d, _dirs, files in os.walk(root):
        for f in files:
            path = os.path.join(d, f)
            with open(path, "rb") as fp:
                out[os.path.realpath(path)] = fp.read()
    return out


def evaluate_destination(tmp, case):
    from pyvc.raclib import environ
    fmt, kind = case["fmt"], case["dest_kind"]
    work = os.path.join(tmp, "destnames", fmt, kind)
    os.makedirs(work, exist_ok=True)
    template = dict(DEST_NAMES)[kind]
    name = template.format(ext=fmt, EXT=fmt.upper(), abs=work)
    failures = []
    with environ(STAGE="prod", HOME=tmp), _chdir(work):
        expected = os.path.expanduser(name)                      # the only processing save/load document
        expanded = os.path.expanduser(os.path.expandvars(name))  # what a shell-like expansion would denote instead
        for path in {expected, expanded}:
            parent = os.path.dirname(path)
            if parent:
                os.makedirs(parent, exist_ok=True)
        if os.path.dirname(name) == "a/..":
            os.makedirs("a", exist_ok=True)
        decoy = None
        if os.path.realpath(expanded) != os.path.realpath(expected):
            decoy = os.path.realpath(expanded)
            with open(decoy, "wb") as fp:
                fp.write(b"PRE-EXISTING FILE UNDER THE VARIABLE-EXPANDED NAME\n")
        if os.path.lexists(expected):
            os.remove(expected)
        cfg, fresh = build("flat", tmp, variant=1)
        before = _tree_state(tmp)
        res = run_save(cfg, name, fmt, {}, None)
        after = _tree_state(tmp)
        err = "%s: %s" % (type(res["raised"]).__name__, str(res["raised"])[:80]) if res["raised"] is not None else None
        target = os.path.realpath(expected)
        changed = sorted(p for p in set(before) | set(after) if before.get(p) != after.get(p))
        if res["raised"] is not None:
            outcome = "failed"
            failures.append((OB_WRITES, "save(%r, %r) of a valid configuration failed: %s" % (name, fmt, err)))
        else:
            outcome = "saved"
            dumped = res["dumped"][0] if res["dumped"] else None
            if after.get(target) != dumped or dumped != cfg.dumps(fmt):
                failures.append((OB_WRITES, "save(%r): the file %s holds %s but dumps returned %s"
                                 % (name, os.path.relpath(target, tmp), _short(after.get(target)), _short(dumped))))
            if decoy is not None and after.get(decoy) != before.get(decoy):
                failures.append((OB_WRITES, "save(%r) changed the pre-existing file under the variable-expanded name %s: now %s"
                                 % (name, os.path.relpath(decoy, tmp), _short(after.get(decoy)))))
            others = [os.path.relpath(p, tmp) for p in changed if p != target]
            if others:
                failures.append((OB_WRITES, "save(%r) wrote files other than %s: %s" % (name, os.path.relpath(target, tmp), others[:3])))
            try:
                fresh().load(name, fmt)
            except Exception as lerr:
                failures.append((OB_LOADS_BACK, "load(%r) of the file just saved under the same name failed: %s: %s"
                                 % (name, type(lerr).__name__, str(lerr)[:90])))
            else:
                c2 = fresh()
                c2.load(name, fmt)
                diffs = diff_config(cfg, c2)
                if diffs:
                    failures.append((OB_LOADS_BACK, "load(%r) differs at %s: saved %s, loaded %s" % ((name,) + diffs[0])))
    return {"outcome": outcome, "failures": failures, "error": err}


# ---------------------------------------------------------------------------------------------------------------
# Key-file failure histories on ONE configuration: malformed key file -> failed save (destination untouched) ->
# repaired / regenerated -> save loads back -> rotated -> save loads back with the CURRENT key file
# ---------------------------------------------------------------------------------------------------------------

KEYFILE_FAILURE_HISTORIES = [  # steps; a 'sub:' prefix applies the step to the sub-configuration's own key file
    ["bad31", "repair", "rotate"],
    ["bad33", "regenerate", "rotate"],
    ["bad0", "repair", "rotate"],
    ["badload31", "repair", "rotate"],
    ["badload0", "regenerate", "rotate"],
    ["bad31", "bad0", "repair", "rotate"],
    ["bad33", "badload31", "regenerate", "rotate"],
    ["badload33", "bad31", "repair", "rotate", "rotate"],
    ["rotate", "bad31", "rotate"],
    ["sub:bad31", "sub:repair", "sub:rotate"],
    ["sub:bad0", "sub:regenerate", "sub:rotate"],
    ["sub:badload33", "sub:repair", "sub:rotate"],
    ["sub:bad31", "bad33", "sub:repair", "repair", "rotate", "sub:rotate"],
]


def evaluate_keyfile_failure_history(tmp, case):
    import cincoconfig as cc
    from cincoconfig.core import Config
    fmt, method, steps = case["fmt"], case["method"], case["steps"]
    work = os.path.join(tmp, "keyfail", fmt, method, "-".join(x.replace(":", "_") for x in steps))
    os.makedirs(work, exist_ok=True)
    keys = {"root": os.path.join(work, "root.key"), "sub": os.path.join(work, "sub.key")}
    uses_sub = any(x.startswith("sub:") for x in steps)
    counter = [0]

    def valid_key():
        counter[0] += 1
        return bytes((17 * counter[0] + i) % 256 for i in range(32))

    def write(path, data):
        with open(path, "wb") as fp:
            fp.write(data)

    s = cc.Schema()
    s.user = cc.StringField(default="u")
    s.password = cc.SecureField(method=method)
    s.sub.password = cc.SecureField(method=method)
    ts = cc.Schema()
    ts.token = cc.SecureField(method=method)
    s.t = cc.make_type(ts, "Tok")

    def named(c):
        if uses_sub:
            c.sub._key_filename = keys["sub"]
        return c

    def set_secrets(c, tag):
        c.password = "root-" + tag
        c.sub.password = "sub-" + tag
        c.t.token = "tok-" + tag

    write(keys["root"], valid_key())
    write(keys["sub"], valid_key())
    cfg = named(Config(s, key_filename=keys["root"]))  # the ONE configuration (and its KeyFile objects) of the history
    dest = os.path.join(work, "config." + fmt)
    failures = []
    trace = []

    def save_step(label, i):
        before = read_state(dest)
        res = run_save(cfg, dest, fmt, {}, None)
        out = _judge_saved_or_untouched(res, cfg, named(Config(s, key_filename=keys["root"])), dest, fmt, before,
                                        "at step %d (%s) of %s" % (i, label, ">".join(steps)))
        trace.append("%s:%s" % (label, out["outcome"]))
        failures.extend(out["failures"])
        return out["outcome"]

    set_secrets(cfg, "0")
    if save_step("initial", 0) != "saved":
        return {"outcome": "initial-save-failed", "failures": failures, "error": ";".join(trace), "effective": False}
    effective = True  # every step had the outcome the state of the key files implies
    valid = {"root": True, "sub": True}

    def usable():
        return valid["root"] and (valid["sub"] or not uses_sub)

    for i, step in enumerate(steps, 1):
        scope, op = ("sub", step[4:]) if step.startswith("sub:") else ("root", step)
        path = keys[scope]
        if op.startswith("badload"):
            write(path, b"k" * int(op[7:]))
            valid[scope] = False
            before = read_state(dest)
            try:
                cfg.load(dest, fmt)
                loaded = "loaded"
            except Exception:
                loaded = "load-failed"
            trace.append("%s:%s" % (step, loaded))
            effective = effective and loaded == "load-failed"
            if read_state(dest) != before:
                failures.append((OB_UNTOUCHED, "step %d (%s): a load changed the destination" % (i, step)))
            set_secrets(cfg, str(i))  # a failed load may have replaced some values: define them again
            continue
        if op.startswith("bad"):
            write(path, b"k" * int(op[3:]))
            valid[scope] = False
        elif op == "repair":
            write(path, valid_key())
            valid[scope] = True
        elif op == "regenerate":
            os.remove(path)  # the library generates a new key file on the next use
            valid[scope] = True
        elif op == "rotate":
            write(path, valid_key())  # a DIFFERENT valid 32-byte key
            valid[scope] = True
        else:
            raise ValueError(step)
        set_secrets(cfg, str(i))
        outcome = save_step(step, i)
        effective = effective and outcome == ("saved" if usable() else "serialisation-failed")
    return {"outcome": "history", "failures": failures[:2], "error": ";".join(trace), "effective": effective}


# ---------------------------------------------------------------------------------------------------------------
# Values outside a format's domain (or only lossily representable), over an existing previous file: the save raises
# and leaves the destination byte-identical, or it succeeds and load() parses the file into an equal configuration.
# Every kind is run against every format.  Not enumerated, by triage: non-string map keys and tuple values - they are
# outside "plain data" (string-keyed maps, lists), which C02 names as the domain; their coercion (key -> string, tuple ->
# list) is the documented behaviour of the codecs, and C19's "loads back equal" is read modulo that domain.  Every
# string-key kind and every string / number / None value kind is kept.
# ---------------------------------------------------------------------------------------------------------------


def _deep(n, kind):
    v = "leaf"
    for _ in range(n):
        v = [v] if kind == "list" else {"k": v}
    return v


def outside_domain_kinds():
    """kind -> (category, () -> value); categories decide which holders apply"""
    nan, inf = float("nan"), float("inf")
    kinds = {}
    for label, text in (("ansi-escape", "\x1b[0m"), ("nul", "a\x00b"), ("backspace", "\x08"), ("vertical-tab", "a\x0bb"),
                        ("form-feed", "\x0c"), ("noncharacter-fffe", "a\ufffe"), ("lone-surrogate", "a\ud800b"),
                        ("carriage-return", "a\rb"), ("crlf", "a\r\nb"), ("del-7f", "\x7f"), ("c1-control-85", "a\x85b"),
                        ("looks-like-bool", "yes"), ("looks-like-null", "null"), ("looks-like-float", "1e3"),
                        ("looks-like-octal", "0o7"), ("looks-like-tilde-null", "~"), ("looks-like-date", "2021-01-01"),
                        ("looks-like-sexagesimal", "1:30"), ("looks-like-merge", "<<"), ("leading-bang", "!tag x"),
                        ("leading-ampersand", "&anchor x"), ("leading-star", "*alias"), ("colon-space", "a: b"),
                        ("space-hash", "a #b"), ("cdata-end", "]]>"), ("markup", "<a>&amp;</a>")):
        kinds["string:" + label] = ("string", (lambda text=text: text))
    for label, key in (("with-space", "max size"), ("leading-digit", "1st"), ("with-lt", "a<b"), ("empty", ""), ("xml", "xml"),
                       ("with-colon", "a:b"), ("like-root-tag", "config"), ("named-item", "item"), ("with-dot", "a.b"),
                       ("leading-dollar", "$set"), ("with-nul", "a\x00b"), ("colon-space", "a: b"), ("space-hash", "a #b"),
                       ("leading-bang", "!tag"), ("leading-ampersand", "&anchor"), ("leading-star", "*alias"),
                       ("leading-dash", "- item"), ("question", "? q"), ("looks-like-bool", "yes"), ("looks-like-null", "null"),
                       ("looks-like-int", "1"), ("type", "type")):
        kinds["key:" + label] = ("key", (lambda key=key: key))
    # NOT enumerated (coordinator's triage): non-string map keys (int/None/float/bool/tuple/bytes) and tuple values.  They
    # are outside "plain data" (string-keyed maps, lists): C02's statement names string-keyed maps and lists as the domain,
    # their coercion (key -> string, tuple -> list) is the documented behaviour of the codec the library hands the tree
    # to, and C19's "loads back into an equal configuration" is read modulo that domain.
    for label, num in (("nan", nan), ("inf", inf), ("-inf", -inf), ("-0.0", -0.0)):
        kinds["float:" + label] = ("float", (lambda num=num: num))
    for label, num in (("2^63", 2 ** 63), ("2^64", 2 ** 64), ("-2^63-1", -2 ** 63 - 1), ("2^70", 2 ** 70), ("10^400", 10 ** 400)):
        kinds["int:" + label] = ("int", (lambda num=num: num))
    kinds["bytes"] = ("any", lambda: b"\xff\x00raw")
    kinds["set"] = ("any", lambda: {1, 2})
    kinds["custom-object"] = ("any", lambda: Custom([1, "x"]))
    kinds["function"] = ("any", lambda: (lambda: 1))
    for n in (100, 900):
        kinds["nested-lists-depth-%d" % n] = ("deep", (lambda n=n: _deep(n, "list")))
        kinds["nested-maps-depth-%d" % n] = ("deep", (lambda n=n: _deep(n, "dict")))
    return kinds


OUTSIDE_HOLDERS = {
    "string": ["string-field", "any-field", "untyped-list", "untyped-dict-value", "dynamic-field-value"],
    "key": ["untyped-dict-key", "any-field-map-key", "map-in-list-key", "dynamic-field-name"],
    "float": ["float-field", "any-field", "untyped-list", "untyped-dict-value", "dynamic-field-value"],
    "int": ["int-field", "any-field", "untyped-list", "untyped-dict-value", "dynamic-field-value"],
    "any": ["any-field", "untyped-list", "untyped-dict-value", "dynamic-field-value"],
    "deep": ["any-field", "untyped-dict-value"],
}


def build_outside(holder, value):
    import cincoconfig as cc
    s = cc.Schema(dynamic=holder.startswith("dynamic"))
    s.name = cc.StringField(default="n")
    s.ratio = cc.FloatField()
    s.count = cc.IntField()
    s.any = cc.AnyField()
    s.items = cc.ListField()
    s.opts = cc.DictField()
    c = s()
    if holder == "string-field":
        c.name = value
    elif holder == "float-field":
        c.ratio = value
    elif holder == "int-field":
        c.count = value
    elif holder == "any-field":
        c.any = value
    elif holder == "untyped-list":
        c.items = ["first", value]
    elif holder == "untyped-dict-value":
        c.opts = {"k": value}
    elif holder == "dynamic-field-value":
        c.extra = value
    elif holder == "untyped-dict-key":
        c.opts = {value: 1, "other": 2}
    elif holder == "any-field-map-key":
        c.any = {value: "x"}
    elif holder == "map-in-list-key":
        c.items = [{value: None}]
    elif holder == "dynamic-field-name":
        setattr(c, value, 1)  # Config.__setattr__: a new field of a dynamic configuration
    else:
        raise ValueError(holder)
    return c, s()


def evaluate_outside(tmp, case):
    import warnings
    fmt = case["fmt"]
    category, make = outside_domain_kinds()[case["outside"]]
    dest = os.path.join(tmp, "out", "outside." + fmt)
    set_prior(dest, "previous-save", "flat", fmt, tmp)
    cfg, fresh = build_outside(case["holder"], make())
    before = read_state(dest)
    with warnings.catch_warnings():
        warnings.simplefilter("ignore")
        res = run_save(cfg, dest, fmt, {}, None)
        out = _judge_saved_or_untouched(res, cfg, fresh, dest, fmt, before, "with %s in %s" % (case["outside"], case["holder"]))
    out["input"] = "%s = %s" % (case["holder"], _show(make()))
    out["failures"] = [(ob, "%s [input: %s]" % (what, out["input"])) for ob, what in out["failures"]]
    return out


# ---------------------------------------------------------------------------------------------------------------
# Enumeration
# ---------------------------------------------------------------------------------------------------------------

SUCCESS_KW = {
    "json": [{}, {"pretty": False}, {"pretty": True}], "yaml": [{}, {"root_key": "CONFIG"}, {"root_key": ""}],
    "xml": [{}, {"root_tag": "settings"}], "bson": [{}], "pickle": [{}],
}


def cases(tier, rng):
    # successful saves
    for kind in KINDS + DEFECT_KINDS:
        for fmt in FORMATS:
            for kw in SUCCESS_KW[fmt]:
                for prior in PRIORS:
                    yield {"kind": kind, "fmt": fmt, "prior": prior, "kw": kw}
            if kind in ("nested", "secure-xor"):
                for kw in ({"virtual": True}, {"sensitive_mask": "*"}, {"sensitive_mask": "<hidden>", "virtual": True}):
                    yield {"kind": kind, "fmt": fmt, "prior": "garbage-longer", "kw": kw}
            yield {"kind": kind, "fmt": fmt, "prior": "previous-save", "kw": {}, "dest": "~/home-relative/config." + fmt}
            yield {"kind": kind, "fmt": fmt, "prior": "previous-save", "kw": {}, "variant": 0}
    # failing saves
    for fid, fault in FAULTS.items():
        for kind in fault["kinds"]:
            for fmt in fault["formats"]:
                for prior in PRIORS:
                    yield {"kind": kind, "fmt": fmt, "prior": prior, "fault": fid}
                yield {"kind": kind, "fmt": fmt, "prior": "previous-save", "fault": fid, "dest": "~/home-relative/config." + fmt}
    # histories of length 3 (exhaustive over ok0/ok1/fault with a rotating fault), every format
    n = 0
    for fmt in FORMATS:
        for a in HISTORY_OPS:
            for b in HISTORY_OPS:
                for c in HISTORY_OPS:
                    ops = []
                    for op in (a, b, c):
                        if op == "fault":
                            applicable = [f for f in HISTORY_FAULTS if fmt in FAULTS[f]["formats"]]
                            op = "fault:" + applicable[n % len(applicable)]
                            n += 1
                        ops.append(op)
                    yield {"history": True, "fmt": fmt, "ops": ops}
    # one configuration object saved several times, every format
    for name, _steps in OBJECT_HISTORIES:
        for fmt in FORMATS:
            for kind in ("flat", "nested"):
                yield {"object_history": name, "fmt": fmt, "kind": kind}
    # save histories with key-file changes, every format
    for name in keyfile_histories():
        for fmt in FORMATS:
            yield {"keyfile_history": name, "fmt": fmt}
    # values a format cannot encode, in every holder that accepts any value, every format
    for kind in unencodable_values():
        for holder in HOLDERS:
            for fmt in FORMATS:
                if (kind, fmt) in UNENCODABLE_SKIP:
                    continue  # a documented coercion of the codec, outside the representable domain (see above)
                for prior in ("previous-save", "absent"):
                    yield {"unencodable": kind, "holder": holder, "fmt": fmt, "prior": prior}
    # destination names
    for kind, _template in DEST_NAMES:
        for fmt in FORMATS:
            yield {"dest_kind": kind, "fmt": fmt}
    # key-file failure histories on one configuration
    for steps in KEYFILE_FAILURE_HISTORIES:
        for method in ("xor", "aes"):
            for fmt in FORMATS:
                yield {"keyfile_failure_history": True, "steps": steps, "method": method, "fmt": fmt}
    # values outside the formats' domains: every kind x applicable holder x format
    for kind, (category, _make) in outside_domain_kinds().items():
        for holder in OUTSIDE_HOLDERS[category]:
            for fmt in FORMATS:
                yield {"outside": kind, "holder": holder, "fmt": fmt}
    # document boundary sweep
    yield from sweep_cases()
    if tier != "quick":
        while True:
            fmt = rng.choice(FORMATS)
            ops = []
            for _ in range(rng.randint(4, 8)):
                op = rng.choice(HISTORY_OPS)
                if op == "fault":
                    op = "fault:" + rng.choice([f for f in HISTORY_FAULTS if fmt in FAULTS[f]["formats"]])
                ops.append(op)
            yield {"history": True, "fmt": fmt, "ops": ops}


def witness_base(case, obligation):
    if case.get("object_history"):
        return "object-history:" + case["object_history"]
    if case.get("dest_kind"):
        return "destination-name:" + case["dest_kind"]
    if case.get("keyfile_failure_history"):
        return "keyfile-failure-history:" + ">".join(case["steps"])
    if case.get("keyfile_history"):
        return "keyfile-history:" + case["keyfile_history"].split("/change-")[0]
    if case.get("unencodable"):
        return "unencodable:" + case["unencodable"]
    if case.get("history"):
        return "history/" + ",".join(o.split(":")[0] for o in case["ops"])
    if obligation == OB_LOADS_BACK:
        return case["kind"]
    if case.get("fault"):
        return "%s/%s" % (case["fault"], case["prior"])
    return "%s/%s/%s" % (case["kind"], case["prior"], json.dumps(case.get("kw") or {}, sort_keys=True))


def dispatch(tmp, case):
    if case.get("outside"):
        return evaluate_outside(tmp, case)
    if case.get("dest_kind"):
        return evaluate_destination(tmp, case)
    if case.get("keyfile_failure_history"):
        return evaluate_keyfile_failure_history(tmp, case)
    if case.get("sweep"):
        return evaluate_sweep(tmp, case)
    if case.get("history"):
        return evaluate_history(tmp, case)
    if case.get("object_history"):
        return evaluate_object_history(tmp, case)
    if case.get("keyfile_history"):
        return evaluate_keyfile_history(tmp, case)
    if case.get("unencodable"):
        return evaluate_unencodable(tmp, case)
    return evaluate(tmp, case)


class _DetRandom:
    """deterministic stand-in for os.urandom (AES IVs, salts) so that a run is reproducible"""

    def __init__(self, seed):
        self.seed, self.n = seed, 0

    def __call__(self, size):
        import hashlib
        out = b""
        while len(out) < size:
            self.n += 1
            out += hashlib.sha256(b"C19-rac:%d:%d" % (self.seed, self.n)).digest()
        return out[:size]


def rac(tier: str, seed: int) -> dict:
    rec = Recorder(
        PID,
        rule="one case = one real Config.save (or a history of saves) on a destination with previous content, with "
             "one fault injected (or none) and spies on Config.dumps/builtins.open; enumerated: configuration kind x "
             "format x formatter options x previous content for successful saves, every applicable (fault, kind, "
             "format, previous content) for failing ones, all 27 ok0/ok1/fault histories per format, every key-file "
             "history x format, every (un-encodable value kind, holder, format, previous content), every destination "
             "name kind x format, every key-file failure history x xor/aes x format, every (outside-domain kind, "
             "applicable holder, format), the document "
             "boundary sweep (format x root/nested x text length 0..300, x edge strings, x 256 edge bytes); a fault case is "
             "non-trivial when the save really failed before serialisation returned; witness classes: fault/previous "
             "content, key-file history name, un-encodable value kind, suffixed @format unless all five formats fail",
        bound="7 configuration kinds (flat, nested depth 3 + typed list/dict + list of schemas + config type + "
              "virtual/instance method, dynamic, secrets xor, secrets aes/best with list of schemas and config type, "
              "2 classes of C02's former defects); 5 formats, 11 option values, 4 kinds of previous content (real "
              "previous save, longer garbage, empty file, absent) + a ~/ destination; %d faults (user field to_basic "
              "x 5 positions x 4 exception kinds incl. a BaseException, to_basic of 15 built-in field classes, 5 "
              "unusable key files, 4 encryption faults, unknown format names, bad formatter option, 9 out-of-domain "
              "values, formatter dumps/__init__/registry failures, to_tree, virtual getter); save histories: length 3 "
              "exhaustive (quick), length 4-8 seeded until the budget is used (thorough); 8 histories of ONE configuration "
              "object saved 2-3 times (to another destination that already holds an older configuration, to the same "
              "destination after someone else overwrote / truncated / deleted / replaced it, after edits) x flat/nested x "
              "format: after every save the destination holds the bytes just serialised and loads back equal; %d key-file histories "
              "(2-3 saves; secrets xor/aes/best at the root, depth 1-2 sub-schemas, config type, list items and their "
              "sub-schema; 3 named key files + the default one); %d un-encodable value kinds x %d holders x 2 previous "
              "contents (tuples, non-string map keys, Decimal/datetime for bson excluded: documented codec coercions "
              "outside the representable domain); boundary sweep: 5 formats x 2 places x (301 text lengths, so every "
              "document length modulo 256 incl. BSON length bytes 0x09-0x0d/0x20, + 11 strings beginning/ending with "
              "whitespace/control characters where representable + BytesField with each byte 0..255 at both ends), "
              "file == dumps, load(file) and loads(bytes) equal; %d destination-name kinds ($VAR, ${VAR}, %%VAR%%, "
              "$HOME/..., bare $ and %%, ~/..., ./, a/../, spaces, trailing dot, upper-case extension) with STAGE and HOME "
              "set and a decoy under the variable-expanded name; %d key-file failure histories of 3-6 steps (malformed "
              "31/33/0-byte key file before a save or a load, repair, regeneration, rotation; root or sub-configuration "
              "key file) on one configuration; %d outside-domain kinds (control/non-XML/surrogate characters, strings "
              "that look like other YAML types, odd string map keys and dynamic field names, NaN/inf, ints beyond 64 "
              "bit, bytes/set/object/function, nesting depth 100 and 900; non-string map keys and tuple values are not "
              "enumerated: outside C02's plain-data domain of string-keyed maps and lists, coerced as the codecs "
              "document, and loads-back is read modulo that domain) x 2-5 holders (typed fields, "
              "AnyField, untyped list/dict, dynamic fields) x 5 formats; os.urandom replaced by a seeded stream for the duration of the run"
              % (len(FAULTS), len(keyfile_histories()), len(unencodable_values()), len(HOLDERS), len(DEST_NAMES),
                 len(KEYFILE_FAILURE_HISTORIES), len(outside_domain_kinds())),
        tier=tier, seed=seed)
    pending = {}  # (obligation, base key) -> {fmt: (what, replay)}
    with sandbox() as tmp, mock.patch.object(os, "urandom", _DetRandom(seed)):
        with open(os.path.join(tmp, ".cincokey"), "wb") as fp:
            fp.write(OTHER_KEY_BYTES)  # a fixed default key file keeps the outcome of key-file defects deterministic
        for i, case in enumerate(cases(tier, rec.rng)):
            if tier != "quick" and rec.out_of_time():
                break
            res = dispatch(tmp, case)
            if case.get("history"):
                key = ("history", case["fmt"], tuple(case["ops"]))
                nontrivial = True
            elif case.get("keyfile_history"):
                key = ("keyfile-history", case["keyfile_history"], case["fmt"])
                nontrivial = True
            elif case.get("object_history"):
                key = ("object-history", case["object_history"], case["fmt"], case.get("kind"))
                nontrivial = True
            elif case.get("unencodable"):
                key = ("unencodable", case["unencodable"], case["holder"], case["fmt"], case["prior"])
                nontrivial = True
            elif case.get("sweep"):
                key = ("sweep", case["fmt"], case["place"], case.get("n"), case.get("edge"))
                nontrivial = res["outcome"] in ("saved", "serialisation-failed")
            elif case.get("outside"):
                key = ("outside-domain", case["outside"], case["holder"], case["fmt"])
                nontrivial = True
            elif case.get("dest_kind"):
                key = ("destination-name", case["dest_kind"], case["fmt"])
                nontrivial = res["outcome"] == "saved"
            elif case.get("keyfile_failure_history"):
                key = ("keyfile-failure-history", tuple(case["steps"]), case["method"], case["fmt"])
                nontrivial = res["effective"]  # every failing step really failed, every other save succeeded
            else:
                key = (case["kind"], case["fmt"], case["prior"], case.get("fault"), json.dumps(case.get("kw") or {}, sort_keys=True),
                       case.get("dest", ""), case.get("variant", 1))
                nontrivial = (res["outcome"] == "serialisation-failed") if case.get("fault") else (res["outcome"] == "saved")
            sample = None
            if (i % 211 == 0 and not case.get("sweep")) or (case.get("keyfile_failure_history") and i % 53 == 0) \
                    or (case.get("dest_kind") and i % 29 == 0) or (case.get("fault") and i % 97 == 0) \
                    or (case.get("keyfile_history") and i % 41 == 0) or (case.get("sweep") and i % 1999 == 0):
                sample = dict(case, outcome=res["outcome"], error=res["error"])
            rec.case(key=key, nontrivial=nontrivial, sample=sample)
            for ob, what in res["failures"]:
                if case.get("sweep"):  # these witness classes name their format themselves
                    pending.setdefault((ob, res["witness"]), {}).setdefault(None, (what, dict(case)))
                elif case.get("outside"):
                    pending.setdefault((ob, "outside-domain:%s:%s" % (case["fmt"], case["outside"])), {}) \
                        .setdefault(None, (what, dict(case)))
                else:
                    pending.setdefault((ob, witness_base(case, ob)), {}).setdefault(case["fmt"], (what, dict(case)))
    for (ob, base), per_fmt in pending.items():
        if sum(1 for v in rec.violations if v["obligation"] == ob) >= MAX_VIOLATIONS_PER_OBLIGATION:
            continue  # keeps the report of a badly broken tree readable (first classes in enumeration order)
        if None in per_fmt:
            what, replay_case = per_fmt[None]
            rec.violation(obligation=ob, what=what, replay=replay_case, witness_key=base)
        elif len(per_fmt) == len(FORMATS):  # fails in every format: one witness class
            what, replay_case = per_fmt[FORMATS[0]]
            rec.violation(obligation=ob, what=what, replay=replay_case, witness_key=base)
        else:
            for fmt in FORMATS:
                if fmt in per_fmt:
                    what, replay_case = per_fmt[fmt]
                    rec.violation(obligation=ob, what=what, replay=replay_case, witness_key="%s@%s" % (base, fmt))
    return rec.result(exhaustive=False)


def replay(case: dict) -> dict:
    """re-execute one replay dict against the current /repo"""
    with sandbox() as tmp, mock.patch.object(os, "urandom", _DetRandom(0)):
        with open(os.path.join(tmp, ".cincokey"), "wb") as fp:
            fp.write(OTHER_KEY_BYTES)
        res = dispatch(tmp, case)
    if case.get("history"):
        expected = "after every step the destination holds the last successfully saved content"
    elif case.get("keyfile_history"):
        expected = ("the last save encrypts every secret with the key file the configuration names at that time, so a "
                    "fresh configuration naming the same key files loads the file back equal")
    elif case.get("unencodable"):
        expected = "the save raises and leaves the destination untouched, or succeeds and the file loads back equal"
    elif case.get("outside"):
        expected = ("the save raises and leaves the previous file byte-identical, or succeeds and load() parses the file "
                    "into an equal configuration")
    elif case.get("dest_kind"):
        expected = "the bytes are in the file the name denotes after ~ expansion only, nothing else changes, load(name) is equal"
    elif case.get("keyfile_failure_history"):
        expected = ("every save with a malformed key file fails and leaves the destination untouched; every other save writes "
                    "what dumps returned and loads back in a fresh configuration reading the current key file")
    elif case.get("sweep"):
        expected = "the file holds exactly what dumps returned; Config.load(file) and loads(file bytes) give an equal configuration"
    elif case.get("fault"):
        expected = "save fails and the destination is byte-for-byte unchanged and never opened for writing"
    else:
        expected = "save writes exactly what dumps returned and the file loads back into an equal configuration"
    return {"fails": bool(res["failures"]), "expected": expected,
            "observed": [w for _o, w in res["failures"]] or "%s (%s)" % (res["outcome"], res["error"])}


if __name__ == "__main__":
    import sys
    r = rac(sys.argv[1] if len(sys.argv) > 1 else "quick", 0)
    print(json.dumps({k: r[k] for k in r if k != "samples"}, indent=1, default=str))
