"""C06 - a rejected operation leaves the configuration exactly as it was (bounded run-time contract driver).

Clause evaluated on the real library:  snapshot(root) before == snapshot(root) after  for every operation of the
kinds the property lists that RAISES (rejected assignment by attribute / dotted path / constructor keyword, bad map
or object assigned to a sub-configuration, rejected single-element insertion/replacement on a typed list/dict,
document load that fails to parse or whose include file cannot be resolved).  Operations that do not raise, or that
raise for a reason the property does not list (e.g. a document that parses but fails half-way in load_tree), are
skipped (counted as trivial), never flagged.
"""
import base64
import json
import os

from pyvc.raclib import Recorder, sandbox, snapshot

PID = "C06"
FORMATS = ("json", "yaml", "xml", "pickle", "bson")

# ------------------------------------------------------------------------------------------------------------
# kit: JSON schema specs -> real schemas; JSON values -> python values; navigation
# ------------------------------------------------------------------------------------------------------------
_OBJ = object()
_RESERVED = {"t", "default", "item", "kf", "vf", "validator", "startdir", "good", "bad", "fields", "dynamic",
             "validators", "name", "schema"}


def enc(v):
    """python value -> JSON-able"""
    if v is _OBJ:
        return {"$obj": 1}
    if isinstance(v, bytes):
        return {"$bytes": base64.b64encode(v).decode()}
    if isinstance(v, tuple):
        return {"$tuple": [enc(x) for x in v]}
    if isinstance(v, list):
        return [enc(x) for x in v]
    if isinstance(v, dict):
        if all(isinstance(k, str) and not k.startswith("$") for k in v):
            return {k: enc(x) for k, x in v.items()}
        return {"$items": [[enc(k), enc(x)] for k, x in v.items()]}
    return v


def dec(v, tmp=None):
    """JSON-able -> python value (fresh objects on every call)"""
    if isinstance(v, list):
        return [dec(x, tmp) for x in v]
    if isinstance(v, dict):
        if len(v) == 1:
            (k, x), = v.items()
            if k == "$obj":
                return object()
            if k == "$bytes":
                return base64.b64decode(x)
            if k == "$tuple":
                return tuple(dec(i, tmp) for i in x)
            if k == "$items":
                return {dec(a, tmp): dec(b, tmp) for a, b in x}
            if k == "$tmp":
                return os.path.join(tmp, x)
        return {k: dec(x, tmp) for k, x in v.items()}
    return v


def _v_even(cfg, value):
    if value % 2:
        raise ValueError("value must be even")
    return value


def _sv_x_le_y(cfg):
    if cfg.x is not None and cfg.y is not None and cfg.x > cfg.y:
        raise ValueError("x must be <= y")


def _v_sorted(cfg, value):
    if list(value) != sorted(value):
        raise ValueError("list must be sorted")
    return value


def _v_max2(cfg, value):
    if len(value) > 2:
        raise ValueError("at most 2 items")
    return value


def _v_has_a(cfg, value):
    if "a" not in value:
        raise ValueError("dict must contain key 'a'")
    return value


def _v_sum10(cfg, value):
    if sum(value.values()) > 10:
        raise ValueError("sum of values must be <= 10")
    return value


_GETTERS = {"n": lambda cfg: cfg.n, "newdict": lambda cfg: {"made": 1}}
FIELD_VALIDATORS = {"even": _v_even, "sorted": _v_sorted, "max2": _v_max2, "has-a": _v_has_a, "sum<=10": _v_sum10}
SCHEMA_VALIDATORS = {"x<=y": _sv_x_le_y}
_CLASSES = {"string": "StringField", "int": "IntField", "float": "FloatField", "port": "PortField",
            "bool": "BoolField", "featureflag": "FeatureFlagField", "ipv4": "IPv4AddressField",
            "ipv4net": "IPv4NetworkField", "hostname": "HostnameField", "url": "UrlField",
            "filename": "FilenameField", "bytes": "BytesField", "loglevel": "LogLevelField",
            "appmode": "ApplicationModeField", "challenge": "ChallengeField", "secure": "SecureField",
            "any": "AnyField", "list": "ListField", "dict": "DictField", "include": "IncludeField"}


class Built:
    """one materialisation of a top-level spec {"defs": {...}, "files": {...}, "dirs": [...], "root": schema-spec}"""

    def __init__(self, top, tmp, populate=True):
        import cincoconfig
        self.cc = cincoconfig
        self.top, self.tmp, self.objs = top, tmp, {}
        for name, content in ((top.get("files") or {}) if populate else {}).items():
            data = dec(content)
            with open(os.path.join(tmp, name), "wb") as fp:
                fp.write(data if isinstance(data, bytes) else data.encode())
        for name in (top.get("dirs") or []) if populate else []:
            os.makedirs(os.path.join(tmp, name), exist_ok=True)
        self.schema = self.field(top["root"])

    def resolve(self, fs):
        return self.top["defs"][fs["name"]] if fs["t"] == "ref" else fs

    def field(self, fs):
        t = fs["t"]
        if t == "ref":
            if fs["name"] not in self.objs:
                self.objs[fs["name"]] = self.field(self.top["defs"][fs["name"]])
            return self.objs[fs["name"]]
        if t == "schema":
            sch = self.cc.Schema(dynamic=bool(fs.get("dynamic")))
            for key, sub in fs["fields"]:
                setattr(sch, key, self.field(sub))
            for name in fs.get("validators") or []:
                self.cc.validator(sch)(SCHEMA_VALIDATORS[name])
            return sch
        if t == "ctype":
            return self.cc.make_type(self.field(fs["schema"]), fs["name"], module=__name__)
        if t == "virtual":
            return self.cc.VirtualField(_GETTERS[fs["getter"]])
        kw = {k: dec(v, self.tmp) for k, v in fs.items() if k not in _RESERVED}
        if "default" in fs:
            d = fs["default"]
            if "const" in d:
                kw["default"] = dec(d["const"], self.tmp)
            else:
                kw["default"] = (lambda v: (lambda: dec(v, self.tmp)))(d["fresh"])
        if "validator" in fs:
            kw["validator"] = FIELD_VALIDATORS[fs["validator"]]
        if "startdir" in fs:
            kw["startdir"] = self.tmp
        cls = getattr(self.cc, _CLASSES[t])
        if t == "list":
            return cls(self.field(fs["item"]) if "item" in fs else None, **kw)
        if t == "dict":
            return cls(self.field(fs["kf"]) if "kf" in fs else None, self.field(fs["vf"]) if "vf" in fs else None,
                       **kw)
        return cls(**kw)


def navigate(root, nav):
    obj = root
    for step in nav:
        obj = obj[step] if isinstance(step, int) else obj._get_value(step)
    return obj


# ------------------------------------------------------------------------------------------------------------
# value pools: accepted values and rejected values (label, value) of a field spec
# ------------------------------------------------------------------------------------------------------------
def pools(fs):
    t, req = fs["t"], fs.get("required")
    good = [dec(g) for g in fs.get("good", [])]
    bad = [(lab, dec(v)) for lab, v in fs.get("bad", [])]
    if req:
        bad.append(("required-none", None))
    if t in ("int", "port", "float"):
        lo = fs.get("min", 1 if t == "port" else None)
        hi = fs.get("max", 65535 if t == "port" else None)
        step = 0.5 if t == "float" else 1
        if not good:
            good = [x for x in (lo, hi) if x is not None] or ([2.5, -4.0] if t == "float" else [4, -6])
        if lo is not None:
            bad.append(("min-1", lo - step))
        if hi is not None:
            bad.append(("max+1", hi + step))
        if fs.get("validator") == "even":
            bad.append(("validator", (lo or 0) + 1))
        bad += [("type:str", "x1"), ("type:empty-str", ""), ("type:list", [1]), ("type:bool", True),
                ("type:obj", _OBJ)]
    elif t in ("string", "loglevel", "appmode", "ipv4", "ipv4net", "hostname", "url", "filename", "include"):
        bad += [("type:int", 5), ("type:list", ["a"]), ("type:bytes", b"ab")]
        if req:
            bad.append(("required-empty", ""))
        if t == "string":
            lo, hi = fs.get("min_len"), fs.get("max_len")
            if not good:
                good = fs.get("choices", [])[:2] or ["a" * (lo or 1), "b" * (hi or (lo or 1) + 1)]
            if lo:
                bad.append(("min_len-1", "a" * (lo - 1)))
            if hi is not None:
                bad.append(("max_len+1", "a" * (hi + 1)))
            if fs.get("choices"):
                bad.append(("choice", "zz-not-a-choice"))
        elif t == "loglevel":
            good = good or [" INFO ", "debug"]
            bad.append(("choice", "loud"))
        elif t == "appmode":
            good = good or ["production", "Development"]
            bad.append(("choice", "staging"))
        elif t == "ipv4":
            good = good or ["10.0.0.1", "192.168.1.254"]
            bad += [("octet", "300.1.1.1"), ("syntax", "abc")]
        elif t == "ipv4net":
            good = good or ["10.0.0.0/16", "192.168.0.0/24"]
            bad += [("syntax", "nope"), ("host-bits", "10.0.0.1/16")]
            if fs.get("min_prefix_len"):
                bad.append(("min_prefix-1", "10.0.0.0/%d" % (fs["min_prefix_len"] - 1) if fs["min_prefix_len"] > 8
                            else "0.0.0.0/%d" % (fs["min_prefix_len"] - 1)))
            if fs.get("max_prefix_len"):
                bad.append(("max_prefix+1", "10.0.0.0/%d" % (fs["max_prefix_len"] + 1)))
        elif t == "hostname":
            good = good or ["example.com", "1.2.3.4"]
            bad += [("syntax", "bad host name with spaces")]
            if fs.get("allow_ipv4") is False:
                bad.append(("ipv4", "1.2.3.4"))
        elif t == "url":
            good = good or ["http://a.b/c", "ftp://x"]
            bad.append(("no-scheme", "noscheme"))
        else:  # filename / include with exists=file, startdir=$TMP
            good = good or ["f1.txt", "f2.txt"]
            bad += [("missing", "no-such-file.txt"), ("is-dir", "adir")]
    elif t in ("bool", "featureflag"):
        good = good or [False, "yes"]
        bad += [("word", "maybe"), ("type:list", [1]), ("type:bytes", b"t")]
    elif t == "bytes":
        good = good or [b"ab", "cd"]
        bad += [("type:int", 5), ("type:list", [1])]
    elif t == "challenge":
        good = good or ["s3cret", "other"]
        bad += [("type:int", 5), ("type:list", ["a"])]
    elif t == "secure":
        good = good or ["plain", "text2"]
    elif t == "any":
        good = good or [1, "a"]
    elif t == "list":
        bad += [("type:str", "abc"), ("type:int", 5), ("type:dict", {"a": 1})]
        if req:
            bad.append(("required-empty", []))
    elif t == "dict":
        bad += [("type:str", "abc"), ("type:int", 5), ("type:list", [1])]
        if req:
            bad.append(("required-empty", {}))
    return good, bad


def item_pools(bt, ispec):
    """(good items, bad items) for the item/value spec of a typed container"""
    ispec = bt.resolve(ispec)
    if ispec["t"] in ("schema", "ctype"):
        sch = ispec["schema"] if ispec["t"] == "ctype" else ispec
        good, bad = [dict(g) for g in sch.get("good", [])], [(lab, dec(v)) for lab, v in sch.get("bad", [])]
        bad += [("type:int", 5), ("type:str", "abc"), ("type:list", [1]), ("type:none", None)]
        for key, fs in sch["fields"]:
            fs = bt.resolve(fs)
            if fs["t"] in ("schema", "ctype"):
                continue
            for lab, v in pools(fs)[1][:3]:
                if good:
                    m = dict(good[0])
                    m[key] = v
                    bad.append(("map:%s:%s" % (fs["t"], lab), m))
        if sch.get("invalid_fresh"):
            bad.append(("config-fails-validate", {"$newitem": {}}))
        return good, bad
    good, bad = pools(ispec)
    if ispec["t"] == "list" and "item" in ispec:
        igood, ibad = item_pools(bt, ispec["item"])
        good = good or [[g] for g in igood[:2]]
        bad += [("item:" + lab, igood[:1] + [v]) for lab, v in ibad[:3]]
    return good, bad


# ------------------------------------------------------------------------------------------------------------
# operations
# ------------------------------------------------------------------------------------------------------------
def apply_op(bt, root, op):
    """run one operation on the configuration tree rooted at root; returns the exception raised or None"""
    kind = op["op"]
    try:
        if kind == "setattr":
            setattr(navigate(root, op["nav"]), op["key"], _held(root, dec(op["value"], bt.tmp), bt))
        elif kind == "setitem":
            root[op["path"]] = _held(root, dec(op["value"], bt.tmp), bt)
        elif kind == "setitem-on":
            navigate(root, op["nav"])[op["key"]] = _held(root, dec(op["value"], bt.tmp), bt)
        elif kind == "reset":
            bt.cc.reset_value(navigate(root, op["nav"]), op["key"])
        elif kind == "ctor":
            target = bt.objs[op["ref"]] if op.get("ref") else bt.schema
            target(**dec(op["kw"], bt.tmp))
        elif kind == "list":
            lst = navigate(root, op["nav"])
            val = op["value"]
            if isinstance(val, dict) and "$newitem" in val:
                item = lst.item_field()
                for k, v in val["$newitem"].items():
                    setattr(item, k, dec(v, bt.tmp))
                val = item
            elif isinstance(val, dict) and "$held" in val:
                val = lst[val["$held"]]  # the very object the list already holds
            elif isinstance(val, dict) and "$stash" in val:
                val = bt.stash  # the object popped from the list earlier in the history
            else:
                val = dec(val, bt.tmp)
            if op["meth"] == "pop":
                bt.stash = lst.pop(op["index"])
            elif op["meth"] == "append":
                lst.append(val)
            elif op["meth"] == "insert":
                lst.insert(op["index"], val)
            else:
                lst[op["index"]] = val
        elif kind == "dict":
            dct = navigate(root, op["nav"])
            key, val = dec(op["key"], bt.tmp), dec(op["value"], bt.tmp)
            if op["meth"] == "setitem":
                dct[key] = val
            elif op["meth"] == "setdefault":
                dct.setdefault(key, val)
            elif op["meth"] == "update1":
                dct.update({key: val})
            else:
                dct.update(**{key: val})
        elif kind == "mut":
            obj, args = navigate(root, op["nav"]), dec(op["args"], bt.tmp)
            if op["meth"] == "setitem":
                obj[args[0]] = args[1]
            else:
                getattr(obj, op["meth"])(*args)
        elif kind == "load_tree":
            navigate(root, op.get("nav", [])).load_tree(_held(root, dec(op["tree"], bt.tmp), bt))
        elif kind in ("loads", "load"):
            for name, content in (op.get("files") or {}).items():
                path = os.path.join(bt.tmp, name)
                with open(path, "wb") as fp:
                    fp.write(_content(bt, op["fmt"], content))
                if isinstance(content, dict) and "mode" in content:
                    os.chmod(path, content["mode"])
            for name, target in (op.get("symlinks") or {}).items():
                path = os.path.join(bt.tmp, name)
                if not os.path.lexists(path):
                    os.symlink(os.path.join(bt.tmp, target), path)
            data = _content(bt, op["fmt"], op["doc"])
            if op.get("as_str"):
                data = data.decode()
            if kind == "load":
                path = os.path.join(bt.tmp, "main-doc." + op["fmt"])
                with open(path, "wb") as fp:
                    fp.write(data)
                root.load(path, op["fmt"])
            else:
                root.loads(data, op["fmt"])
        else:
            raise AssertionError("unknown op %r" % (op,))
    except AssertionError:
        raise
    except Exception as exc:  # pylint: disable=broad-except
        return exc
    return None


def _held(root, value, bt=None):
    """replace {"$heldnav": nav} markers by the object found at nav in the live tree (an item a list already holds) and
    {"$donor": {"nav": nav, "muts": [[method, args], ...]}} markers by the list/dict PROXY another configuration of the
    same schema holds at nav after the given in-place mutations"""
    if isinstance(value, dict):
        if len(value) == 1 and "$heldnav" in value:
            return navigate(root, value["$heldnav"])
        if len(value) == 1 and "$donor" in value:
            obj = navigate(bt.schema(), value["$donor"]["nav"])
            for meth, args in value["$donor"]["muts"]:
                args = dec(args, bt.tmp)
                if meth == "setitem":
                    obj[args[0]] = args[1]
                else:
                    getattr(obj, meth)(*args)
            return obj
        return {k: _held(root, v, bt) for k, v in value.items()}
    if isinstance(value, list):
        return [_held(root, v, bt) for v in value]
    return value


_DOCS = {}  # well-formed documents by (directory, format, tree): pure function of the real formatter, reused


def _content(bt, fmt, doc):
    """document description -> bytes:  {"tree":..} dumped by the real formatter, then optionally malformed"""
    if "b64" in doc:
        data = base64.b64decode(doc["b64"])
    else:
        kwargs = {"root_tag": doc["root_tag"]} if doc.get("root_tag") else {}
        key = (bt.tmp, fmt, json.dumps(doc["tree"], sort_keys=True, default=str), doc.get("root_tag"))
        if key not in _DOCS:
            if len(_DOCS) > 512:
                _DOCS.clear()
            _DOCS[key] = bt.cc.ConfigFormat.get(fmt, **kwargs).dumps(None, dec(doc["tree"], bt.tmp))
        data = _DOCS[key]
    mal = doc.get("malform")
    if mal == "cut-half":
        data = data[:len(data) // 2]
    elif mal == "cut-last":
        data = data[:-1]
    elif mal == "cut-third":
        data = data[:len(data) // 3]
    elif mal == "undecodable":
        data = b"\xff\xfe\xfa" + data
    elif mal == "undecodable-mid":
        data = data[:len(data) // 2] + b"\xc3\x28\xff" + data[len(data) // 2:]
    elif mal == "garbage":
        data = b"\x00\x01{{<<garbage>>\xff"
    elif mal == "empty":
        data = b""
    elif mal == "trailing-unclosed":
        data = data + b'\n{"unclosed": [1, '
    return data


def parse_fails(bt, op):
    """oracle of 'fails to parse': the real formatter rejects the main document (evaluated on a scratch config)"""
    try:
        data = _content(bt, op["fmt"], op["doc"])
        bt.cc.ConfigFormat.get(op["fmt"]).loads(bt.schema(), data)
    except Exception:  # pylint: disable=broad-except
        return True
    return False


# ------------------------------------------------------------------------------------------------------------
# schema grammar of the quick tier
# ------------------------------------------------------------------------------------------------------------
def _c(v):
    return {"const": v}


ITEM = {"t": "schema", "invalid_fresh": True, "good": [{"n": 1, "name": "ab"}, {"n": 0, "name": "z", "tags": ["q"]}],
        "fields": [["n", {"t": "int", "min": 0, "max": 9}],
                   ["name", {"t": "string", "required": True, "max_len": 3}],
                   ["tags", {"t": "list", "item": {"t": "string", "max_len": 2}, "default": _c(["t"])}],
                   ["sub", {"t": "schema", "fields": [["z", {"t": "int", "max": 3, "default": _c(1)}]]}]]}
HOST = {"t": "ctype", "name": "Host", "schema": {
    "t": "schema", "good": [{"h": "example.com", "p": 81}, {"h": "1.2.3.4"}],
    "fields": [["h", {"t": "hostname", "required": True, "default": _c("localhost")}],
               ["p", {"t": "port", "default": _c(80)}]]}}

PAIR = {"t": "schema", "validators": ["x<=y"], "invalid_fresh": True,
        "good": [{"name": "n1"}, {"name": "n2", "x": 0, "y": 5}],
        "fields": [["x", {"t": "int", "min": 0, "max": 99, "default": _c(1)}],
                   ["y", {"t": "int", "min": 0, "max": 99, "default": _c(2)}],
                   ["name", {"t": "string", "required": True, "max_len": 3}]]}

SPECS = [
    ("scalars", {
        "files": {"f1.txt": "one", "f2.txt": "two"}, "dirs": ["adir"],
        "root": {"t": "schema", "fields": [
            ["s", {"t": "string", "min_len": 2, "max_len": 4, "default": _c("abc")}],
            ["sreq", {"t": "string", "required": True, "default": _c("r")}],
            ["sre", {"t": "string", "regex": "^[a-c]+$", "good": ["abc", "cab"], "bad": [["regex", "abd"]]}],
            ["sch", {"t": "string", "choices": ["red", "green"], "transform_case": "lower", "default": _c("red")}],
            ["i", {"t": "int", "min": 0, "max": 10, "default": _c(5)}],
            ["ie", {"t": "int", "min": 0, "max": 8, "validator": "even"}],
            ["f", {"t": "float", "min": -1.5, "max": 1.5, "default": _c(0.25)}],
            ["p", {"t": "port", "default": _c(8080)}],
            ["b", {"t": "bool", "default": _c(True)}],
            ["ip", {"t": "ipv4", "default": _c("127.0.0.1")}],
            ["net", {"t": "ipv4net", "min_prefix_len": 8, "max_prefix_len": 24}],
            ["h", {"t": "hostname", "allow_ipv4": False, "good": ["example.com", "host-1"]}],
            ["u", {"t": "url", "required": True, "default": _c("http://x.y")}],
            ["fn", {"t": "filename", "exists": "file", "startdir": 1}],
            ["by", {"t": "bytes", "default": _c({"$bytes": "YWI="})}],
            ["lvl", {"t": "loglevel", "default": _c("info")}],
            ["mode", {"t": "appmode", "default": _c("production")}],
            ["pw", {"t": "challenge", "default": _c("hunter2")}],
            ["sec", {"t": "secure", "required": True, "default": _c("k")}],
        ]},
        "tree": {"s": "zz", "i": 1, "f": -1.0, "b": False, "ip": "10.9.8.7", "u": "ftp://q", "lvl": "error",
                 "sreq": "Q", "p": 22, "sch": "green"}}),
    ("nested", {
        "root": {"t": "schema", "fields": [
            ["top", {"t": "int", "max": 100, "default": _c(1)}],
            ["a", {"t": "schema", "validators": ["x<=y"], "bad": [["validator:x<=y", {"x": 9, "y": 2}]], "fields": [
                ["x", {"t": "int", "min": 0, "max": 50, "default": _c(1)}],
                ["y", {"t": "int", "min": 0, "max": 50, "default": _c(2)}],
                ["b", {"t": "schema", "bad": [["validate:required-missing", {"w": "ok"}]], "fields": [
                    ["req", {"t": "string", "required": True, "good": ["r1", "r2"]}],
                    ["w", {"t": "string", "max_len": 3, "default": _c("w")}],
                    ["c", {"t": "schema", "fields": [
                        ["z", {"t": "float", "min": 0.0, "max": 1.0, "default": _c(0.5)}],
                        ["flag", {"t": "bool"}]]}]]}]]}]]},
        "tree": {"top": 7, "a": {"x": 3, "y": 30, "b": {"req": "R", "w": "ww", "c": {"z": 1.0, "flag": True}}}}}),
    ("ctypes", {
        "defs": {"Host": HOST},
        "root": {"t": "schema", "fields": [
            ["name", {"t": "string", "max_len": 5, "default": _c("n")}],
            ["t", {"t": "ref", "name": "Host"}],
            ["grp", {"t": "schema", "fields": [["t2", {"t": "ref", "name": "Host"}],
                                               ["k", {"t": "int", "min": 1, "default": _c(1)}]]}]]},
        "tree": {"name": "nm", "t": {"h": "a.example", "p": 8}, "grp": {"t2": {"h": "b.example"}, "k": 5}}}),
    ("lists", {
        "defs": {"Item": ITEM, "Host": HOST},
        "root": {"t": "schema", "fields": [
            ["li", {"t": "list", "item": {"t": "int", "min": 0, "max": 9}, "default": _c([1, 2])}],
            ["ls", {"t": "list", "item": {"t": "string", "max_len": 3}, "default": {"fresh": ["a"]}}],
            ["lnone", {"t": "list", "item": {"t": "int"}}],
            ["lreq", {"t": "list", "item": {"t": "int"}, "required": True, "default": _c([7])}],
            ["ll", {"t": "list", "item": {"t": "list", "item": {"t": "int", "max": 5}}, "default": _c([[1], [2, 3]])}],
            ["lu", {"t": "list", "default": _c([1, "x"])}],
            ["lsch", {"t": "list", "item": {"t": "ref", "name": "Item"}, "default": _c([{"n": 1, "name": "a"}])}],
            ["lsch2", {"t": "list", "item": {"t": "ref", "name": "Item"}}],
            ["lct", {"t": "list", "item": {"t": "ref", "name": "Host"}, "default": _c([{"h": "h.example"}])}],
            ["box", {"t": "schema", "fields": [
                ["inner", {"t": "list", "item": {"t": "ref", "name": "Item"},
                           "default": _c([{"n": 2, "name": "b"}, {"n": 3, "name": "c"}])}]]}]]},
        "tree": {"li": [3], "ls": ["x", "y"], "lnone": [5], "ll": [[0]], "lsch": [{"n": 4, "name": "d"}],
                 "lsch2": [{"n": 5, "name": "e", "tags": ["u"], "sub": {"z": 2}}], "lct": [{"h": "i.example", "p": 9}],
                 "box": {"inner": [{"n": 6, "name": "f"}]}}}),
    ("held-items", {
        "defs": {"Pair": PAIR, "PairT": {"t": "ctype", "name": "PairT", "schema": PAIR}},
        "root": {"t": "schema", "fields": [
            ["n", {"t": "int", "max": 9, "default": _c(1)}],
            ["pairs", {"t": "list", "item": {"t": "ref", "name": "Pair"},
                       "default": _c([{"name": "a"}, {"name": "b", "x": 0}, {"name": "c"}])}],
            ["tpairs", {"t": "list", "item": {"t": "ref", "name": "PairT"}, "default": _c([{"name": "d"}, {"name": "e"}])}],
            ["box", {"t": "schema", "fields": [
                ["inner", {"t": "list", "item": {"t": "ref", "name": "Pair"},
                           "default": {"fresh": [{"name": "f"}, {"name": "g", "y": 9}]}}]]}]]},
        "held": [["pairs"], ["tpairs"], ["box", "inner"]],
        "tree": {"n": 2, "pairs": [{"name": "p", "x": 1, "y": 1}, {"name": "q"}], "tpairs": [{"name": "r"}, {"name": "s"}, {"name": "t"}],
                 "box": {"inner": [{"name": "u"}, {"name": "v"}]}}}),
    ("dicts", {
        "root": {"t": "schema", "fields": [
            ["d", {"t": "dict", "kf": {"t": "string", "max_len": 2}, "vf": {"t": "int", "min": 0},
                   "default": _c({"a": 1})}],
            ["dv", {"t": "dict", "vf": {"t": "list", "item": {"t": "int", "max": 5}}, "default": _c({"k": [1]})}],
            ["dk", {"t": "dict", "kf": {"t": "int", "min": 1}}],
            ["du", {"t": "dict", "default": _c({"k": 1})}],
            ["dreq", {"t": "dict", "required": True, "default": _c({"k": 1})}],
            ["sub", {"t": "schema", "fields": [
                ["dd", {"t": "dict", "kf": {"t": "string", "regex": "^[a-z]+$", "good": ["ab", "c"],
                                            "bad": [["regex", "A1"]]},
                        "vf": {"t": "bool"}, "default": {"fresh": {"on": True}}}]]}]]},
        "tree": {"d": {"b": 2, "c": 3}, "dv": {"m": [2, 3]}, "dk": {"3": "x"}, "du": {"z": [1]},
                 "sub": {"dd": {"off": False}}}}),
    ("dynamic", {
        "root": {"t": "schema", "dynamic": True, "fields": [
            ["x", {"t": "int", "max": 5, "default": _c(1)}],
            ["sub", {"t": "schema", "dynamic": True, "fields": [["y", {"t": "string", "max_len": 2, "default": _c("y")}]]}],
            ["items", {"t": "list", "item": {"t": "schema", "dynamic": True, "good": [{"q": 1, "extra": "e"}],
                                             "fields": [["q", {"t": "int", "min": 0}]]},
                       "default": _c([{"q": 1, "free": "v"}])}]]},
        "extra": [[[], "extra1", 11], [["sub"], "extra2", "e2"]],
        "tree": {"x": 2, "added": [1, 2], "sub": {"y": "b", "more": {"k": 1}}, "items": [{"q": 2}]}}),
    ("include", {
        "files": {"f1.txt": "one", "f2.txt": "two"}, "dirs": ["adir"],
        "root": {"t": "schema", "fields": [
            ["inc", {"t": "include", "startdir": 1}],
            ["x", {"t": "int", "max": 9, "default": _c(1)}],
            ["sub", {"t": "schema", "fields": [["inc2", {"t": "include", "startdir": 1}],
                                               ["y", {"t": "string", "max_len": 3, "default": _c("y")}],
                                               ["deep", {"t": "schema", "fields": [
                                                   ["inc3", {"t": "include", "startdir": 1}],
                                                   ["z", {"t": "int", "default": _c(0)}]]}]]}]]},
        "tree": {"x": 3, "sub": {"y": "ab", "deep": {"z": 4}}},
        "includes": True}),
]


# ------------------------------------------------------------------------------------------------------------
# enumeration of prior states and failing operations
# ------------------------------------------------------------------------------------------------------------
def _leafs(bt, sspec, cfg, nav):
    """(nav, key, field spec, current value) of every field of the live tree, lists of configs included"""
    is_cfg = lambda v: isinstance(v, bt.cc.Config)  # noqa: E731
    for key, fs in sspec["fields"]:
        fs = bt.resolve(fs)
        val = cfg._data.get(key)
        yield nav, key, fs, val
        if fs["t"] in ("schema", "ctype"):
            if is_cfg(val):
                yield from _leafs(bt, fs["schema"] if fs["t"] == "ctype" else fs, val, nav + [key])
        elif fs["t"] == "list" and "item" in fs and isinstance(val, list):
            ispec = bt.resolve(fs["item"])
            if ispec["t"] in ("schema", "ctype"):
                for idx in range(min(len(val), 2)):
                    if is_cfg(val[idx]):
                        yield from _leafs(bt, ispec["schema"] if ispec["t"] == "ctype" else ispec, val[idx],
                                          nav + [key, idx])


def setup_variants(bt, top):
    """reachable prior states as lists of ACCEPTED operations"""
    out = [("defaults", [])]
    root = bt.schema()
    ops = []
    for n, (nav, key, fs, val) in enumerate(_leafs(bt, top["root"], root, [])):
        if fs["t"] in ("schema", "ctype", "include") or any(isinstance(s, int) for s in nav):
            continue
        good = pools(fs)[0]
        if fs["t"] == "list" and "item" in fs:
            good = [item_pools(bt, fs["item"])[0][:2]]
        elif fs["t"] == "dict":
            kg = pools(bt.resolve(fs["kf"]))[0] if "kf" in fs else ["k1"]
            vg = item_pools(bt, fs["vf"])[0] if "vf" in fs else [1]
            good = [{kg[0]: vg[0]}] if kg and vg else []
        if good and n % 2 == 0:
            ops.append({"op": "setattr", "nav": nav, "key": key, "value": enc(good[-1])})
    for nav, key, value in top.get("extra", []):
        ops.append({"op": "setattr", "nav": nav, "key": key, "value": value})
    out.append(("assigned", ops))
    if top.get("tree"):
        out.append(("load_tree", [{"op": "load_tree", "tree": top["tree"]}]))
        more = [{"op": "loads", "fmt": "json", "doc": {"tree": top["tree"]}}]
        probe = bt.schema()
        probe.load_tree(dec(top["tree"], bt.tmp))
        for nav, key, fs, val in _leafs(bt, top["root"], probe, []):
            if fs["t"] == "list" and "item" in fs and isinstance(val, list) and not any(isinstance(s, int) for s in nav):
                good = item_pools(bt, fs["item"])[0]
                if good:
                    more.append({"op": "list", "nav": nav + [key], "meth": "append", "value": enc(good[-1])})
        out.append(("loads+append", more))
    return out


def _differs(a, b):
    return type(a) is not type(b) or a != b


def failing_ops(bt, top, root):
    """(obligation, witness_key, op) for every candidate failing operation on the live tree `root`"""
    ob_set = "core:Config._set_value/raise:C06.state-unchanged"
    ob_item = "core:Config.__setitem__/raise:C06.state-unchanged"
    ob_ctor = "core:Config.__init__/raise:C06.preexisting-unchanged"
    for nav, key, fs, val in _leafs(bt, top["root"], root, []):
        t = fs["t"]
        plain_nav = not any(isinstance(s, int) for s in nav)
        parent = navigate(root, nav)
        # a sibling accepted value that differs from the current one (placed BEFORE the bad value in maps/keywords)
        sib = None
        for k2, f2 in _sibling_fields(bt, top, nav):
            f2 = bt.resolve(f2)
            if k2 != key and f2["t"] not in ("schema", "ctype", "include", "list", "dict", "challenge"):
                cand = [g for g in pools(f2)[0] if _differs(g, parent._data.get(k2))]
                if cand:
                    sib = (k2, cand[0])
                    break
        if t in ("schema", "ctype"):
            sch = fs["schema"] if t == "ctype" else fs
            bads = [(lab, dec(v)) for lab, v in sch.get("bad", [])]
            bads += [("type:int", 5), ("type:str", "abc"), ("type:list", [{"a": 1}]), ("type:none", None)]
            tname = "subconfig"
        elif t == "list" and "item" in fs:
            bads = pools(fs)[1]
            igood, ibad = item_pools(bt, fs["item"])
            plain_bad = [(lab, v) for lab, v in ibad if not (isinstance(v, dict) and "$newitem" in v)]
            bads += [("item:" + lab, igood[:1] + [v]) for lab, v in plain_bad]
            if igood:
                # whole-container assignment over a list that already holds items: only a LATER element is invalid
                bads += [("whole-last-of-3:" + lab, [igood[0], igood[-1], v]) for lab, v in plain_bad[:3]]
                bads += [("whole-tuple:" + lab, (igood[0], v)) for lab, v in plain_bad[:2]]
                if isinstance(val, list) and len(val) >= 2 and bt.resolve(fs["item"])["t"] in ("schema", "ctype"):
                    bads += [("whole-held-then-bad:" + lab, [{"$heldnav": nav + [key, 1]}, {"$heldnav": nav + [key, 0]}, v])
                             for lab, v in plain_bad[:2]]
            tname = "list<%s>" % bt.resolve(fs["item"])["t"]
        elif t == "dict" and ("kf" in fs or "vf" in fs):
            bads = pools(fs)[1]
            kg, kb = pools(bt.resolve(fs["kf"])) if "kf" in fs else (["k1"], [])
            vg, vb = item_pools(bt, fs["vf"]) if "vf" in fs else ([1], [])
            bads += [("value:" + lab, {kg[0]: vg[0], "zz" if not isinstance(kg[0], int) else 77: v})
                     for lab, v in vb[:4] if vg]
            bads += [("key:" + lab, {kg[0]: vg[0], k: vg[0]}) for lab, k in kb[:4]
                     if vg and not isinstance(k, (list, dict)) and k is not _OBJ]
            if vg and len(kg) >= 2:
                bads += [("whole-last-of-3:value:" + lab, {kg[0]: vg[0], kg[1]: vg[-1], "zz" if not isinstance(kg[0], int) else 77: v})
                         for lab, v in vb[:3]]
            tname = "dict<typed>"
        else:
            bads = pools(fs)[1]
            tname = t
        for lab, bad in bads:
            wk = "%s:%s" % (tname, lab)
            yield ob_set, "setattr:" + wk, {"op": "setattr", "nav": nav, "key": key, "value": enc(bad)}
            if plain_nav:
                yield ob_item, "dotted:" + wk, {"op": "setitem", "path": ".".join(nav + [key]), "value": enc(bad)}
                # constructor keyword (nested: a map for the top-level sub-configuration)
                kw = {key: bad}
                if sib:
                    kw = {sib[0]: sib[1], key: bad}
                for step in reversed(nav):
                    kw = {step: kw}
                if "$heldnav" not in json.dumps(enc(kw), default=str):
                    yield ob_ctor, "ctor:" + wk, {"op": "ctor", "kw": enc(kw)}
                if nav:
                    # bad map assigned to the enclosing sub-configuration, accepted sibling value first
                    inner = {sib[0]: sib[1], key: bad} if sib else {key: bad}
                    yield ob_set, "submap:" + wk, {"op": "setattr", "nav": nav[:-1], "key": nav[-1], "value": enc(inner)}
                    if len(nav) >= 2:
                        yield ob_item, "dotted-submap:" + wk, {"op": "setitem", "path": ".".join(nav),
                                                               "value": enc(inner)}
        # ---- in-place operations on typed containers
        if t == "list" and "item" in fs and isinstance(val, list) and hasattr(val, "item_field"):
            yield from _list_ops(bt, fs, val, nav + [key])
        if t == "dict" and ("kf" in fs or "vf" in fs) and isinstance(val, dict) and hasattr(val, "dict_field"):
            kg, kb = pools(bt.resolve(fs["kf"])) if "kf" in fs else (["k1", "k2"], [])
            vg, vb = item_pools(bt, fs["vf"]) if "vf" in fs else ([1], [])
            existing = list(val)[:1]
            cands = [("value:" + lab, k, v) for lab, v in vb for k in (existing + kg[:1])]
            cands += [("key:" + lab, k, vg[0]) for lab, k in kb if vg and not isinstance(k, (list, dict))]
            for lab, k, v in cands:
                meths = ["setitem", "setdefault", "update1"] + (["updatekw"] if isinstance(k, str) else [])
                for meth in meths:
                    name = {"setitem": "__setitem__", "setdefault": "setdefault"}.get(meth, "update")
                    yield ("fields.dict_field:DictProxy.%s/raise:C06.state-unchanged" % name,
                           "dict.%s:%s" % (meth, lab),
                           {"op": "dict", "nav": nav + [key], "meth": meth, "key": enc(k), "value": enc(v)})
    if bt.objs:
        for name, obj in sorted(bt.objs.items()):
            spec = top["defs"][name]
            if spec["t"] != "ctype":
                continue
            for k2, f2 in spec["schema"]["fields"]:
                f2 = bt.resolve(f2)
                for lab, bad in pools(f2)[1]:
                    yield ob_ctor, "ctor-type:%s:%s" % (f2["t"], lab), {"op": "ctor", "ref": name, "kw": enc({k2: bad})}


def _sibling_fields(bt, top, nav):
    spec = top["root"]
    for step in nav:
        if isinstance(step, int):
            continue
        spec = bt.resolve(dict(spec["fields"])[step])
        if spec["t"] == "ctype":
            spec = spec["schema"]
        elif spec["t"] == "list":
            spec = bt.resolve(spec["item"])
            if spec["t"] == "ctype":
                spec = spec["schema"]
    return spec["fields"]


def _list_ops(bt, fs, lst, nav):
    igood, ibad = item_pools(bt, fs["item"])
    ispec = bt.resolve(fs["item"])
    for lab, v in ibad:
        ev = v if (isinstance(v, dict) and "$newitem" in v) else enc(v)
        wk = "%s:%s" % (ispec["t"], lab)
        yield ("fields.list_field:ListProxy.append/raise:C06.state-unchanged", "list.append:" + wk,
               {"op": "list", "nav": nav, "meth": "append", "value": ev})
        for idx in sorted({0, len(lst)}):
            yield ("fields.list_field:ListProxy.insert/raise:C06.state-unchanged", "list.insert:" + wk,
                   {"op": "list", "nav": nav, "meth": "insert", "index": idx, "value": ev})
        if lst:
            for idx in sorted({0, len(lst) - 1, -1}):
                yield ("fields.list_field:ListProxy.__setitem__/raise:C06.state-unchanged", "list.setitem:" + wk,
                       {"op": "list", "nav": nav, "meth": "setitem", "index": idx, "value": ev})
    if ispec["t"] == "list" and "item" in ispec:
        for idx in range(min(len(lst), 2)):
            if hasattr(lst[idx], "item_field"):
                yield from (("%s" % ob, "nested-" + wk, op) for ob, wk, op in _list_ops(bt, ispec, lst[idx], nav + [idx]))


def held_cases(bt, top):
    """(state name, setup, obligation, witness_key, op): rejected single-element insertion / replacement whose element
    is an item object the list ALREADY holds and that has meanwhile become invalid as a whole"""
    ob = "fields.list_field:ListProxy.%s/raise:C06.state-unchanged"
    bases = [("defaults", [])]
    if top.get("tree"):
        bases.append(("load_tree", [{"op": "load_tree", "tree": top["tree"]}]))
    for bname, base in bases:
        probe = bt.schema()
        for sop in base:
            if apply_op(bt, probe, sop) is not None:
                raise AssertionError("driver bug: held base setup failed")
        for nav in top.get("held", []):
            size = len(navigate(probe, nav))
            for mode, mk in (("validator", lambda j: {"op": "setattr", "nav": nav + [j], "key": "x", "value": 50}),
                             ("required-reset", lambda j: {"op": "reset", "nav": nav + [j], "key": "name"})):
                for j in sorted({0, size - 1}):
                    setup = base + [mk(j)]
                    sname = "%s+invalidated[%s,%d]:%s" % (bname, ".".join(nav), j, mode)
                    held = {"$held": j}
                    yield sname, setup, ob % "append", "list.append:held-item:" + mode, {
                        "op": "list", "nav": nav, "meth": "append", "value": held}
                    for idx in sorted({0, size}):
                        yield sname, setup, ob % "insert", "list.insert:held-item:" + mode, {
                            "op": "list", "nav": nav, "meth": "insert", "index": idx, "value": held}
                    for idx in range(size):
                        yield sname, setup, ob % "__setitem__", "list.setitem:held-item:%s:%s" % (
                            mode, "same-slot" if idx == j else "other-slot"), {
                            "op": "list", "nav": nav, "meth": "setitem", "index": idx, "value": held}
                    other = (j + 1) % size
                    yield sname, setup, "core:Config._set_value/raise:C06.state-unchanged", "setattr:list<held>:later-held-item:" + mode, {
                        "op": "setattr", "nav": nav[:-1], "key": nav[-1],
                        "value": [{"$heldnav": nav + [other]}, {"$heldnav": nav + [j]}]}
                    # pop the invalidated item, then try to put it back: the list must stay as it was after the pop
                    setup2 = setup + [{"op": "list", "nav": nav, "meth": "pop", "index": j, "value": None}]
                    sname2 = sname + "+popped"
                    stash = {"$stash": 1}
                    yield sname2, setup2, ob % "append", "list.append:popped-item:" + mode, {
                        "op": "list", "nav": nav, "meth": "append", "value": stash}
                    yield sname2, setup2, ob % "insert", "list.insert:popped-item:" + mode, {
                        "op": "list", "nav": nav, "meth": "insert", "index": 0, "value": stash}
                    yield sname2, setup2, ob % "__setitem__", "list.setitem:popped-item:" + mode, {
                        "op": "list", "nav": nav, "meth": "setitem", "index": 0, "value": stash}


WITEM = {"t": "schema", "fields": [["n", {"t": "int", "min": 0}], ["name", {"t": "string", "required": True, "max_len": 3}]]}
WHOLE = {
    "defs": {"WItem": WITEM},
    "root": {"t": "schema", "fields": [
        ["li", {"t": "list", "item": {"t": "int"}, "validator": "sorted", "default": _c([1, 2])}],
        ["ls", {"t": "list", "item": {"t": "string", "max_len": 3}, "validator": "max2", "default": _c(["a"])}],
        ["lsch", {"t": "list", "item": {"t": "ref", "name": "WItem"}, "validator": "max2", "default": _c([{"n": 1, "name": "a"}])}],
        ["d", {"t": "dict", "kf": {"t": "string"}, "vf": {"t": "int"}, "validator": "has-a", "default": _c({"a": 1})}],
        ["d2", {"t": "dict", "kf": {"t": "string"}, "vf": {"t": "int"}, "validator": "sum<=10", "default": _c({"x": 3})}],
        ["w", {"t": "int", "default": _c(0)}],
        ["sub", {"t": "schema", "fields": [
            ["li2", {"t": "list", "item": {"t": "int"}, "validator": "sorted", "default": _c([1, 3])}],
            ["d3", {"t": "dict", "kf": {"t": "string"}, "vf": {"t": "int"}, "validator": "has-a", "default": _c({"a": 2})}],
            ["v", {"t": "int", "default": _c(0)}]]}]]},
    "tree": {"li": [2, 5], "ls": ["b", "c"], "lsch": [{"n": 2, "name": "b"}, {"n": 3, "name": "c"}], "d": {"a": 5, "q": 1},
             "d2": {"x": 1, "y": 2}, "sub": {"li2": [0, 9], "d3": {"a": 0, "z": 4}}},
}
# (kind, nav of the owning configuration, key, rejected whole values: (variant, value, extra setup))
_M3 = [{"n": 4, "name": "x"}, {"n": 5, "name": "y"}, {"n": 6, "name": "z"}]
_WHOLE_FIELDS = [
    ("list<int>", [], "li", [("list", [3, 1], []), ("tuple", (3, 1), []),
                             ("other-proxy", {"$donor": {"nav": ["li"], "muts": [["append", [0]]]}}, []),
                             ("own-proxy", {"$heldnav": ["li"]}, [{"op": "mut", "nav": ["li"], "meth": "append", "args": [0]}])]),
    ("list<string>", [], "ls", [("list", ["a", "b", "c"], []), ("tuple", ("a", "b", "c"), []),
                                ("other-proxy", {"$donor": {"nav": ["ls"], "muts": [["append", ["p"]], ["append", ["q"]]]}}, [])]),
    ("list<schema>", [], "lsch", [("list", _M3, []), ("tuple", tuple(_M3), []),
                                  ("held-item-first", [{"$heldnav": ["lsch", 0]}] + _M3[:2], []),
                                  ("other-proxy", {"$donor": {"nav": ["lsch"], "muts": [["append", [_M3[0]]], ["append", [_M3[1]]]]}}, []),
                                  ("own-proxy", {"$heldnav": ["lsch"]},
                                   [{"op": "mut", "nav": ["lsch"], "meth": "append", "args": [_M3[0]]},
                                    {"op": "mut", "nav": ["lsch"], "meth": "append", "args": [_M3[1]]}])]),
    ("dict<str,int>", [], "d", [("dict", {"b": 1, "c": 2}, []),
                                ("other-proxy", {"$donor": {"nav": ["d"], "muts": [["setitem", ["b", 2]], ["pop", ["a"]]]}}, []),
                                ("own-proxy", {"$heldnav": ["d"]}, [{"op": "mut", "nav": ["d"], "meth": "pop", "args": ["a"]},
                                                                    {"op": "mut", "nav": ["d"], "meth": "setitem", "args": ["k", 1]}])]),
    ("dict<str,int>:sum", [], "d2", [("dict", {"x": 6, "y": 7}, []),
                                     ("other-proxy", {"$donor": {"nav": ["d2"], "muts": [["setitem", ["y", 9]]]}}, [])]),
    ("nested:list<int>", ["sub"], "li2", [("list", [9, 0], []), ("tuple", (9, 0), []),
                                          ("other-proxy", {"$donor": {"nav": ["sub", "li2"], "muts": [["append", [0]]]}}, [])]),
    ("nested:dict<str,int>", ["sub"], "d3", [("dict", {"b": 1}, []),
                                             ("other-proxy", {"$donor": {"nav": ["sub", "d3"], "muts": [["pop", ["a"]], ["setitem", ["b", 1]]]}}, [])]),
]


def whole_cases():
    """(state, setup, obligation, witness_key, variant, op, watch nav): a container field with a field-level validator
    that rejects the value AS A WHOLE (every item is valid) while the configuration already holds a non-empty value"""
    tree = WHOLE["tree"]
    assigned = [{"op": "setattr", "nav": [], "key": k, "value": v} for k, v in tree.items() if k != "sub"]
    assigned += [{"op": "setattr", "nav": ["sub"], "key": k, "value": v} for k, v in tree["sub"].items()]
    states = [("default", []), ("assigned", assigned), ("load_tree", [{"op": "load_tree", "tree": tree}])]
    for how, base in states:
        for kind, nav, key, values in _WHOLE_FIELDS:
            for variant, value, extra in values:
                setup = base + extra
                ev = enc(value)
                wk = "whole-value-validator:%s/%s/" % (kind, how)
                watch = nav + [key]
                yield how, setup, "core:Config._set_value/raise:C06.state-unchanged", wk + "setattr", variant, {
                    "op": "setattr", "nav": nav, "key": key, "value": ev}, watch
                yield how, setup, "core:Config.__setitem__/raise:C06.state-unchanged", wk + "dotted", variant, {
                    "op": "setitem", "path": ".".join(watch), "value": ev}, watch
                if nav:
                    yield how, setup, "core:Config.__setitem__/raise:C06.state-unchanged", wk + "item", variant, {
                        "op": "setitem-on", "nav": nav, "key": key, "value": ev}, watch
                yield how, setup, "core:Config.load_tree/raise:C06.state-unchanged", wk + "load_tree", variant, {
                    "op": "load_tree", "nav": nav, "tree": {key: ev}}, watch
                if nav:
                    # sub-map assigned to the enclosing sub-configuration: accepted sibling first, then the rejected value
                    yield how, setup, "core:Config._set_value/raise:C06.state-unchanged", wk + "submap", variant, {
                        "op": "setattr", "nav": nav[:-1], "key": nav[-1], "value": {"v": 7, key: ev}}, watch
                    yield how, setup, "core:Config.load_tree/raise:C06.state-unchanged", wk + "load_tree-submap", variant, {
                        "op": "load_tree", "nav": nav[:-1], "tree": {nav[-1]: {"v": 7, key: ev}}}, watch


def _freeze(bt, held):
    """contents of a list/dict the user keeps a reference to (config items by identity + state)"""
    if isinstance(held, dict):
        return ("dict", [(repr(k), repr(v)) for k, v in held.items()])
    return ("list", [snapshot(i) if isinstance(i, bt.cc.Config) else repr(i) for i in held])


def check_whole(setup, op, watch, tmp):
    bt = Built(WHOLE, tmp, populate=False)
    root = bt.schema()
    for sop in setup:
        exc = apply_op(bt, root, sop)
        if exc is not None:
            raise AssertionError("driver bug: setup op %r raised %r" % (sop, exc))
    held = navigate(root, watch)          # the reference a user keeps: held = cfg.f
    if not held:
        raise AssertionError("driver bug: %r holds no value" % (watch,))
    frozen, before = _freeze(bt, held), snapshot(root)
    exc = apply_op(bt, root, op)
    if exc is None:
        return "skip", "operation was accepted"
    if not isinstance(exc, ValueError):
        return "skip", "out-of-scope exception %s" % type(exc).__name__
    after = snapshot(root)
    diff = None if before == after else _first_diff(before, after)
    if diff:
        return "fail", "%s raised %s but state changed: %s" % (op["op"], type(exc).__name__, diff)
    if navigate(root, watch) is not held:
        return "fail", "%s raised but the configuration holds another container object" % op["op"]
    after = _freeze(bt, held)
    if after != frozen:
        return "fail", "%s raised but the list/dict the user still references changed: %s" % (op["op"], _first_diff(frozen, after, "held"))
    return "ok", type(exc).__name__


_LIM = {"t": "dict", "kf": {"t": "string", "max_len": 4}, "vf": {"t": "int", "min": 0, "max": 100}}
_TAGS = {"t": "dict", "kf": {"t": "string", "regex": "^[a-z]+$"}, "vf": {"t": "string", "max_len": 3}}
DOTTED = {"root": {"t": "schema", "fields": [
    ["limits", dict(_LIM)],                                         # holds None
    ["lim0", dict(_LIM, default=_c({}))],                           # holds {}
    ["lim1", dict(_LIM, default=_c({"cpu": 1, "mem": 2}))],         # holds a non-empty dict
    ["tags", dict(_TAGS, default=_c({"env": "dev"}))],
    ["n", {"t": "int", "max": 9, "default": _c(1)}], ["s", {"t": "string", "default": _c("str")}], ["none_s", {"t": "string"}],
    ["li", {"t": "list", "item": {"t": "int", "min": 0}, "default": _c([1, 2])}],
    ["virt", {"t": "virtual", "getter": "n"}], ["vdict", {"t": "virtual", "getter": "newdict"}],
    ["app", {"t": "schema", "fields": [
        ["limits", dict(_LIM)], ["lim1", dict(_LIM, default=_c({"cpu": 3}))], ["tags", dict(_TAGS, default=_c({}))],
        ["m", {"t": "int", "default": _c(2)}],
        ["deep", {"t": "schema", "fields": [["lim1", dict(_LIM, default=_c({"io": 4}))], ["limits", dict(_LIM)]]}]]}],
    ["dyn", {"t": "schema", "dynamic": True, "fields": [["k", {"t": "int", "default": _c(0)}]]}]]}}


def dotted_cases():
    """(state name, setup, witness_key, op): dotted-path / item-syntax assignments whose path reaches INTO a container
    field or a missing level; every one that the library rejects must leave the configuration unchanged"""
    assigned = [{"op": "setattr", "nav": [], "key": "limits", "value": {"cpu": 5}},
                {"op": "setattr", "nav": [], "key": "lim0", "value": {"a": 1}},
                {"op": "setattr", "nav": ["app"], "key": "limits", "value": {"b": 2}},
                {"op": "setattr", "nav": ["app", "deep"], "key": "limits", "value": {"c": 3}}]
    resets = [{"op": "reset", "nav": [], "key": "limits"}, {"op": "reset", "nav": [], "key": "lim0"},
              {"op": "reset", "nav": [], "key": "lim1"}, {"op": "reset", "nav": ["app"], "key": "limits"},
              {"op": "reset", "nav": ["app", "deep"], "key": "limits"}]
    inplace = [{"op": "mut", "nav": ["lim0"], "meth": "setitem", "args": ["x", 1]},
               {"op": "mut", "nav": ["app", "tags"], "meth": "setitem", "args": ["k", "v"]}]
    # container state of every dict field per history
    held = {
        "default": {"limits": "none", "lim0": "empty", "lim1": "non-empty", "tags": "non-empty", "app.limits": "none",
                    "app.lim1": "non-empty", "app.tags": "empty", "app.deep.lim1": "non-empty", "app.deep.limits": "none"},
        "assigned": {"limits": "assigned-non-empty", "lim0": "assigned-non-empty", "app.limits": "assigned-non-empty",
                     "app.deep.limits": "assigned-non-empty", "lim1": "non-empty"},
        "after-reset": {"limits": "none-after-reset", "lim0": "empty-after-reset", "lim1": "non-empty-after-reset",
                        "app.limits": "none-after-reset", "app.deep.limits": "none-after-reset"},
        "in-place": {"lim0": "mutated-in-place", "app.tags": "mutated-in-place"},
    }
    setups = {"default": [], "assigned": assigned, "after-reset": assigned + resets, "in-place": inplace}
    for sname, fields in held.items():
        setup = setups[sname]
        for path, cstate in fields.items():
            is_tags = path.endswith("tags")
            elements = [("key-field", "UP" if is_tags else "toolong", "ok" if is_tags else 5),
                        ("key-field:dotted-key", "cpu.x", "ok" if is_tags else 5),
                        ("key-field:type", 7, "ok" if is_tags else 5),
                        ("value-field", "ok" if is_tags else "cpu", "toolong" if is_tags else 101),
                        ("value-field:min-1", "ok" if is_tags else "cpu", 5 if is_tags else -1),
                        ("value-field:type", "ok" if is_tags else "cpu", [1]),
                        ("valid-element", "ok" if is_tags else "cpu", "v" if is_tags else 7)]
            for what, key, value in elements:
                if not isinstance(key, str):
                    continue  # a non-string key cannot be written as a path component
                wk = "dotted-into-container:%s/%s" % (cstate, what)
                yield sname, setup, wk, {"op": "setitem", "path": path + "." + key, "value": enc(value)}
                parts = path.split(".")
                if len(parts) > 1:  # item syntax on the owning sub-configuration and on the one in between
                    yield sname, setup, wk, {"op": "setitem-on", "nav": parts[:-1], "key": parts[-1] + "." + key, "value": enc(value)}
                    if len(parts) > 2:
                        yield sname, setup, wk, {"op": "setitem-on", "nav": parts[:1], "key": ".".join(parts[1:]) + "." + key,
                                                 "value": enc(value)}
    # ---- first / middle component is None, a scalar, a list, an undeclared name, a virtual field
    others = [
        ("none-scalar/not-a-container", "none_s.x", 1), ("scalar:int/not-a-container", "n.x", 1),
        ("scalar:str/not-a-container", "s.x", 1), ("scalar:str/not-a-container", "s.0", "z"),
        ("list/str-index-valid-item", "li.0", 5), ("list/str-index-invalid-item", "li.0", -1),
        ("list/str-index-invalid-item", "li.x", "bad"), ("list/deeper", "li.0.x", 5),
        ("undeclared/first", "nope.x", 1), ("undeclared/first", "nope.x.y", 1), ("undeclared/middle", "app.nope.x", 1),
        ("undeclared/leaf", "app.nope", 1), ("undeclared/leaf", "app.deep.nope", 1),
        ("scalar:int/middle", "app.m.x", 1), ("scalar:int/middle", "app.m.x.y", 1),
        ("none-container/middle", "app.limits.cpu.x", 1), ("none-container/middle", "app.deep.limits.a", 1),
        ("virtual/scalar-getter", "virt.x", 1), ("virtual/dict-getter", "vdict.x", 1), ("virtual/readonly-leaf", "virt", 3),
        ("dynamic/undeclared-middle", "dyn.new.x", 1), ("dynamic/scalar-middle", "dyn.k.x", 1),
        ("dynamic/undeclared-leaf(control)", "dyn.fresh", 1),
        ("subconfig/leaf-not-a-map", "app.deep", 5), ("subconfig/leaf-bad-map", "app.deep", {"lim1": {"toolong": 1}}),
        # ---- empty components
        ("empty-component/a..b", "app..m", 1), ("empty-component/a..b", "app..limits.cpu", 1), ("empty-component/a..b", "lim1..cpu", 1),
        ("empty-component/.a", ".n", 1), ("empty-component/.a", ".app.m", 1), ("empty-component/.a", ".lim1.cpu", 1),
        ("empty-component/a.:rejected-value", "n.", "bad"), ("empty-component/a.:rejected-value", "n.", 10),
        ("empty-component/a.:rejected-value", "app.", 5), ("empty-component/a.:rejected-value", "limits.", {"toolong": 1}),
        ("empty-component/a.:rejected-value", "app.limits.", 5), ("empty-component/a.:rejected-value", "lim1.", {"cpu": -1}),
        ("empty-component/a.:accepted(control)", "n.", 5),
        ("empty-component/empty-path", "", 1), ("empty-component/empty-path", ".", 1), ("empty-component/empty-path", "..", 1),
        ("empty-component/empty-path", "app..", 1), ("empty-component/dynamic", "dyn..k", 1), ("empty-component/dynamic", "dyn.", 5),
    ]
    for sname in ("default", "assigned", "after-reset"):
        for what, path, value in others:
            wk = "dotted-into-container:" + what
            yield sname, setups[sname], wk, {"op": "setitem", "path": path, "value": enc(value)}
            head, _, rest = path.partition(".")
            if head in ("app", "dyn") and rest:
                yield sname, setups[sname], wk, {"op": "setitem-on", "nav": [head], "key": rest, "value": enc(value)}


def load_ops(bt, top):
    """failing document loads: (obligation, witness_key, op, scope) with scope 'parse' | 'include'"""
    ob = "core:Config.loads/raise:C06.state-unchanged"
    tree = top.get("tree")
    if not tree:
        return
    for fmt in FORMATS:
        mals = ["cut-half", "cut-last", "cut-third", "undecodable", "undecodable-mid", "garbage", "empty",
                "trailing-unclosed"]
        for mal in mals:
            yield ob, "parse:%s:%s" % (fmt, mal), {"op": "loads", "fmt": fmt, "doc": {"tree": tree, "malform": mal}}, "parse"
        yield (ob.replace("loads", "load"), "parse-file:%s:cut-half" % fmt,
               {"op": "load", "fmt": fmt, "doc": {"tree": tree, "malform": "cut-half"}}, "parse")
        if fmt in ("json", "yaml", "xml"):
            yield ob, "parse:%s:str-cut-half" % fmt, {"op": "loads", "fmt": fmt, "as_str": True,
                                                      "doc": {"tree": tree, "malform": "cut-half"}}, "parse"
        if fmt == "xml":
            yield ob, "parse:xml:wrong-root", {"op": "loads", "fmt": fmt, "doc": {"tree": tree, "root_tag": "settings"}}, "parse"
            yield ob, "parse:xml:wrong-root-cincoconfig", {"op": "loads", "fmt": fmt,
                                                           "doc": {"tree": tree, "root_tag": "cincoconfig"}}, "parse"
        if not top.get("includes"):
            continue
        ob_inc = "core:Config._process_includes/raise:C06.state-unchanged"
        ext = "inc." + fmt
        inner = {"x": 8, "sub": {"y": "in"}}
        for where, mk in (("root", lambda name: dict(tree, inc=name)),
                          ("depth2", lambda name: dict(tree, sub=dict(tree["sub"], inc2=name))),
                          ("depth3", lambda name: dict(tree, sub=dict(tree["sub"], deep=dict(tree["sub"]["deep"], inc3=name))))):
            yield ob_inc, "include:%s:%s:missing" % (fmt, where), {"op": "loads", "fmt": fmt, "doc": {"tree": mk("nope-" + ext)}}, "include"
            yield ob_inc, "include:%s:%s:is-dir" % (fmt, where), {"op": "loads", "fmt": fmt, "doc": {"tree": mk("adir")}}, "include"
            yield ob_inc, "include:%s:%s:dangling-symlink" % (fmt, where), {
                "op": "loads", "fmt": fmt, "doc": {"tree": mk("dangling")}, "symlinks": {"dangling": "nowhere"}}, "include"
            yield ob_inc, "include:%s:%s:unreadable" % (fmt, where), {
                "op": "loads", "fmt": fmt, "doc": {"tree": mk("locked-" + ext)},
                "files": {"locked-" + ext: {"tree": inner, "mode": 0}}}, "include"
            yield ob_inc, "include:%s:%s:malformed" % (fmt, where), {
                "op": "loads", "fmt": fmt, "doc": {"tree": mk("broken-" + ext)},
                "files": {"broken-" + ext: {"tree": inner, "malform": "cut-half" if fmt != "yaml" else "undecodable"}}}, "include"
            yield ob_inc, "include:%s:%s:wrong-type" % (fmt, where), {"op": "loads", "fmt": fmt, "doc": {"tree": mk(5)}}, "include"
        yield ob_inc, "include:%s:absolute-missing" % fmt, {
            "op": "loads", "fmt": fmt, "doc": {"tree": dict(tree, inc={"$tmp": "absent/dir/x." + fmt})}}, "include"


# ------------------------------------------------------------------------------------------------------------
# the clause
# ------------------------------------------------------------------------------------------------------------
def _schema_table(bt):
    out = [(path, type(field).__name__, id(field)) for path, _, field in bt.cc.get_all_fields(bt.schema)]
    for name, obj in sorted(bt.objs.items()):
        sch = obj if isinstance(obj, bt.cc.Schema) else obj.__schema__
        out += [(name + ":" + path, type(field).__name__, id(field)) for path, _, field in bt.cc.get_all_fields(sch)]
    return out


def _first_diff(a, b, path="root"):
    if type(a) is not type(b):
        return "%s: %r -> %r" % (path, a, b)
    if isinstance(a, dict):
        for k in sorted(set(a) | set(b), key=str):
            if k not in a or k not in b:
                return "%s.%s: %s" % (path, k, "appeared" if k not in a else "disappeared")
            d = _first_diff(a[k], b[k], "%s.%s" % (path, k))
            if d:
                return d
        return None
    if isinstance(a, (list, tuple)):
        if len(a) != len(b):
            return "%s: length %d -> %d (%r -> %r)" % (path, len(a), len(b), a, b)
        for i, (x, y) in enumerate(zip(a, b)):
            d = _first_diff(x, y, "%s[%d]" % (path, i))
            if d:
                return d
        return None
    if a != b and not (a != a and b != b):
        return "%s: %r -> %r" % (path, a, b)
    return None


def _unresolvable(bt, op):
    """oracle of 'include file cannot be resolved', independent of where the library notices it: the include value of
    the (parsing) main document is not a string, or names something that is not a regular file we can read, or a file
    whose content the format rejects"""
    def values(tree):
        for key, val in tree.items():
            if key in ("inc", "inc2", "inc3"):
                yield val
            elif isinstance(val, dict):
                yield from values(val)
    for name in values(dec(op["doc"]["tree"], bt.tmp)):
        if not isinstance(name, str):
            return True
        path = name if os.path.isabs(name) else os.path.join(bt.tmp, name)
        if not os.path.isfile(path):
            return True
        try:
            with open(path, "rb") as fp:
                content = fp.read()
        except OSError:
            return True
        try:
            bt.cc.ConfigFormat.get(op["fmt"]).loads(bt.schema(), content)
        except Exception:  # pylint: disable=broad-except
            return True
    return False


def check(top, setup, op, scope, tmp, populate=True):
    """build a fresh schema + configuration, reach the prior state, run the failing op, evaluate the clause.
    returns (status, detail): 'skip' (op did not fail in the listed way) | 'ok' | 'fail'
    (populate=False: the fixture files of the spec already exist in tmp)"""
    bt = Built(top, tmp, populate)
    root = bt.schema()
    for sop in setup:
        exc = apply_op(bt, root, sop)
        if exc is not None:
            raise AssertionError("driver bug: setup op %r raised %r" % (sop, exc))
    if scope == "parse" and not parse_fails(bt, op):
        return "skip", "document still parses"
    if scope == "include" and parse_fails(bt, op):
        return "skip", "main document does not parse"
    before, table = snapshot(root), _schema_table(bt)
    exc = apply_op(bt, root, op)
    if exc is None:
        return "skip", "operation was accepted"
    if scope == "assign" and not isinstance(exc, ValueError):
        return "skip", "out-of-scope exception %s" % type(exc).__name__
    if scope == "include" and not _unresolvable(bt, op):
        return "skip", "the include file is resolvable here (e.g. unreadable files do not exist for root)"
    after = snapshot(root)
    diff = None if before == after else _first_diff(before, after)
    if diff is None and op["op"] == "ctor":
        diff = _first_diff(table, _schema_table(bt), "schema")
    if diff:
        return "fail", "%s raised %s but state changed: %s" % (op["op"], type(exc).__name__, diff)
    return "ok", type(exc).__name__


def _replay_dict(name, top, setup, op, scope):
    return json.loads(json.dumps({"driver": PID, "schema": name, "spec": top, "setup": setup, "op": op, "scope": scope}))


def rac(tier, seed):
    rec = Recorder(
        PID,
        rule="fixed schema grammar (8 schemas: every scalar field class with boundary options, nested depth 3 with "
             "schema validators, config types, typed/untyped/nested lists incl. lists of Schema/ConfigType, typed "
             "dicts, dynamic schemas, include fields, lists of items with a cross-field validator) x prior states (defaults | accepted assignments | load_tree | "
             "loads + in-place appends) x every candidate failing operation derived from the field options; plus held-item cases (an item the list already holds is "
             "invalidated via a cross-field validator or a required field reset to None, then re-appended / inserted / "
             "assigned to a slot / popped and put back / passed in a whole-list assignment); plus whole-value-validator cases (typed "
             "list<int>/list<string>/list<Schema>/dict<str,int> fields, also one level down, with a field validator "
             "rejecting the value as a whole - sorted / at most 2 / has key 'a' / sum <= 10 - while the configuration "
             "holds a non-empty value from default | assignment | load_tree; value given as list, tuple, proxy of "
             "another configuration, own proxy after in-place mutation, list with a held item; op = attribute, dotted "
             "path, item syntax, load_tree with only that key, sub-map; also checks the reference the user kept); plus dotted-"
             "into-container cases (dotted / item-syntax paths that reach into a typed DictField holding None | {} | a "
             "non-empty dict | after assignment | after reset_value | after in-place mutation, top level and nested "
             "1-2 levels, element rejected by the key or the value field; paths through None / scalar / list / "
             "undeclared / virtual / dynamic components; paths with empty components), any exception counts; a case is "
             "non-trivial iff the real operation raised in one of the listed ways; distinct = (schema, state, witness "
             "class, op)",
        bound="depth <= 3 (+ list items), <= 2 items per list explored, value pools: min-1/max+1/len+-1/wrong type/"
              "None/validator per option, 5 formats x 8 malformations (only those the real parser rejects count) + wrong XML root, include missing/dir/dangling/"
              "unreadable (skipped when run as root)/malformed/wrong-type at depth 1-3",
        tier=tier, seed=seed)
    with sandbox() as tmp:
        n = 0
        for name, top in SPECS:
            sub = os.path.join(tmp, "enum-" + name)
            os.makedirs(sub)
            bt0 = Built(top, sub)
            for sname, setup in setup_variants(bt0, top):
                root = bt0.schema()
                for sop in setup:
                    exc = apply_op(bt0, root, sop)
                    if exc is not None:
                        raise AssertionError("driver bug: setup %s/%s op %r raised %r" % (name, sname, sop, exc))
                cands = [(ob, wk, op, "assign") for ob, wk, op in failing_ops(bt0, top, root)]
                cands += list(load_ops(bt0, top))
                for ob, wk, op, scope in cands:
                    n += 1
                    status, detail = check(top, setup, op, scope, sub, populate=False)
                    key = (name, sname, wk, json.dumps(op, sort_keys=True, default=str)[:160])
                    rec.case(key=key, nontrivial=status != "skip",
                             sample={"schema": name, "state": sname, "witness": wk, "op": op, "result": status}
                             if n % 997 == 1 else None)
                    if status == "fail":
                        rec.violation(obligation=ob, what=detail, witness_key=wk,
                                      replay=_replay_dict(name, top, setup, op, scope))
            for sname, setup, ob, wk, op in held_cases(bt0, top):
                n += 1
                status, detail = check(top, setup, op, "assign", sub, populate=False)
                rec.case(key=(name, sname, wk, json.dumps(op, sort_keys=True)[:160]), nontrivial=status != "skip",
                         sample={"schema": name, "state": sname, "witness": wk, "op": op, "result": status}
                         if op.get("meth") == "append" and "popped" in sname and "pairs" in sname else None)
                if status == "fail":
                    rec.violation(obligation=ob, what="[%s] %s" % (sname, detail), witness_key=wk,
                                  replay=_replay_dict(name, top, setup, op, "assign"))
        sub = os.path.join(tmp, "enum-dotted")
        os.makedirs(sub)
        for sname, setup, wk, op in dotted_cases():
            status, detail = check(DOTTED, setup, op, "any", sub, populate=False)
            rec.case(key=("dotted", sname, wk, json.dumps(op, sort_keys=True)), nontrivial=status != "skip",
                     sample={"schema": "dotted-into-container", "state": sname, "witness": wk, "op": op, "result": status}
                     if (sname, wk) == ("default", "dotted-into-container:none/value-field") else None)
            if status == "fail":
                ob = "core:Config.__setitem__/raise:C06.state-unchanged"
                rec.violation(obligation=ob, what="[%s] %s" % (sname, detail), witness_key=wk,
                              replay=_replay_dict("dotted-into-container", DOTTED, setup, op, "any"))
        sub = os.path.join(tmp, "enum-whole")
        os.makedirs(sub)
        for how, setup, ob, wk, variant, op, watch in whole_cases():
            status, detail = check_whole(setup, op, watch, sub)
            rec.case(key=("whole", wk, variant), nontrivial=status != "skip",
                     sample={"schema": "whole-value-validator", "state": how, "witness": wk, "value": variant, "op": op,
                             "result": status} if (wk, variant) == ("whole-value-validator:list<int>/default/setattr", "other-proxy") else None)
            if status == "fail":
                rec.violation(obligation=ob, what="[value given as %s] %s" % (variant, detail), witness_key=wk,
                              replay=json.loads(json.dumps({"driver": PID, "mode": "whole", "setup": setup, "op": op, "watch": watch})))
        if tier != "quick":
            _thorough(rec, tmp)
    return rec.result(exhaustive=False)


def _thorough(rec, tmp):
    """thorough tier: seeded random prior states (longer accepted histories) before every failing operation"""
    n = 0
    while not rec.out_of_time():
        name, top = SPECS[rec.rng.randrange(len(SPECS))]
        sub = os.path.join(tmp, "t-enum-" + name)
        os.makedirs(sub, exist_ok=True)
        bt0 = Built(top, sub)
        variants = setup_variants(bt0, top)
        setup = []
        for _ in range(rec.rng.randrange(1, 4)):
            setup += variants[rec.rng.randrange(len(variants))][1]
        root = bt0.schema()
        if any(apply_op(bt0, root, sop) is not None for sop in setup):
            continue
        cands = [(ob, wk, op, "assign") for ob, wk, op in failing_ops(bt0, top, root)] + list(load_ops(bt0, top))
        for ob, wk, op, scope in rec.rng.sample(cands, min(len(cands), 150)):
            n += 1
            status, detail = check(top, setup, op, scope, sub, populate=False)
            rec.case(key=(name, "rnd", json.dumps(setup, default=str)[:120], wk, json.dumps(op, default=str)[:120]),
                     nontrivial=status != "skip")
            if status == "fail":
                rec.violation(obligation=ob, what=detail, witness_key=wk, replay=_replay_dict(name, top, setup, op, scope))


def replay(case):
    if case.get("mode") == "whole":
        with sandbox() as tmp:
            status, detail = check_whole(case["setup"], case["op"], case["watch"], tmp)
        return {"fails": status == "fail",
                "expected": "snapshot(root), the held container object and its contents identical after the rejected operation",
                "observed": "%s: %s" % (status, detail)}
    with sandbox() as tmp:
        status, detail = check(case["spec"], case["setup"], case["op"], case["scope"], tmp)
    return {"fails": status == "fail", "expected": "snapshot(root) identical before and after the rejected operation",
            "observed": "%s: %s" % (status, detail)}
