"""C13 - configurations of one schema share no state and never alter the schema (bounded run-time contract driver).

For every schema of a small grammar three configurations are built from the SAME schema object: `other` (before c1
exists or right after it, alternating), `c1`, and `late` (after c1's mutations).  A sequence of operations
(assignments, map assignments, load_tree/loads, reset_value, in-place list/dict mutations incl. mutations of nested
items, dynamic extra fields) runs on c1 ONLY.  Clauses:
  * other-config : snapshot (values at all depths, marks, identities, dynamic field tables) of `other` is
                   identical before and after;
  * later-config : `late` is value-equal to a reference configuration built before anything happened;
  * schema       : deep snapshot of the schema (field set, identity and class of every field, every option in
                   vars(field) rendered deeply, declared defaults evaluated, config types and their schemas) unchanged;
  * sibling-item : item configurations of c1 that the operation does not address (other items of the same list, items
                   of another list with the same reused item schema / config type) are unchanged.
Shared-factory class: the default is a callable that returns THE SAME application-owned object on every call; the four
clauses above apply (the factory's next result is part of the schema snapshot) and the shared object itself must never be
mutated by the library at any level (clause source-object); witness_key "shared-factory-default:<kind>/<level>/<op>".
Cross-assignment class: c2 receives c1's container VALUE OBJECT (`c2.f = c1.f`, dotted, load_tree, constructor keyword)
and an in-place mutation (top level / nested) through c1 or c2 must not show in the other.  Scoping: `c2.f = c1.f` is an
operation on BOTH configurations, whereas the property quantifies over "all operation sequences on one of the pair"; so
the library is held to this only where it itself builds a per-configuration container, i.e. for kinds whose EVERY
container level is a library-made proxy (ListProxy/DictProxy, which carry `.cfg`): list<int>, dict<str,int>,
list<list<int>>, dict<str,list<int>>, list<dict<str,int>>, dict<str,dict<str,int>>.
Not flagged / not enumerated: untyped ListField()/DictField() at any level (documented pass-through: they store the
object the user hands them, so a plain list/dict given to two holders is one object), a Config item the user puts into
two lists, and nested mutable values inside the default of an UNTYPED ListField()/DictField().
"""
import base64
import itertools
import json
import re

from pyvc.raclib import Recorder, sandbox, snapshot

PID = "C13"

# ------------------------------------------------------------------------------------------------------------
# kit: JSON schema specs -> real schemas; JSON values -> python values; navigation
# ------------------------------------------------------------------------------------------------------------
_RESERVED = {"t", "default", "item", "kf", "vf", "startdir", "good", "fields", "dynamic", "name", "schema"}
_CLASSES = {"string": "StringField", "int": "IntField", "float": "FloatField", "port": "PortField",
            "bool": "BoolField", "hostname": "HostnameField", "bytes": "BytesField", "challenge": "ChallengeField",
            "any": "AnyField", "list": "ListField", "dict": "DictField"}


def enc(v):
    if isinstance(v, bytes):
        return {"$bytes": base64.b64encode(v).decode()}
    if isinstance(v, list):
        return [enc(x) for x in v]
    if isinstance(v, dict):
        return {k: enc(x) for k, x in v.items()}
    return v


def dec(v):
    """JSON-able -> python value (fresh objects on every call)"""
    if isinstance(v, list):
        return [dec(x) for x in v]
    if isinstance(v, dict):
        if len(v) == 1 and "$bytes" in v:
            return base64.b64decode(v["$bytes"])
        return {k: dec(x) for k, x in v.items()}
    return v


class Built:
    """one materialisation of a top-level spec {"defs": {...}, "root": schema-spec}"""

    def __init__(self, top):
        import cincoconfig
        self.cc = cincoconfig
        self.top, self.objs, self.shared = top, {}, []
        self.schema = self.field(top["root"])
        self.shared_before = [vsnap(o) for o in self.shared]

    def resolve(self, fs):
        return self.top["defs"][fs["name"]] if fs["t"] == "ref" else fs

    def field(self, fs):
        t = fs["t"]
        if t == "ref":
            if fs["name"] not in self.objs:
                self.objs[fs["name"]] = self.field(self.top["defs"][fs["name"]])
            return self.objs[fs["name"]]
        if t == "schema":
            sch = self.cc.Schema(dynamic=bool(fs.get("dynamic")))
            for key, sub in fs["fields"]:
                setattr(sch, key, self.field(sub))
            return sch
        if t == "ctype":
            return self.cc.make_type(self.field(fs["schema"]), fs["name"], module=__name__)
        kw = {k: dec(v) for k, v in fs.items() if k not in _RESERVED}
        if "default" in fs:
            d = fs["default"]
            if "const" in d:
                kw["default"] = dec(d["const"])  # ONE object owned by the schema (the "declared default")
            elif "shared" in d:
                obj = dec(d["shared"])  # ONE application-owned object handed out by every call of the factory
                self.shared.append(obj)
                kw["default"] = (lambda o: (lambda: o))(obj)
            else:
                kw["default"] = (lambda v: (lambda: dec(v)))(d["fresh"])
        cls = getattr(self.cc, _CLASSES[t])
        if t == "list":
            return cls(self.field(fs["item"]) if "item" in fs else None, **kw)
        if t == "dict":
            return cls(self.field(fs["kf"]) if "kf" in fs else None, self.field(fs["vf"]) if "vf" in fs else None,
                       **kw)
        return cls(**kw)


def navigate(root, nav):
    obj = root
    for step in nav:
        if isinstance(step, dict):
            obj = obj[step["k"]]
        elif isinstance(step, int):
            obj = obj[step]
        else:
            obj = obj._get_value(step)
    return obj


# ------------------------------------------------------------------------------------------------------------
# snapshots
# ------------------------------------------------------------------------------------------------------------
def vsnap(v):
    """identity-free deep rendering of a configuration / value"""
    from cincoconfig.core import Config
    if isinstance(v, Config):
        return ("cfg", type(v).__name__, tuple(sorted(v._default_value_keys)), tuple(sorted(v._fields)),
                tuple((k, vsnap(x)) for k, x in v._data.items()))
    if isinstance(v, list):
        return ("list", type(v).__name__, tuple(vsnap(x) for x in v))
    if isinstance(v, dict):
        return ("dict", type(v).__name__, tuple((vsnap(k), vsnap(x)) for k, x in v.items()))
    if isinstance(v, tuple):
        if type(v).__name__ == "DigestValue":
            return ("digest", v.digest and len(v.digest))  # salt is random per configuration by design
        return ("tuple",) + tuple(vsnap(x) for x in v)
    if isinstance(v, float) and v != v:
        return ("nan",)
    if isinstance(v, (str, int, float, bool, bytes, type(None))):
        return (type(v).__name__, v)
    return (type(v).__name__, repr(v)[:120])


def deep_snapshot(cfg):
    """raclib.snapshot (identities, marks, dynamic field tables) + full-depth values"""
    return {"ids": snapshot(cfg), "values": vsnap(cfg)}


def _ordinal(obj, seen):
    if id(obj) not in seen:
        seen[id(obj)] = (len(seen), obj)  # keeps obj alive so that ids are not reused within one snapshot
    return seen[id(obj)][0]


def ssnap(obj, seen):
    """deep, copied rendering of a schema: field table, identity (as first-visit ordinal, so that two materialisations
    of one spec render identically) + class of every field, every option in vars(field), declared defaults evaluated,
    config types with their schemas"""
    if obj is None or isinstance(obj, (str, int, float, bool, bytes)):
        return vsnap(obj)
    from cincoconfig.core import BaseField, ConfigType, Field
    if isinstance(obj, BaseField):
        if id(obj) in seen:
            return ("field-ref", seen[id(obj)][0])
        out = {"class": type(obj).__name__, "id": _ordinal(obj, seen)}
        for key, val in sorted(vars(obj).items()):
            out[key] = ("owner", None if val is None else _ordinal(val, seen)) if key == "_schema" else ssnap(val, seen)
        if isinstance(obj, Field):
            out["default evaluated"] = vsnap(obj.default)
        return out
    if isinstance(obj, type) and issubclass(obj, ConfigType):
        if id(obj) in seen:
            return ("type-ref", seen[id(obj)][0])
        return {"config type": obj.__name__, "id": _ordinal(obj, seen), "__schema__": ssnap(obj.__schema__, seen),
                "__key_filename__": obj.__key_filename__}
    if isinstance(obj, dict):
        return {"dict " + type(obj).__name__: [(vsnap(k), ssnap(v, seen)) for k, v in obj.items()]}
    if isinstance(obj, (list, tuple)):
        return {"seq " + type(obj).__name__: [ssnap(v, seen) for v in obj]}
    if isinstance(obj, re.Pattern):
        return ("regex", obj.pattern)
    if callable(obj):
        return ("callable", _ordinal(obj, seen))
    return vsnap(obj)


def schema_snapshot(bt):
    seen = {}
    out = {"root": ssnap(bt.schema, seen)}
    for name, obj in sorted(bt.objs.items()):
        out["def " + name] = ssnap(obj, seen)
    out["all fields"] = [(path, type(field).__name__, _ordinal(field, seen))
                         for path, _, field in bt.cc.get_all_fields(bt.schema)]
    return out


_PRISTINE = {}


def pristine(top):
    """(schema snapshot, value snapshot of a fresh configuration) of an untouched materialisation of the spec"""
    hit = _PRISTINE.get(id(top))
    if hit is None or hit[0] is not top:
        bt = Built(top)
        hit = _PRISTINE[id(top)] = (top, schema_snapshot(bt), vsnap(bt.schema()))
    return hit[1], hit[2]


def first_diff(a, b, path=""):
    if type(a) is not type(b):
        return path, "%r -> %r" % (a, b)
    if isinstance(a, dict):
        for k in list(a) + [k for k in b if k not in a]:
            if k not in a or k not in b:
                return "%s/%s" % (path, k), "appeared" if k not in a else "disappeared"
            d = first_diff(a[k], b[k], "%s/%s" % (path, k))
            if d:
                return d
        return None
    if isinstance(a, (list, tuple)):
        if len(a) != len(b):
            return path, "length %d -> %d: %s -> %s" % (len(a), len(b), _short(a), _short(b))
        for i, (x, y) in enumerate(zip(a, b)):
            tag = x[0] if isinstance(x, tuple) and len(x) == 2 and isinstance(x[0], str) and isinstance(y, tuple) and y[:1] == x[:1] else i
            d = first_diff(x, y, "%s/%s" % (path, tag))
            if d:
                return d
        return None
    if a != b:
        return path, "%s -> %s" % (_short(a), _short(b))
    return None


def _short(v):
    return repr(v)[:90]


# ------------------------------------------------------------------------------------------------------------
# schema grammar
# ------------------------------------------------------------------------------------------------------------
def _c(v):
    return {"const": v}


ITEM = {"t": "schema", "dynamic": True, "good": [{"q": 7, "tags": [3]}, {"q": 8}],
        "fields": [["q", {"t": "int", "default": _c(0)}],
                   ["tags", {"t": "list", "item": {"t": "int"}, "default": _c([1])}],
                   ["meta", {"t": "dict", "kf": {"t": "string"}, "vf": {"t": "int"}, "default": _c({"m": 1})}]]}
HOST = {"t": "ctype", "name": "Host", "schema": {
    "t": "schema", "good": [{"h": "g.example", "p": 81}, {"h": "1.2.3.4"}],
    "fields": [["h", {"t": "hostname", "default": _c("localhost")}], ["p", {"t": "port", "default": _c(80)}],
               ["al", {"t": "list", "item": {"t": "string"}, "default": _c(["x"])}]]}}

SPECS = [
    ("lists", {"root": {"t": "schema", "fields": [
        ["li", {"t": "list", "item": {"t": "int"}, "default": _c([1, 2])}],
        ["ls", {"t": "list", "item": {"t": "string"}, "default": {"fresh": ["a"]}}],
        ["lu", {"t": "list", "default": _c([1, "x"])}],
        ["ll", {"t": "list", "item": {"t": "list", "item": {"t": "int"}}, "default": _c([[1], [2, 3]])}],
        ["n", {"t": "int", "default": _c(1)}]]},
        "tree": {"li": [9], "ll": [[7]], "n": 2}}),
    ("dicts", {"root": {"t": "schema", "fields": [
        ["d", {"t": "dict", "kf": {"t": "string"}, "vf": {"t": "int"}, "default": _c({"a": 1})}],
        ["du", {"t": "dict", "default": _c({"k": 1})}],
        ["dl", {"t": "dict", "vf": {"t": "list", "item": {"t": "int"}}, "default": _c({"k": [1]})}],
        ["dfresh", {"t": "dict", "kf": {"t": "string"}, "default": {"fresh": {"f": [1]}}}],
        ["s", {"t": "string", "default": _c("s")}]]},
        "tree": {"d": {"z": 5}, "dl": {"y": [2]}, "s": "t"}}),
    ("nested", {"defs": {"Host": HOST}, "root": {"t": "schema", "fields": [
        ["top", {"t": "int", "default": _c(1)}],
        ["a", {"t": "schema", "good": [{"x": 5, "b": {"y": "m"}}], "fields": [
            ["x", {"t": "int", "default": _c(1)}],
            ["xs", {"t": "list", "item": {"t": "int"}, "default": _c([1])}],
            ["b", {"t": "schema", "good": [{"y": "q"}], "fields": [
                ["y", {"t": "string", "default": _c("y")}],
                ["m", {"t": "dict", "kf": {"t": "string"}, "vf": {"t": "int"}, "default": _c({"k": 1})}],
                ["t", {"t": "ref", "name": "Host"}]]}]]}],
        ["host", {"t": "ref", "name": "Host"}],
        ["pw", {"t": "challenge", "default": _c("pw")}],
        ["by", {"t": "bytes", "default": _c({"$bytes": "YWI="})}]]},
        "tree": {"top": 2, "a": {"x": 3, "b": {"y": "z", "t": {"p": 8}}}, "host": {"h": "h.example"}}}),
    ("dynamic", {"root": {"t": "schema", "dynamic": True, "fields": [
        ["x", {"t": "int", "default": _c(1)}],
        ["sub", {"t": "schema", "dynamic": True, "good": [{"y": "b", "added": 1}],
                 "fields": [["y", {"t": "string", "default": _c("y")}]]}],
        ["items", {"t": "list", "item": {"t": "schema", "dynamic": True, "good": [{"q": 5, "free": [1]}],
                                         "fields": [["q", {"t": "int", "default": _c(0)}]]},
                   "default": _c([{"q": 1, "free": "v"}, {"q": 2}])}]]},
        "tree": {"x": 2, "extra_loaded": [1, 2], "sub": {"y": "b", "more": {"k": 1}}, "items": [{"q": 3, "zz": 1}]}}),
    ("reuse", {"defs": {"Item": ITEM, "Host": HOST}, "root": {"t": "schema", "fields": [
        ["a", {"t": "list", "item": {"t": "ref", "name": "Item"}, "default": _c([{"q": 1}, {"q": 2}])}],
        ["b", {"t": "list", "item": {"t": "ref", "name": "Item"}, "default": _c([{"q": 3}])}],
        ["ha", {"t": "list", "item": {"t": "ref", "name": "Host"}, "default": _c([{"h": "a.example"}, {"h": "b.example"}])}],
        ["hb", {"t": "list", "item": {"t": "ref", "name": "Host"}, "default": {"fresh": [{"h": "c.example"}]}}],
        ["one", {"t": "ref", "name": "Host"}]]},
        "tree": {"a": [{"q": 4, "dyn": 1}], "hb": [{"h": "d.example", "al": ["y"]}]}}),
    # ---- typed containers whose item / value field hands its argument back unchanged, with a mutable default
    ("list<dict>/default", {"root": {"t": "schema", "fields": [
        ["items", {"t": "list", "item": {"t": "dict"}, "default": _c([{"a": 1}])}]]}}),
    ("list<list>/default", {"root": {"t": "schema", "fields": [
        ["items", {"t": "list", "item": {"t": "list"}, "default": _c([[1]])}]]}}),
    ("list<any>/default", {"root": {"t": "schema", "fields": [
        ["items", {"t": "list", "item": {"t": "any"}, "default": _c([{"a": 1}, [2]])}]]}}),
    ("dict<str,list>/default", {"root": {"t": "schema", "fields": [
        ["d", {"t": "dict", "kf": {"t": "string"}, "vf": {"t": "list"}, "default": _c({"k": [1]})}]]}}),
    ("dict<str,dict>/default", {"root": {"t": "schema", "fields": [
        ["d", {"t": "dict", "kf": {"t": "string"}, "vf": {"t": "dict"}, "default": _c({"k": {"n": 1}})}]]}}),
    ("dict<str,any>/default", {"root": {"t": "schema", "fields": [
        ["d", {"t": "dict", "kf": {"t": "string"}, "default": _c({"k": [1]})}]]}}),
    ("list<schema{untyped-list}>/default", {"root": {"t": "schema", "fields": [
        ["items", {"t": "list", "item": {"t": "schema", "good": [{"tags": [5]}], "fields": [["tags", {"t": "list"}]]},
                   "default": _c([{"tags": [1]}])}]]}}),
    ("list<schema{untyped-dict}>/default", {"root": {"t": "schema", "fields": [
        ["items", {"t": "list", "item": {"t": "schema", "good": [{"meta": {"z": 5}}], "fields": [["meta", {"t": "dict"}]]},
                   "default": _c([{"meta": {"k": 1}}])}]]}}),
    # ---- EMPTY container defaults, typed and untyped
    ("empty-defaults", {"root": {"t": "schema", "fields": [
        ["li0", {"t": "list", "item": {"t": "int"}, "default": _c([])}],
        ["lu0", {"t": "list", "default": _c([])}],
        ["ll0", {"t": "list", "item": {"t": "list"}, "default": _c([])}],
        ["ls0", {"t": "list", "item": {"t": "schema", "good": [{"q": 5}], "fields": [["q", {"t": "int", "default": _c(0)}]]},
                 "default": _c([])}],
        ["d0", {"t": "dict", "kf": {"t": "string"}, "vf": {"t": "int"}, "default": _c({})}],
        ["du0", {"t": "dict", "default": _c({})}],
        ["dl0", {"t": "dict", "kf": {"t": "string"}, "vf": {"t": "list"}, "default": _c({})}]]}}),
    # ---- the same shapes with a callable default that returns fresh objects: nothing may be shared
    ("list<dict>/fresh", {"root": {"t": "schema", "fields": [
        ["items", {"t": "list", "item": {"t": "dict"}, "default": {"fresh": [{"a": 1}]}}]]}}),
    ("dict<str,list>/fresh", {"root": {"t": "schema", "fields": [
        ["d", {"t": "dict", "kf": {"t": "string"}, "vf": {"t": "list"}, "default": {"fresh": {"k": [1]}}}]]}}),
]


_S, _D, _L, _I = {"t": "string"}, {"t": "dict"}, {"t": "list"}, {"t": "int"}
# callable defaults that hand out ONE shared application object (kind, field spec, the object), besides fresh / literal
_SHARED = [
    ("dict()[nested]", _D, {"k": {"n": 1}, "l": [1]}), ("dict()[empty]", _D, {}),
    ("dict<str,dict>[nested]", {"t": "dict", "kf": _S, "vf": _D}, {"k": {"n": {"m": 1}}}),
    ("dict<str,list>[nested]", {"t": "dict", "kf": _S, "vf": _L}, {"k": [1, [2]]}),
    ("dict<str,any>[nested]", {"t": "dict", "kf": _S}, {"k": {"n": [1]}, "l": [1]}),
    ("dict<str,int>[flat]", {"t": "dict", "kf": _S, "vf": _I}, {"k": 1}), ("dict<str,int>[empty]", {"t": "dict", "kf": _S, "vf": _I}, {}),
    ("list()[nested]", _L, [{"a": 1}, [2]]), ("list()[empty]", _L, []),
    ("list<dict>[nested]", {"t": "list", "item": _D}, [{"a": {"b": 1}}]),
    ("list<list>[nested]", {"t": "list", "item": _L}, [[1, [2]]]),
    ("list<any>[nested]", {"t": "list", "item": {"t": "any"}}, [{"a": 1}, [2]]),
    ("list<int>[flat]", {"t": "list", "item": _I}, [1, 2]), ("list<int>[empty]", {"t": "list", "item": _I}, []),
]
SHARED_SPECS = [(kind, {"class": "shared-factory-default", "root": {"t": "schema", "fields": [
    ["f", dict(fspec, default={"shared": obj})], ["w", {"t": "int", "default": _c(1)}]]}}) for kind, fspec, obj in _SHARED]
SHARED_SPECS += [(kind + "/" + mode, {"class": "shared-factory-default", "root": {"t": "schema", "fields": [
    ["f", dict(fspec, default={tag: obj})], ["w", {"t": "int", "default": _c(1)}]]}})
    for kind, fspec, obj in (_SHARED[0], _SHARED[7]) for mode, tag in (("fresh-factory", "fresh"), ("literal", "const"))]


def _culprit(op):
    """(level, operation name) of the operation a shared-factory finding is attributed to"""
    if op is None:
        return "top", "construct"
    if op["op"] == "mut":
        name = {"delitem": "del", "iadd": "iadd"}.get(op["meth"], op["meth"])
        return ("nested" if len(op["nav"]) > 1 else "top"), name
    return "top", {"setattr": "assign", "setitem": "assign-dotted"}.get(op["op"], op["op"])


# ------------------------------------------------------------------------------------------------------------
# operations on c1
# ------------------------------------------------------------------------------------------------------------
def good_values(bt, fs):
    fs = bt.resolve(fs)
    t = fs["t"]
    if "good" in fs:
        return [dec(g) for g in fs["good"]]
    if t in ("schema", "ctype"):
        return [dec(g) for g in (fs["schema"] if t == "ctype" else fs).get("good", [])]
    if t == "list":
        items = good_values(bt, fs["item"]) if "item" in fs else [5, "u"]
        return [items[:1], []]
    if t == "dict":
        keys = good_values(bt, fs["kf"]) if "kf" in fs else ["gk"]
        vals = good_values(bt, fs["vf"]) if "vf" in fs else [5]
        return [{keys[0]: vals[0]}, {}]
    return {"int": [41, 42], "string": ["g1", "g2"], "float": [4.5], "port": [81, 82], "bool": [False, True],
            "hostname": ["g.example"], "bytes": [b"g"], "challenge": ["gpw"], "any": [{"g": 1}, [1]]}[t]


def _sub(bt, fs):
    fs = bt.resolve(fs)
    return fs["schema"] if fs["t"] == "ctype" else fs


def _leafs(bt, sspec, cfg, nav):
    is_cfg = lambda v: isinstance(v, bt.cc.Config)  # noqa: E731
    for key, fs in sspec["fields"]:
        fs = bt.resolve(fs)
        val = cfg._data.get(key)
        yield nav, key, fs, val, sspec
        if fs["t"] in ("schema", "ctype"):
            if is_cfg(val):
                yield from _leafs(bt, _sub(bt, fs), val, nav + [key])
        elif fs["t"] == "list" and "item" in fs and isinstance(val, list):
            ispec = bt.resolve(fs["item"])
            if ispec["t"] in ("schema", "ctype"):
                for idx in range(min(len(val), 1)):
                    if is_cfg(val[idx]):
                        yield from _leafs(bt, _sub(bt, ispec), val[idx], nav + [key, idx])


def _container_ops(nav, val, item_goods, key_goods=None, depth=0):
    """in-place mutations of the list/dict at nav (and of its nested mutable items)"""
    mut = lambda meth, *args: {"op": "mut", "nav": nav, "meth": meth, "args": enc(list(args))}  # noqa: E731
    if isinstance(val, list):
        g = item_goods[0] if item_goods else 5
        yield mut("append", g)
        if depth == 0:
            yield mut("insert", 0, g)
            yield mut("iadd", [g])
        if val:
            yield mut("setitem", 0, item_goods[-1] if item_goods else 6)
            yield mut("pop")
            yield mut("clear")
            if depth == 0:
                yield mut("delitem", 0)
                yield mut("reverse")
        for idx, item in enumerate(val[:1]):
            if isinstance(item, (list, dict)) and depth < 2:
                inner = [9] if isinstance(item, list) else [9]
                for op in _container_ops(nav + [idx], item, inner, ["zz"], depth + 1):
                    if op["meth"] in ("append", "setitem", "clear", "update", "pop"):
                        yield op
    elif isinstance(val, dict):
        k = (key_goods or ["gk"])[0]
        g = item_goods[0] if item_goods else 5
        yield mut("setitem", k, g)
        if depth == 0:
            yield mut("update", {k: g})
            yield mut("setdefault", k + "2" if isinstance(k, str) else k, g)
        if val:
            first = next(iter(val))
            yield mut("setitem", first, g)
            yield mut("delitem", first)
            yield mut("clear")
            if depth == 0:
                yield mut("pop", first)
            item = val[first]
            if isinstance(item, (list, dict)) and depth < 2:
                for op in _container_ops(nav + [{"k": first}], item, [9], ["zz"], depth + 1):
                    if op["meth"] in ("append", "setitem", "clear", "update", "pop"):
                        yield op


def discover(bt, top, c1):
    """alphabet of operations applicable to c1 in its initial state (JSON-able)"""
    ops = []
    for nav, key, fs, val, owner in _leafs(bt, top["root"], c1, []):
        t = fs["t"]
        plain = all(isinstance(s, str) for s in nav)
        path = ".".join(nav + [key]) if plain else None
        goods = good_values(bt, fs)
        for g in goods[:1]:
            if plain and nav:
                ops.append({"op": "setitem", "path": path, "value": enc(g)})
            else:
                ops.append({"op": "setattr", "nav": nav, "key": key, "value": enc(g)})
        if plain:
            ops.append({"op": "reset", "path": path})
        if not nav and t not in ("schema", "ctype", "list", "dict") and not any(o.get("value", 0) is None for o in ops):
            ops.append({"op": "setattr", "nav": nav, "key": key, "value": None})
        if t in ("schema", "ctype"):
            if _sub(bt, fs).get("dynamic"):
                ops.append({"op": "setattr", "nav": nav + [key], "key": "extra_" + key, "value": [1, {"e": 1}]})
        elif isinstance(val, list):
            ig = good_values(bt, fs["item"]) if "item" in fs else [5]
            ops += list(_container_ops(nav + [key], val, ig))
        elif isinstance(val, dict):
            kg = good_values(bt, fs["kf"]) if "kf" in fs else ["gk"]
            vg = good_values(bt, fs["vf"]) if "vf" in fs else [5]
            ops += list(_container_ops(nav + [key], val, vg, kg))
        if owner.get("dynamic") and not plain and key == owner["fields"][0][0]:
            ops.append({"op": "setattr", "nav": nav, "key": "extra_item", "value": {"e": [1]}})
    if top["root"].get("dynamic"):
        ops.append({"op": "setattr", "nav": [], "key": "extra_root", "value": [1, 2]})
        ops.append({"op": "mut", "nav": ["extra_root"], "meth": "append", "args": [3]})
    if top.get("tree"):
        ops.append({"op": "load_tree", "tree": top["tree"]})
        ops.append({"op": "loads", "fmt": ["json", "yaml", "xml", "pickle", "bson"][len(ops) % 5], "tree": top["tree"]})
    return ops


def apply_op(bt, c1, op):
    """run one operation on c1; exceptions (e.g. pop from a list emptied earlier in the sequence) are part of the
    history, not failures: the clauses hold for every sequence of operations, failing or not"""
    kind = op["op"]
    try:
        if kind == "setattr":
            setattr(navigate(c1, op["nav"]), op["key"], dec(op["value"]))
        elif kind == "setitem":
            c1[op["path"]] = dec(op["value"])
        elif kind == "reset":
            bt.cc.reset_value(c1, op["path"])
        elif kind == "load_tree":
            c1.load_tree(dec(op["tree"]))
        elif kind == "loads":
            c1.loads(bt.cc.ConfigFormat.get(op["fmt"]).dumps(c1, dec(op["tree"])), op["fmt"])
        elif kind == "mut":
            obj, args, meth = navigate(c1, op["nav"]), dec(op["args"]), op["meth"]
            if meth == "setitem":
                obj[args[0]] = args[1]
            elif meth == "delitem":
                del obj[args[0]]
            elif meth == "iadd":
                obj += args[0]
            else:
                getattr(obj, meth)(*args)
        else:
            raise AssertionError(op)
    except AssertionError:
        raise
    except Exception as exc:  # pylint: disable=broad-except
        return exc
    return None


def _item_navs(bt, top, c1):
    """navs of all item configurations held in lists of c1 (for the sibling-item clause)"""
    out = []
    for nav, key, fs, val, _ in _leafs(bt, top["root"], c1, []):
        if fs["t"] == "list" and "item" in fs and isinstance(val, list) and all(isinstance(s, str) for s in nav):
            if bt.resolve(fs["item"])["t"] in ("schema", "ctype"):
                out += [nav + [key, idx] for idx in range(len(val)) if isinstance(val[idx], bt.cc.Config)]
    return out


def _addressed(op):
    """nav prefix (list field + index) of the item configuration an operation addresses, or None"""
    nav = op.get("nav")
    if nav is None:
        return None
    for i, step in enumerate(nav):
        if isinstance(step, int):
            return nav[:i + 1]
    return None


# ------------------------------------------------------------------------------------------------------------
# the clauses
# ------------------------------------------------------------------------------------------------------------
def check(top, ops):
    """returns list of (clause, field type of the first differing top-level key, message)"""
    sch_before, reference = pristine(top)
    bt = Built(top)
    # the other configuration of the pair is built before c1 exists or after it (alternating with the sequence length)
    if len(ops) % 2 == 0:
        other = bt.schema()
        c1 = bt.schema()
    else:
        c1 = bt.schema()
        other = bt.schema()
    other_before = deep_snapshot(other)
    # sibling items: only for sequences in which every op addresses ONE item configuration (no list restructuring)
    addressed = [_addressed(op) for op in ops]
    watch = {}
    if ops and all(a is not None for a in addressed):
        for nav in _item_navs(bt, top, c1):
            if not any(nav == a for a in addressed):
                item = navigate(c1, nav)
                watch[json.dumps(nav)] = (item, deep_snapshot(item))
    for op in ops:
        apply_op(bt, c1, op)
    late = bt.schema()
    out = []
    keys = dict((k, bt.resolve(f)["t"]) for k, f in top["root"]["fields"])

    def ftype(path):
        """field type of the first top-level key on the path of a difference"""
        for part in (path or "").split("/"):
            if part in keys:
                return keys[part]
        return "config"

    after = deep_snapshot(other)
    if after != other_before:
        d = first_diff(other_before, after)
        out.append(("other-config", ftype(d[0]), "another configuration of the same schema (built %s c1) changed at %s: %s"
                    % ("before" if len(ops) % 2 == 0 else "after", d[0], d[1])))
    after = vsnap(late)
    if after != reference:
        d = first_diff(reference, after)
        out.append(("later-config", ftype(d[0]), "a configuration built afterwards differs from a fresh one at %s: %s" % d))
    after = schema_snapshot(bt)
    if after != sch_before:
        d = first_diff(sch_before, after)
        parts = d[0].split("/")
        if "_default" in parts or "default evaluated" in parts:
            what = "schema-default"
        elif "all fields" in parts or (parts[-1].startswith("dict ") and parts[-2:-1] == ["_fields"]):
            what = "schema-fields"
        else:
            what = "schema-options"
        out.append((what, "schema", "schema changed at %s: %s" % d))
    after = [vsnap(o) for o in bt.shared]
    if after != bt.shared_before:
        d = first_diff(bt.shared_before, after)
        out.append(("source-object", ftype("/f"), "the object the default factory hands out was mutated at %s: %s" % d))
    for nav, (item, before) in watch.items():
        after = deep_snapshot(item)
        if after != before:
            d = first_diff(before, after)
            out.append(("sibling-item", "list", "item configuration c1%s (not addressed) changed at %s: %s" % (nav, d[0], d[1])))
            break
    return out


# (kind, field spec, constant default, value assigned in the "assigned" source state, [(level, nav below f, method, args)])
# Scope of the cross-assignment class: ONLY container kinds whose every container level is a library-made proxy
# (ListProxy / DictProxy, which carry `.cfg`).  `c2.f = c1.f` is an operation on BOTH configurations, while the C13
# quantifier is "all operation sequences on one of the pair"; the library is therefore held to it only where it
# builds a per-configuration container itself.  Deliberately NOT enumerated: untyped ListField()/DictField() at any
# level (they store the object the user hands them - documented pass-through, so a plain list/dict given to two
# holders stays one object) and lists of Schema/ConfigType items (a Config object the user puts into two lists).
_SI = {"t": "dict", "kf": {"t": "string"}, "vf": {"t": "int"}}
CROSS = [
    ("list<int>", {"t": "list", "item": {"t": "int"}}, [1, 2], [3, 4], [("top", [], "append", [9]), ("top", [], "setitem", [0, 7])]),
    ("dict<str,int>", _SI, {"k": 1}, {"k": 2}, [("top", [], "setitem", ["zz", 9]), ("top", [], "pop", ["k"])]),
    ("list<list<int>>", {"t": "list", "item": {"t": "list", "item": {"t": "int"}}}, [[1], [2]], [[3]],
     [("top", [], "append", [[7]]), ("nested", [0], "append", [9]), ("nested", [0], "setitem", [0, 8])]),
    ("dict<str,list<int>>", {"t": "dict", "kf": {"t": "string"}, "vf": {"t": "list", "item": {"t": "int"}}}, {"k": [1]}, {"k": [2]},
     [("top", [], "setitem", ["zz", [9]]), ("nested", [{"k": "k"}], "append", [9])]),
    ("list<dict<str,int>>", {"t": "list", "item": _SI}, [{"a": 1}], [{"b": 2}],
     [("top", [], "append", [{"c": 3}]), ("nested", [0], "setitem", ["zz", 9]), ("nested", [0], "clear", [])]),
    ("dict<str,dict<str,int>>", {"t": "dict", "kf": {"t": "string"}, "vf": _SI}, {"k": {"n": 1}}, {"k": {"n": 2}},
     [("top", [], "setitem", ["zz", {"y": 1}]), ("nested", [{"k": "k"}], "setitem", ["zz", 9])]),
]
TRANSFERS = ("setattr", "setitem", "load_tree", "ctor")


def cross_cases():
    for kind, fspec, default, assigned, muts in CROSS:
        top = {"root": {"t": "schema", "fields": [["f", dict(fspec, default=_c(default))],
                                                   ["w", {"t": "int", "default": _c(1)}]]}}
        for source in ("default", "assigned"):
            for transfer in TRANSFERS:
                for via in ("c1", "c2"):
                    for level, nav, meth, args in muts:
                        yield {"driver": PID, "mode": "cross", "kind": kind, "spec": top, "source": source,
                               "value": assigned, "transfer": transfer, "via": via, "level": level,
                               "op": {"op": "mut", "nav": ["f"] + nav, "meth": meth, "args": args}}


def check_cross(case):
    """c1 holds a container (its default or an assigned value); c2 receives c1's value OBJECT by assignment / dotted
    assignment / load_tree / constructor keyword; an in-place mutation through one configuration must not show in the
    other.  returns (status, message): 'ok' | 'fail' | 'skip' (transfer or mutation not applicable)"""
    bt = Built(case["spec"])
    c1, c2 = bt.schema(), bt.schema()
    try:
        if case["source"] == "assigned":
            c1.f = dec(case["value"])
        obj = c1.f
        if case["transfer"] == "setattr":
            c2.f = obj
        elif case["transfer"] == "setitem":
            c2["f"] = obj
        elif case["transfer"] == "load_tree":
            c2.load_tree({"f": obj})
        else:
            c2 = bt.schema(f=obj)
    except Exception as exc:  # pylint: disable=broad-except
        return "skip", "transfer raised %s" % type(exc).__name__
    target, other = (c1, c2) if case["via"] == "c1" else (c2, c1)
    before = deep_snapshot(other)
    exc = apply_op(bt, target, case["op"])
    if exc is not None:
        return "skip", "mutation raised %s" % type(exc).__name__
    after = deep_snapshot(other)
    if after != before:
        d = first_diff(before, after)
        return "fail", "after `c2.f <- c1.f` (%s, c1.f from %s) the mutation %s through %s shows in %s at %s: %s" % (
            case["transfer"], case["source"], json.dumps(case["op"]), case["via"], "c2" if other is c2 else "c1", d[0], d[1])
    return "ok", None


def _cross_obligation(case):
    dict_kind = case["kind"].startswith("dict")
    mod, cls = ("fields.dict_field", "DictField") if dict_kind else ("fields.list_field", "ListField")
    meth = "to_python" if case["transfer"] == "load_tree" else "_validate"
    return "%s:%s.%s/post:C13.assigned-container-not-shared-between-configs" % (mod, cls, meth)


OBLIGATIONS = {
    ("other-config", "list"): "fields.list_field:ListField.__setdefault__/post:C13.default-not-shared-between-configs",
    ("other-config", "dict"): "fields.dict_field:DictField.__setdefault__/post:C13.default-not-shared-between-configs",
    ("other-config", "schema"): "core:Schema.__setdefault__/post:C13.subconfig-not-shared-between-configs",
    ("other-config", "ctype"): "core:ConfigTypeField.__setdefault__/post:C13.subconfig-not-shared-between-configs",
    ("later-config", "list"): "fields.list_field:ListField.__setdefault__/post:C13.later-config-gets-declared-default",
    ("later-config", "dict"): "fields.dict_field:DictField.__setdefault__/post:C13.later-config-gets-declared-default",
    "other-config": "core:Config._data/frame:C13.other-config-unchanged",
    "later-config": "core:Config.__init__/post:C13.later-config-gets-declared-defaults",
    "schema-default": "core:Field.default/frame:C13.declared-default-unchanged",
    "schema-fields": "core:Schema._fields/frame:C13.field-set-unchanged",
    "schema-options": "core:Schema._fields/frame:C13.field-options-unchanged",
    "sibling-item": "fields.list_field:ListProxy._validate/post:C13.item-configs-share-no-state",
    "source-object": "core:Field.default/frame:C13.object-returned-by-default-factory-never-mutated",
}


def _report(rec, name, top, ops, findings):
    if top.get("class"):
        # attribute to the last operation of the SHORTEST failing prefix (also the replay)
        for k in range(0, len(ops)):
            sub = check(top, ops[:k])
            if sub:
                ops, findings = ops[:k], sub
                break
        level, opname = _culprit(ops[-1] if ops else None)
        for clause, ftype, msg in findings:
            rec.violation(obligation=OBLIGATIONS.get((clause, ftype)) or OBLIGATIONS[clause],
                          what="[%s %s] %s (after %d op(s) on c1, last: %s)" % (top["class"], name, msg, len(ops),
                                                                               json.dumps(ops[-1])[:120] if ops else "-"),
                          witness_key="%s:%s/%s/%s" % (top["class"], name, level, opname),
                          replay=json.loads(json.dumps({"driver": PID, "schema": name, "spec": top, "ops": ops, "clause": clause})))
        return
    for clause, ftype, msg in findings:
        obligation = OBLIGATIONS.get((clause, ftype)) or OBLIGATIONS[clause]
        label = name if "/" in name else "%s:%s" % (name, ftype)
        rec.violation(obligation=obligation, what="[%s] %s (after %d op(s) on c1, last: %s)"
                      % (name, msg, len(ops), json.dumps(ops[-1])[:120] if ops else "-"),
                      witness_key="%s:%s" % (label, clause),
                      replay=json.loads(json.dumps({"driver": PID, "schema": name, "spec": top, "ops": ops, "clause": clause})))


def rac(tier, seed):
    rec = Recorder(
        PID,
        rule="16 schemas (typed/untyped/nested lists, typed/untyped dicts, nested Schema depth 3, ConfigType, dynamic "
             "schemas, sub-schema/config type reused as item type of several lists, typed containers with pass-through "
             "item fields and constant vs. fresh-callable mutable defaults, EMPTY typed/untyped container defaults); alphabet = every assignment / dotted "
             "assignment / map assignment / reset_value / load_tree / loads / in-place list+dict mutation (incl. nested "
             "items and dynamic extras) discovered on the live c1; 4 configurations of the one schema (built before "
             "c1, after c1, after the mutations) + deep schema snapshot checked per sequence; distinct = (schema, ops); plus the same "
             "histories for 18 single-field schemas whose default is a CALLABLE handing out ONE shared application "
             "object (untyped / pass-through typed / scalar-typed dict and list, nested, flat and empty; fresh-factory "
             "and literal variants), where additionally the shared source object itself must never change; plus cross-"
             "configuration assignment cases: 6 all-proxy container kinds (typed flat/nested list+dict) x "
             "source (default | assigned) x transfer of c1's value object into c2 (attribute, dotted, load_tree, "
             "constructor keyword) x in-place mutation (top level / nested) through c1 or c2, other side must not change",
        bound="quick: per schema all sequences of length <= 2 when the alphabet has <= 50 letters (else all of length 1 "
              "+ 1500 seeded of length 2) + 150-250 seeded sequences of length 3; one item explored per list of "
              "configurations (all items watched); shared-factory schemas: all sequences <= 2 + 60 seeded of "
              "length 3; cross-assignment: only the 6 container kinds whose every level is a "
              "library-made proxy (untyped pass-through fields and Config items shared by the user are out of scope: "
              "`c2.f = c1.f` operates on both configurations, the property speaks of operations on one of the pair) x "
              "2 sources x 4 transfers x mutation through c1|c2 at top and nested level; thorough: seeded length 3-5 "
              "until the budget is used",
        tier=tier, seed=seed)
    with sandbox():
        for name, top in SPECS:
            bt = Built(top)
            alphabet = discover(bt, top, bt.schema())
            n = len(alphabet)
            if n <= 50:
                seqs = [q for length in range(0, 3) for q in itertools.product(range(n), repeat=length)]
            else:
                seqs = [q for length in range(0, 2) for q in itertools.product(range(n), repeat=length)]
                seqs += [tuple(rec.rng.randrange(n) for _ in range(2)) for _ in range(1500)]
            seqs += [tuple(rec.rng.randrange(n) for _ in range(3)) for _ in range(150 if n <= 24 else 250)]
            for seq in seqs:
                _evaluate(rec, name, top, alphabet, seq)
        for name, top in SHARED_SPECS:
            bt = Built(top)
            alphabet = discover(bt, top, bt.schema())
            n = len(alphabet)
            seqs = [q for length in range(0, 3) for q in itertools.product(range(n), repeat=length)]
            seqs += [tuple(rec.rng.randrange(n) for _ in range(3)) for _ in range(60)]
            for seq in seqs:
                _evaluate(rec, top["class"] + ":" + name, top, alphabet, seq, name)
        for case in cross_cases():
            status, msg = check_cross(case)
            rec.case(key=("cross", case["kind"], case["source"], case["transfer"], case["via"], json.dumps(case["op"])),
                     nontrivial=status != "skip",
                     sample={k: case[k] for k in ("mode", "kind", "source", "transfer", "via", "op")}
                     if (case["kind"], case["source"], case["transfer"], case["via"]) == ("list<schema>", "default", "setattr", "c1") else None)
            if status == "fail":
                rec.violation(obligation=_cross_obligation(case), what="[cross %s] %s" % (case["kind"], msg),
                              witness_key="cross:%s:%s:%s" % (case["kind"], case["transfer"], case["level"]),
                              replay=json.loads(json.dumps(case)))
        if tier != "quick":
            while not rec.out_of_time():
                name, top = SPECS[rec.rng.randrange(len(SPECS))]
                bt = Built(top)
                alphabet = discover(bt, top, bt.schema())
                for _ in range(200):
                    seq = tuple(rec.rng.randrange(len(alphabet)) for _ in range(rec.rng.randrange(3, 6)))
                    _evaluate(rec, name, top, alphabet, seq)
    return rec.result(exhaustive=False)


def _evaluate(rec, name, top, alphabet, seq, report_name=None):
    ops = [alphabet[i] for i in seq]
    findings = check(top, ops)
    rec.case(key=(name, seq), nontrivial=bool(seq),
             sample={"schema": name, "ops": ops, "findings": [f[0] for f in findings]}
             if len(seq) == 2 and rec.evaluations % 1499 == 0 else None)
    if findings:
        _report(rec, report_name or name, top, ops, findings)


def replay(case):
    if case.get("mode") == "cross":
        with sandbox():
            status, msg = check_cross(case)
        return {"fails": status == "fail", "expected": "the in-place mutation is invisible through the other configuration",
                "observed": msg or status}
    with sandbox():
        findings = check(case["spec"], case["ops"])
    hit = [f for f in findings if f[0] == case.get("clause")] or findings
    return {"fails": bool(hit), "expected": "other configurations of the schema and the schema itself unchanged",
            "observed": "; ".join(f[2] for f in hit) if hit else "unchanged"}
