"""C08 - ciphers invert exactly; AES is standard with a fresh IV; bad input is rejected."""
META = {
    "level": "proof",
    "externals": ["cryptography", "os.urandom", "base64", "str.encode"],
    "trusted_base": [
        "cryptography: AES-256-CBC encryptor/decryptor are inverse on block-aligned data and length preserving; "
        "PKCS7(128) padder/unpadder are inverse, padded length is a positive multiple of 16; finalize() raises ValueError "
        "on unaligned data / bad padding (pyvc/builtins_spec.py, section cryptography)",
        "os.urandom(n) returns n bytes: the next draw of an external random stream; distinct draws differ only with "
        "overwhelming probability (stated, not proved): 'equal plaintexts never give equal ciphertexts' is reduced to 'a fresh draw per call'",
        "'a different key never yields the plaintext' is a cryptographic claim about AES, reduced to 'the key is passed verbatim to the cipher'",
        "sequence extensionality is instantiated through the Skolem function seq_diff (contracts/a_specs.py: bytes_equal)",
    ],
    "assumptions": ["machine integers: Python ints are unbounded, the encoding uses mathematical integers; bytes are sequences of 8-bit vectors"],
    "explanation": "XorProvider.encrypt's loop is verified with an inductive invariant over the real AST (bit-vector XOR); AES against the "
                   "assumed library contract; inversion is a lemma over the two contracts (props/lemmas/c08.py).",
}

try:
    from props.C08_rac import rac, replay   # bounded run-time contract driver (stand-in + replay harness)
except ImportError:   # pragma: no cover
    pass
