"""C04 bounded run-time contract driver: each registered format decodes what it encodes, types intact; options
never change the decoded result; XML with a wrong root tag is rejected; all formats agree.

Everything is evaluated on the real classes obtained through ``cincoconfig.core.ConfigFormat.get(name, **options)``.
The oracle is the property statement: ``loads(dumps(t))`` is type-strict, NaN-aware equal to ``t`` (key order is
irrelevant) for every tree ``t`` in the format's stated domain.  Trees outside a format's domain (XML: strings with
non-XML characters or carriage return, keys that are not XML names; BSON: integers beyond signed 64 bit, NUL in
keys; any format: nothing else) are simply not evaluated for that format: no claim, no alarm.
"""
import hashlib
import json
import re

from pyvc.raclib import Recorder, sandbox, strict_eq

PID = "C04"

# ---------------------------------------------------------------------------------------------------------------
# JSON-able encoding of plain-data trees (NaN / inf / -0.0 / big ints / bytes survive json.dumps/loads)
# ---------------------------------------------------------------------------------------------------------------


def enc(v):
    if v is None:
        return {"t": "n"}
    if isinstance(v, bool):
        return {"t": "b", "v": v}
    if isinstance(v, int):
        return {"t": "i", "v": str(v)}
    if isinstance(v, float):
        return {"t": "f", "v": repr(v)}
    if isinstance(v, str):
        return {"t": "s", "v": v}
    if isinstance(v, bytes):
        return {"t": "y", "v": v.hex()}
    if isinstance(v, (list, tuple)):
        return {"t": "l", "v": [enc(x) for x in v]}
    if isinstance(v, dict):
        return {"t": "d", "v": [[k, enc(x)] for k, x in v.items()]}
    raise TypeError("not plain data: %r" % (v,))


def dec(e):
    t = e["t"]
    if t == "n":
        return None
    if t == "b":
        return bool(e["v"])
    if t == "i":
        return int(e["v"])
    if t == "f":
        return float(e["v"])
    if t == "s":
        return e["v"]
    if t == "y":
        return bytes.fromhex(e["v"])
    if t == "l":
        return [dec(x) for x in e["v"]]
    if t == "d":
        return {k: dec(x) for k, x in e["v"]}
    raise ValueError(t)


def tree_id(tree):
    return hashlib.sha1(json.dumps(enc(tree), sort_keys=True).encode()).hexdigest()[:14]


def show(v):
    return repr(v)[:160]


# ---------------------------------------------------------------------------------------------------------------
# Domains, straight from the property statement
# ---------------------------------------------------------------------------------------------------------------

_XML_BAD_CHAR = re.compile("[^\t\n -\ud7ff\ue000-\ufffd\U00010000-\U0010ffff]")  # also excludes \r
_NS = ("A-Z_a-z\u00c0-\u00d6\u00d8-\u00f6\u00f8-\u02ff\u0370-\u037d\u037f-\u1fff\u200c-\u200d\u2070-\u218f"
       "\u2c00-\u2fef\u3001-\ud7ff\uf900-\ufdcf\ufdf0-\ufffd")
# XML Name without ':' (a colon makes the name a namespace-prefixed QName for the parser: not a plain name)
_XML_NAME = re.compile("^[%s][%s\\-.0-9\u00b7\u0300-\u036f\u203f-\u2040]*$" % (_NS, _NS))
I64 = (-2 ** 63, 2 ** 63 - 1)


def walk(v):
    """yield ('key', k) / ('leaf', x) for everything in a tree"""
    if isinstance(v, dict):
        for k, x in v.items():
            yield ("key", k)
            yield from walk(x)
    elif isinstance(v, list):
        for x in v:
            yield from walk(x)
    else:
        yield ("leaf", v)


def in_domain(fmt, tree):
    for kind, x in walk(tree):
        if kind == "key":
            if fmt == "xml" and not _XML_NAME.match(x):
                return False
            if fmt == "bson" and "\x00" in x:
                return False
        else:
            if fmt == "xml" and isinstance(x, str) and _XML_BAD_CHAR.search(x):
                return False
            if fmt == "bson" and isinstance(x, int) and not isinstance(x, bool) and not I64[0] <= x <= I64[1]:
                return False
    return True


# ---------------------------------------------------------------------------------------------------------------
# Formats and option values
# ---------------------------------------------------------------------------------------------------------------

FORMAT_CLASS = {"json": ("json", "JsonConfigFormat"), "yaml": ("yaml", "YamlConfigFormat"),
                "xml": ("xml", "XmlConfigFormat"), "bson": ("bson", "BsonConfigFormat"),
                "pickle": ("pickle", "PickleConfigFormat")}
FMTCFGS = [
    ("json", {}), ("json", {"pretty": True}), ("json", {"pretty": False}),
    ("yaml", {}), ("yaml", {"root_key": None}), ("yaml", {"root_key": ""}), ("yaml", {"root_key": "CONFIG"}),
    ("xml", {}), ("xml", {"root_tag": "config"}), ("xml", {"root_tag": "r"}), ("xml", {"root_tag": "CONFIG"}),
    ("bson", {}), ("pickle", {}),
]
FORMATS = ["json", "yaml", "xml", "bson", "pickle"]


def obligation(fmt, what):
    mod, cls = FORMAT_CLASS[fmt]
    return "formats.%s:%s.%s" % (mod, cls, what)


def get_format(name, options):
    from cincoconfig.core import ConfigFormat
    return ConfigFormat.get(name, **options)


def roundtrip(name, options, tree):
    """-> ('ok', decoded) | ('exc', 'Type: msg')"""
    f = get_format(name, options)
    try:
        data = f.dumps(None, tree)
        if not isinstance(data, bytes):
            return ("exc", "dumps returned %s, not bytes" % type(data).__name__)
        return ("ok", f.loads(None, data))
    except Exception as err:  # the clause says decoding succeeds on the domain: any exception is a failure
        return ("exc", "%s: %s" % (type(err).__name__, str(err)[:120]))


# ---------------------------------------------------------------------------------------------------------------
# Tree grammar
# ---------------------------------------------------------------------------------------------------------------

NAN, INF = float("nan"), float("inf")

LEAVES = [  # (label, value)
    ("none", None), ("bool:true", True), ("bool:false", False),
    ("int:0", 0), ("int:1", 1), ("int:-1", -1), ("int:255", 255), ("int:2^31-1", 2 ** 31 - 1), ("int:2^31", 2 ** 31),
    ("int:-2^31-1", -2 ** 31 - 1), ("int:2^63-1", 2 ** 63 - 1), ("int:-2^63", -2 ** 63),
    ("int:2^63", 2 ** 63), ("int:2^64+1", 2 ** 64 + 1), ("int:-2^80", -2 ** 80), ("int:10^30", 10 ** 30),
    ("float:0.0", 0.0), ("float:-0.0", -0.0), ("float:1.0", 1.0), ("float:-1.5", -1.5), ("float:0.1", 0.1),
    ("float:1e16", 1e16), ("float:1e22", 1e22), ("float:1e300", 1e300), ("float:5e-324", 5e-324),
    ("float:min-normal", 2.2250738585072014e-308), ("float:max", 1.7976931348623157e308), ("float:1e-7", 1e-7),
    ("float:17digits", 123456789.12345679), ("float:inf", INF), ("float:-inf", -INF), ("float:nan", NAN),
    ("list:empty", []), ("dict:empty", {}),
]
STRINGS = [
    "", " ", "a", "true", "false", "True", "TRUE", "1", "0", "1.0", "-0.0", "null", "None", "~", "nan", "NaN", "inf",
    ".inf", "-.inf", ".nan", "yes", "no", "on", "off", "y", "n", "t", "f", " lead", "trail ", "  ", "\n", "a\nb", "a\n", "\na",
    " \n ", "x\n\n\ny", "\t", "a\tb", " \t", "a  b", "<a>", "</k>", "&amp;", "a&b", "&#10;", '"q"', "'q'", "it's", '"', "'",
    "]]>", "<![CDATA[x]]>", "<!-- c -->", "<?pi?>", "\\", "\\n", 'a\\"b', '{"a": 1}', "[1, 2]", "a: b", "- x", "# c",
    "a #b", "? x", "| x", "> x", "%x", "@x", "`x", "!x", "!!str x", "!!python/object:x", "&x", "*x", "{}", "[]", ",",
    "---", "...", "--- a", "%YAML 1.1", "\u00e9", "\u4e2d\u6587", "\U0001f600", "\u2028", "\u2029", "\x85", "\xa0",
    "\ufeff", "\ufffd", "\ud7ff", "\ue000", "\x7f", "1_000", "0x1F", "0o17", "0b1", "017", "1e3", "+1", ".5", "1:30",
    "2001-12-14", "2001-12-14t21:59:43.10-05:00", "=", "<<", "a" * 300,
    # outside the XML domain (still in the domain of the other four formats)
    "\r", "a\r\nb", "\x00", "\x01", "\x1f", "\x0b", "\x0c", "\ufffe", "\uffff",
]
LEAVES += [("str:" + ascii(s)[1:-1][:24], s) for s in STRINGS]

KEYS = [
    "a", "A", "k1", "_u", "a-b", "a.b", "a_b", "\u00e9", "\u4e2d", "true", "null", "y", "n", "on", "item", "type", "config",
    "CONFIG", "xml", "x" * 100, "a\u00b7b",
    # not XML names (still valid for the other formats)
    "", "1", " ", "a b", "$a", "a:b", "-a", ".a", "a\nb", "~", "#", "<", "a&b", "1.5", "\r", "=", "<<", "?", "- a",
]

CONTEXTS = [  # nesting up to depth 3 (the root map is depth 1)
    ("root", lambda v: {"k": v}),
    ("list", lambda v: {"k": [v]}),
    ("map", lambda v: {"k": {"j": v}}),
    ("list.list", lambda v: {"k": [[v]]}),
    ("list.map", lambda v: {"k": [{"j": v}]}),
    ("map.list", lambda v: {"k": {"j": [v]}}),
    ("map.map", lambda v: {"k": {"j": {"i": v}}}),
    ("siblings", lambda v: {"a": v, "k": [v, v], "z": {"p": v, "q": [v]}}),
]

CONFUSABLE = [  # the type-confusion set: every ordered pair is put side by side in a list and in a map
    ("bool:true", True), ("bool:false", False), ("int:1", 1), ("int:0", 0), ("float:1.0", 1.0), ("float:0.0", 0.0),
    ("float:-0.0", -0.0), ("float:nan", NAN), ("str:1", "1"), ("str:true", "true"), ("str:", ""), ("str:None", "None"),
    ("none", None), ("list:empty", []), ("dict:empty", {}), ("list:[none]", [None]), ("dict:{a:none}", {"a": None}),
]


SAMPLE_AT = {("xml", "float:nan@list.map"): {"root_tag": "r"}, ("yaml", "str:true@siblings"): {"root_key": "CONFIG"},
             ("bson", "int:-2^63@map.map"): {}, ("json", "key:true@map"): {"pretty": False},
             ("pickle", "pair:bool:true,int:1@list"): {}, ("xml", "str:<![CDATA[x]]>@root"): {},
             ("yaml", "random"): {"root_key": ""}, ("xml", "random"): {"root_tag": "CONFIG"}}
MAX_VIOLATIONS_PER_OBLIGATION = 40  # keeps the report of a badly broken tree readable (first ones in enumeration order)


def report(rec, obligation, what, replay, witness_key):
    if sum(1 for v in rec.violations if v["obligation"] == obligation) < MAX_VIOLATIONS_PER_OBLIGATION:
        rec.violation(obligation=obligation, what=what, replay=replay, witness_key=witness_key)


def copy_tree(v):
    if isinstance(v, dict):
        return {k: copy_tree(x) for k, x in v.items()}
    if isinstance(v, list):
        return [copy_tree(x) for x in v]
    return v


def grammar_trees():
    """yield (label, tree) in a fixed order"""
    yield ("empty-root", {})
    for label, v in LEAVES:
        for cname, ctx in CONTEXTS:
            yield ("%s@%s" % (label, cname), ctx(copy_tree(v)))
    for k in KEYS:
        kl = "key:" + ascii(k)[1:-1][:24]
        yield (kl + "@root", {k: 1})
        yield (kl + "@map", {"k": {k: None}})
        yield (kl + "@list.map", {"k": [{k: k}, {k: []}]})
        yield (kl + "@with-sibling", {k: {"a": k}, "a": [k]})
    for la, a in CONFUSABLE:
        for lb, b in CONFUSABLE:
            yield ("pair:%s,%s@list" % (la, lb), {"k": [copy_tree(a), copy_tree(b)]})
            yield ("pair:%s,%s@map" % (la, lb), {"p": copy_tree(a), "q": copy_tree(b)})


def random_tree(rng, xml_safe):
    """a seeded tree of depth <= 3, width <= 3 over the leaf and key pools"""
    leaves = [v for _l, v in LEAVES if not (xml_safe and isinstance(v, str) and _XML_BAD_CHAR.search(v))]
    keys = [k for k in KEYS if not xml_safe or _XML_NAME.match(k)]

    def node(depth):
        r = rng.random()
        if depth >= 3 or r < 0.5:
            return copy_tree(rng.choice(leaves))
        if r < 0.75:
            return [node(depth + 1) for _ in range(rng.randint(0, 3))]
        return {rng.choice(keys): node(depth + 1) for _ in range(rng.randint(0, 3))}

    return {rng.choice(keys): node(1) for _ in range(rng.randint(1, 3))}


def first_diff(exp, got, path="$"):
    """(path, expected-leaf-kind) of the first place where two trees differ"""
    if type(exp) is not type(got):
        return path, type(exp).__name__
    if isinstance(exp, dict):
        if set(exp) != set(got):
            return path, "keyset"
        for k in exp:
            if not strict_eq(exp[k], got[k]):
                return first_diff(exp[k], got[k], path + "." + k)
    if isinstance(exp, list):
        if len(exp) != len(got):
            return path, "length"
        for i, (a, b) in enumerate(zip(exp, got)):
            if not strict_eq(a, b):
                return first_diff(a, b, "%s[%d]" % (path, i))
    return path, type(exp).__name__


# ---------------------------------------------------------------------------------------------------------------
# The clauses
# ---------------------------------------------------------------------------------------------------------------


def check_tree(rec, label, tree, wrong_root=True):
    """evaluate all clauses of C04 on one tree; one rec.case per (tree, format, option value)"""
    tid = tree_id(tree)
    etree = enc(tree)
    decoded = {}  # fmt -> [(options, result)]
    for name, options in FMTCFGS:
        if not in_domain(name, tree):
            continue
        res = roundtrip(name, options, tree)
        optid = json.dumps(options, sort_keys=True)
        rec.case(key=(name, optid, tid), nontrivial=True,
                 sample=({"format": name, "options": options, "label": label, "tree": show(tree)}
                         if SAMPLE_AT.get((name, label)) == options else None))
        decoded.setdefault(name, []).append((options, res))
        if res[0] == "exc" or not strict_eq(res[1], tree):
            if res[0] == "exc":
                observed, where = res[1], "exception"
            else:
                observed, where = show(res[1]), "%s (%s)" % first_diff(tree, res[1])
            report(
                rec,
                obligation=obligation(name, "loads/post:C04.decodes-what-it-encodes"),
                what="%s%s: loads(dumps(t)) != t at %s; expected %s observed %s"
                     % (name, options or "", where, show(tree), observed),
                replay={"kind": "roundtrip", "format": name, "options": options, "tree": etree},
                witness_key="%s/%s" % (name, label))
    # options never change the decoded result
    for name, results in decoded.items():
        base_opt, base = results[0]
        for options, res in results[1:]:
            same = (res[0] == base[0] == "ok" and strict_eq(res[1], base[1])) or (res[0] == base[0] == "exc")
            if not same:
                report(
                    rec,
                    obligation=obligation(name, "loads/post:C04.options-do-not-change-result"),
                    what="%s: decoded result depends on options: %s -> %s but %s -> %s"
                         % (name, base_opt, show(base[1]), options, show(res[1])),
                    replay={"kind": "options", "format": name, "options": [base_opt, options], "tree": etree},
                    witness_key="%s/%s" % (name, label))
    # all formats map the same tree back to the same tree (intersection of the domains)
    if len(decoded) == len(FORMATS):
        firsts = [(n, r[0][1]) for n, r in decoded.items()]
        n0, r0 = firsts[0]
        for n1, r1 in firsts[1:]:
            agree = (r0[0] == "ok" and r1[0] == "ok" and strict_eq(r0[1], r1[1]))
            if not agree and not (r0[0] == "exc" and r1[0] == "exc"):
                report(
                    rec,
                    obligation="core:ConfigFormat.get/post:C04.formats-agree",
                    what="formats disagree on %s: %s -> %s but %s -> %s" % (show(tree), n0, show(r0[1]), n1, show(r1[1])),
                    replay={"kind": "agree", "formats": [n0, n1], "tree": etree},
                    witness_key="%s~%s/%s" % (n0, n1, label))
    # XML with the wrong root tag is rejected
    if wrong_root and "xml" in decoded:
        for wtag, rtag in (("config", "r"), ("r", "config"), ("config", "Config"), ("a", "ab")):
            outcome = wrong_root_outcome(wtag, rtag, tree)
            rec.case(key=("xml-wrong-root", wtag, rtag, tid), nontrivial=True)
            if outcome != "ValueError":
                report(
                    rec,
                    obligation=obligation("xml", "loads/raise:C04.wrong-root-tag-rejected"),
                    what="document with root <%s> loaded with root_tag=%r: expected ValueError, observed %s"
                         % (wtag, rtag, outcome),
                    replay={"kind": "wrong-root", "write_tag": wtag, "read_tag": rtag, "tree": etree},
                    witness_key="xml/%s->%s" % (wtag, rtag))


def wrong_root_outcome(write_tag, read_tag, tree):
    data = get_format("xml", {"root_tag": write_tag}).dumps(None, tree)
    try:
        out = get_format("xml", {"root_tag": read_tag}).loads(None, data)
    except ValueError as err:
        if type(err) is ValueError or err.__class__.__module__.startswith("cincoconfig"):
            return "ValueError"
        return "%s: %s" % (type(err).__name__, str(err)[:80])
    except Exception as err:
        return "%s: %s" % (type(err).__name__, str(err)[:80])
    return "accepted -> " + show(out)


# ---------------------------------------------------------------------------------------------------------------
# Near-miss root tags (XML) and root keys (YAML), exact tags/keys with every option, falsy content under a root key
# ---------------------------------------------------------------------------------------------------------------

ROOT_TAGS = ["config", "c", "app.config", "my-config", "my_config", "AppConfig"]
ROOT_KEYS = ROOT_TAGS + ["CONFIG", "", None]
OB_WRONG_ROOT = "formats.xml:XmlConfigFormat.loads/raise:C04.wrong-root-tag-rejected"
OB_NEAR_KEY = "formats.yaml:YamlConfigFormat.loads/post:C04.near-miss-root-key-not-unwrapped"


def near_misses(expected, xml_names_only):
    """[(kind, actual)]: names that almost are `expected`"""
    out = []

    def add(kind, actual):
        if actual and actual != expected and (kind, actual) not in out and (not xml_names_only or _XML_NAME.match(actual)):
            out.append((kind, actual))

    for suffix in ("s", "2", ".bak", "-x", "_", expected):
        add("prefix-match", expected + suffix)          # the expected tag is a proper prefix of the actual one
    for prefix in ("app", "my.", "x-", "_", "C"):
        add("suffix-match", prefix + expected)          # ... a proper suffix of the actual one ('appconfig', 'my.config')
    for n in (1, len(expected) // 2, len(expected) - 1):
        add("proper-prefix", expected[:n])              # the actual tag is a proper prefix of the expected one
        add("proper-suffix", expected[len(expected) - n:])
    for variant in (expected.swapcase(), expected.upper(), expected.lower(), expected.capitalize(), expected.title()):
        add("case", variant)
    for i in sorted({0, len(expected) // 2, len(expected) - 1}):
        repl = "x" if expected[i] != "x" else "y"
        add("one-char-changed", expected[:i] + repl + expected[i + 1:])
    return out


def hand_xml(tag, tree):
    """a compact hand-written document (no XML declaration, no pretty printing, no type attribute on the root)"""
    def elem(key, value):
        if isinstance(value, dict):
            return '<%s type="dict">%s</%s>' % (key, "".join(elem(k, v) for k, v in value.items()), key)
        if isinstance(value, int):
            return '<%s type="int">%d</%s>' % (key, value, key)
        return '<%s type="str">%s</%s>' % (key, value, key)
    return ("<%s>%s</%s>" % (tag, "".join(elem(k, v) for k, v in tree.items()), tag)).encode()


def xml_document(actual, tree, source, expected=None):
    if source == "dumps":
        return get_format("xml", {"root_tag": actual}).dumps(None, tree)
    if source == "handwritten":
        return hand_xml(actual, tree)
    if source == "nested-dumps":     # the expected tag one level down, under another root
        return get_format("xml", {"root_tag": actual}).dumps(None, {expected: tree})
    if source == "nested-handwritten":
        return hand_xml(actual, {expected: tree})
    raise ValueError(source)


def xml_load_outcome(data, options):
    """'ValueError' | other exception text | ('ok', tree)"""
    try:
        out = get_format("xml", options).loads(None, data)
    except ValueError as err:
        if type(err) is ValueError or err.__class__.__module__.startswith("cincoconfig"):
            return "ValueError"
        return "%s: %s" % (type(err).__name__, str(err)[:80])
    except Exception as err:
        return "%s: %s" % (type(err).__name__, str(err)[:80])
    return ("ok", out)


def root_trees(expected):
    trees = [("empty", {}), ("flat", {"k": 1}), ("mixed", {"config": "x", "k": {"j": 2}})]
    if expected:
        trees.append(("child-named-like-root", {expected: {"k": 1}}))
    return trees


def read_options_for(expected):
    """every option value that makes `expected` the expected root tag"""
    return [{"root_tag": expected}] + ([{}] if expected == "config" else [])


def check_xml_near_miss(rec, expected, kind, actual, source, tlabel, tree, options):
    data = xml_document(actual, tree, source, expected)
    outcome = xml_load_outcome(data, options)
    rec.case(key=("xml-near-miss", expected, actual, source, tlabel, json.dumps(options, sort_keys=True)), nontrivial=True,
             sample=({"kind": "root-tag:" + kind, "expected_tag": expected, "document_root": actual, "source": source}
                     if (expected, kind, source, tlabel) in (("config", "suffix-match", "dumps", "flat"),
                                                              ("app.config", "nested", "nested-handwritten", "flat")) else None))
    if outcome != "ValueError":
        report(rec, obligation=OB_WRONG_ROOT,
               what="document with root <%s> (%s, %s) loaded with %s (expected tag %r): expected ValueError, observed %s"
                    % (actual, kind, source, options or "default options", expected,
                       "accepted -> " + show(outcome[1]) if isinstance(outcome, tuple) else outcome),
               replay={"kind": "root-tag-near-miss", "near": kind, "expected_tag": expected, "actual_tag": actual, "source": source,
                       "options": options, "tree": enc(tree)},
               witness_key="root-tag:" + kind)


def check_xml_exact(rec, expected, source, tlabel, tree, options):
    outcome = xml_load_outcome(xml_document(expected, tree, source), options)
    rec.case(key=("xml-exact-root", expected, source, tlabel, json.dumps(options, sort_keys=True)), nontrivial=True)
    if not (isinstance(outcome, tuple) and strict_eq(outcome[1], tree)):
        report(rec, obligation=obligation("xml", "loads/post:C04.decodes-what-it-encodes"),
               what="document with the exact root <%s> (%s) loaded with %s: expected %s, observed %s"
                    % (expected, source, options or "default options", show(tree),
                       show(outcome[1]) if isinstance(outcome, tuple) else outcome),
               replay={"kind": "root-tag-exact", "expected_tag": expected, "source": source, "options": options, "tree": enc(tree)},
               witness_key="root-tag:exact/%s" % expected)


def check_root_tags(rec):
    for expected in ROOT_TAGS:
        for tlabel, tree in root_trees(expected):
            for options in read_options_for(expected):
                for source in ("dumps", "handwritten"):
                    check_xml_exact(rec, expected, source, tlabel, tree, options)
                    for kind, actual in near_misses(expected, xml_names_only=True):
                        check_xml_near_miss(rec, expected, kind, actual, source, tlabel, tree, options)
                for source in ("nested-dumps", "nested-handwritten"):
                    for outer in ("root", "wrapper", expected + "s"):
                        check_xml_near_miss(rec, expected, "nested", outer, source, tlabel, tree, options)
    # the default tag is 'config': documents written with default options and read with the explicit tag, and back
    for tlabel, tree in root_trees("config"):
        for wopt, ropt in (({}, {"root_tag": "config"}), ({"root_tag": "config"}, {})):
            data = get_format("xml", wopt).dumps(None, tree)
            outcome = xml_load_outcome(data, ropt)
            rec.case(key=("xml-default-tag", tlabel, json.dumps(wopt), json.dumps(ropt)), nontrivial=True)
            if not (isinstance(outcome, tuple) and strict_eq(outcome[1], tree)):
                report(rec, obligation=obligation("xml", "loads/post:C04.options-do-not-change-result"),
                       what="written with %s, read with %s: expected %s, observed %s" % (wopt, ropt, show(tree), outcome),
                       replay={"kind": "root-tag-exact", "expected_tag": "config", "source": "dumps", "options": ropt, "tree": enc(tree)},
                       witness_key="root-tag:default-is-config")


def yaml_near_miss_result(root_key, document):
    data = get_format("yaml", {}).dumps(None, document)
    try:
        return ("ok", get_format("yaml", {"root_key": root_key}).loads(None, data))
    except Exception as err:
        return ("exc", "%s: %s" % (type(err).__name__, str(err)[:100]))


def check_root_keys(rec):
    subs = [("map", {"k": 1}), ("empty-map", {}), ("zero", 0), ("empty-string", "")]
    for root_key in ROOT_KEYS:
        # near-miss top-level keys: the whole document is the result
        if root_key:
            docs = []
            for kind, actual in near_misses(root_key, xml_names_only=False):
                for slabel, sub in subs:
                    docs.append((kind, "%s/%s" % (actual, slabel), {actual: copy_tree(sub)}))
                docs.append((kind, "%s/with-sibling" % actual, {actual: {"k": 1}, "other": [root_key]}))
            for slabel, sub in subs:
                docs.append(("nested", "wrapper/" + slabel, {"wrapper": {root_key: copy_tree(sub)}}))
            docs.append(("value-not-key", "value", {"k": root_key, "l": [root_key]}))
            for kind, dlabel, document in docs:
                res = yaml_near_miss_result(root_key, document)
                rec.case(key=("yaml-near-miss", root_key, dlabel), nontrivial=True,
                         sample=({"kind": "root-key:" + kind, "root_key": root_key, "document": show(document)}
                                 if (root_key, dlabel) == ("config", "appconfig/map") else None))
                if res[0] != "ok" or not strict_eq(res[1], document):
                    report(rec, obligation=OB_NEAR_KEY,
                           what="YAML document %s loaded with root_key=%r (%s): expected the whole document, observed %s"
                                % (show(document), root_key, kind, show(res[1])),
                           replay={"kind": "root-key-near-miss", "near": kind, "root_key": root_key, "document": enc(document)},
                           witness_key="root-key:" + kind)
        # empty tree and falsy content round-trip under every root key (incl. '' and None), also under a key equal to it
        falsy = [("empty-tree", {}), ("zero", {"a": 0}), ("empty-string", {"a": ""}), ("empty-list", {"a": []}),
                 ("empty-map", {"a": {}}), ("false", {"a": False}), ("none", {"a": None}), ("float-zero", {"a": 0.0}),
                 ("all", {"a": 0, "b": "", "c": [], "d": {}, "e": False, "f": None})]
        if root_key:
            falsy += [("key-equals-root-key:" + l, {root_key: copy_tree(v)})
                      for l, v in (("zero", 0), ("empty-string", ""), ("empty-list", []), ("empty-map", {}), ("none", None))]
        for flabel, tree in falsy:
            options = {"root_key": root_key}
            res = roundtrip("yaml", options, tree)
            rec.case(key=("yaml-falsy", repr(root_key), flabel), nontrivial=True)
            if res[0] == "exc" or not strict_eq(res[1], tree):
                report(rec, obligation=obligation("yaml", "loads/post:C04.decodes-what-it-encodes"),
                       what="yaml root_key=%r: loads(dumps(t)) != t; expected %s observed %s" % (root_key, show(tree), show(res[1])),
                       replay={"kind": "roundtrip", "format": "yaml", "options": options, "tree": enc(tree)},
                       witness_key="yaml/root-key:%r/%s" % (root_key, flabel.split(":")[0]))


def check_registry(rec):
    """ConfigFormat.get(name, **options) returns an instance of the class registered under name, built with options"""
    import importlib
    for name, options in FMTCFGS:
        mod, cls = FORMAT_CLASS[name]
        f = get_format(name, options)
        klass = getattr(importlib.import_module("cincoconfig.formats." + mod), cls)
        ok = type(f) is klass and all(getattr(f, k) == v for k, v in options.items())
        rec.case(key=("registry", name, json.dumps(options, sort_keys=True)), nontrivial=True)
        if not ok:
            rec.violation(obligation="core:ConfigFormat.get/post:C04.registered-class-with-options",
                          what="ConfigFormat.get(%r, **%r) -> %r" % (name, options, f),
                          replay={"kind": "registry", "format": name, "options": options},
                          witness_key="%s/%s" % (name, json.dumps(options, sort_keys=True)))


def rac(tier: str, seed: int) -> dict:
    rec = Recorder(
        PID,
        rule="one case = (tree, format, option value) round trip through the real ConfigFormat.get(name, **opts) "
             "(+ one per wrong-root / near-miss-root XML load and exact-root load, + one per near-miss root-key YAML load "
             "and falsy-content root-key round trip, + registry look-ups); trees: every leaf of the value pool in 8 positions "
             "(root/list/map/list.list/list.map/map.list/map.map/siblings), every key of the key pool in 4 positions, "
             "every ordered pair of the 17-element type-confusion set side by side in a list and in a map, then seeded "
             "random trees; a (tree, format) pair outside the format's stated domain is skipped, not counted; "
             "distinct = distinct (format, options, tree)",
        bound="depth <= 3 below the root map, width <= 3; %d leaves (bool, int up to 2^80, float incl. +-inf/NaN/-0.0/"
              "subnormal/max, %d strings incl. ''/'true'/'1'/XML-JSON-YAML metacharacters/unicode/C0 controls, None, "
              "[], {}), %d keys; 13 format/option values (json pretty unset/True/False; yaml root_key unset/None/''/"
              "'CONFIG'; xml root_tag unset/'config'/'r'/'CONFIG'; bson; pickle); random trees: quick 250, thorough "
              "until the budget is used; root tags %r x near misses (prefix-match, suffix-match, proper-prefix, "
              "proper-suffix, case, one-char-changed, nested under another root) x 4 trees x real-dumps/hand-written "
              "documents x every option value naming the tag; YAML root keys %r x the same near misses as top-level "
              "keys (whole document expected) and 9-14 empty/falsy trees each"
              % (len(LEAVES), len(STRINGS), len(KEYS), ROOT_TAGS, ROOT_KEYS),
        tier=tier, seed=seed)
    with sandbox():
        check_registry(rec)
        check_root_tags(rec)
        check_root_keys(rec)
        for label, tree in grammar_trees():
            check_tree(rec, label, tree, wrong_root=label.endswith("@root") or label == "empty-root")
        n_random = 250 if tier == "quick" else 10 ** 9
        for i in range(n_random):
            if rec.out_of_time() or (tier != "quick" and i >= 200000):
                break
            xml_safe = i % 2 == 0
            tree = random_tree(rec.rng, xml_safe)
            before = len(rec.violations)
            check_tree(rec, "random", tree, wrong_root=(i % 10 == 0))
            if len(rec.violations) > before:
                # re-key random witnesses by the kind of the first differing leaf so classes stay stable
                for v in rec.violations[before:]:
                    if v["witness_key"].endswith("/random") and v["replay"].get("kind") == "roundtrip":
                        r = replay(v["replay"])
                        v["witness_key"] += ":" + str(r.get("first_diff_kind"))
    return rec.result(exhaustive=False)


def replay(case: dict) -> dict:
    """re-execute one replay dict against the current /repo"""
    kind = case.get("kind")
    with sandbox():
        if kind == "registry":
            f = get_format(case["format"], case["options"])
            _mod, cls = FORMAT_CLASS[case["format"]]
            ok = type(f).__name__ == cls and all(getattr(f, k) == v for k, v in case["options"].items())
            return {"fails": not ok, "expected": cls + " with " + json.dumps(case["options"]), "observed": repr(f)}
        if kind == "root-key-near-miss":
            document = dec(case["document"])
            res = yaml_near_miss_result(case["root_key"], document)
            return {"fails": res[0] != "ok" or not strict_eq(res[1], document), "expected": "the whole document " + show(document),
                    "observed": show(res[1])}
        tree = dec(case["tree"])
        if kind == "root-tag-near-miss":
            outcome = xml_load_outcome(xml_document(case["actual_tag"], tree, case["source"], case["expected_tag"]), case["options"])
            return {"fails": outcome != "ValueError", "expected": "ValueError",
                    "observed": "accepted -> " + show(outcome[1]) if isinstance(outcome, tuple) else outcome}
        if kind == "root-tag-exact":
            outcome = xml_load_outcome(xml_document(case["expected_tag"], tree, case["source"]), case["options"])
            ok = isinstance(outcome, tuple) and strict_eq(outcome[1], tree)
            return {"fails": not ok, "expected": show(tree), "observed": show(outcome[1]) if isinstance(outcome, tuple) else outcome}
        if kind == "roundtrip":
            res = roundtrip(case["format"], case["options"], tree)
            fails = res[0] == "exc" or not strict_eq(res[1], tree)
            out = {"fails": fails, "expected": show(tree), "observed": res[1] if res[0] == "exc" else show(res[1])}
            if fails and res[0] == "ok":
                out["first_diff"], out["first_diff_kind"] = first_diff(tree, res[1])
            elif fails:
                out["first_diff_kind"] = "exception"
            return out
        if kind == "options":
            a = roundtrip(case["format"], case["options"][0], tree)
            b = roundtrip(case["format"], case["options"][1], tree)
            same = (a[0] == b[0] == "ok" and strict_eq(a[1], b[1])) or (a[0] == b[0] == "exc")
            return {"fails": not same, "expected": "same decoded tree under both options", "observed": [show(a[1]), show(b[1])]}
        if kind == "agree":
            a = roundtrip(case["formats"][0], {}, tree)
            b = roundtrip(case["formats"][1], {}, tree)
            same = (a[0] == b[0] == "ok" and strict_eq(a[1], b[1])) or (a[0] == b[0] == "exc")
            return {"fails": not same, "expected": "both formats decode to " + show(tree), "observed": [show(a[1]), show(b[1])]}
        if kind == "wrong-root":
            outcome = wrong_root_outcome(case["write_tag"], case["read_tag"], tree)
            return {"fails": outcome != "ValueError", "expected": "ValueError", "observed": outcome}
    raise ValueError("unknown replay kind: %r" % (kind,))


if __name__ == "__main__":
    import sys
    r = rac(sys.argv[1] if len(sys.argv) > 1 else "quick", 0)
    print(json.dumps({k: r[k] for k in r if k != "samples"}, indent=1, default=str))
