# Ghost lemmas for C11: the bounded quantifiers of Schema._validate's contract are recursive functions
# (f(0) = True, f(i+1) = f(i) and step(i)).  Monotonicity  f(n) ==> f(i) for 0 <= i <= n  is used by the
# contract (as instantiated axiom); it is proved here by induction from the unfoldings alone (`*_def`
# versions of the spec functions add only the unfoldings).


def c11_fields_upto_monotone(schema, config, i, n):
    k = i
    while k < n:
        k = k + 1
    assert implies(not fields_ok_upto_def(schema, config, i), not fields_ok_upto_def(schema, config, n)), "C11.fields-upto-monotone"


def c11_validators_upto_monotone(schema, config, i, n):
    k = i
    while k < n:
        k = k + 1
    assert implies(not validators_ok_upto_def(schema, config, i), not validators_ok_upto_def(schema, config, n)), "C11.validators-upto-monotone"
