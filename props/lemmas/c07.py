# Ghost clients for C07: call sequences over the KeyFile contracts; every call is replaced by the
# callee's contract, so each assert is a lemma over the contracts (never executed).


def c07_created_once(path):
    """missing key file: created once, the same 32 bytes serve this session and a later one"""
    kf1 = KeyFile(path)
    with kf1:
        k1 = kf1._KeyFile__key
        assert len(k1) == 32, "C07.session1-key-32"
        assert fs_present(expanduser(path)) and fs_content(expanduser(path)) == k1, "C07.file-created-with-key"
    assert kf1._KeyFile__key is None, "C07.no-key-after-close"
    kf2 = KeyFile(path)
    with kf2:
        k2 = kf2._KeyFile__key
        assert k2 == k1, "C07.later-session-same-key"
        assert fs_content(expanduser(path)) == k1, "C07.never-rewritten"
    assert kf2._KeyFile__key is None, "C07.no-key-after-close-2"


def c07_verbatim(path):
    """existing 32-byte key file: used verbatim by every session, never modified"""
    kf1 = KeyFile(path)
    with kf1:
        assert kf1._KeyFile__key == old(fs_content(expanduser(path))), "C07.verbatim-1"
        with kf1:
            assert kf1._KeyFile__key == old(fs_content(expanduser(path))), "C07.nested-share"
        assert truthy(kf1._KeyFile__key), "C07.inner-close-keeps-key"
    assert kf1._KeyFile__key is None, "C07.closed-no-key"
    kf2 = KeyFile(path)
    with kf2:
        assert kf2._KeyFile__key == old(fs_content(expanduser(path))), "C07.verbatim-2"
    assert fs_same(), "C07.file-never-modified"


def c07_rejected_every_time(path, text):
    """malformed key file: every attempt to open raises EncryptionError, nothing is ever encrypted"""
    kf = KeyFile(path)
    opened = False
    try:
        with kf:
            opened = True
    except EncryptionError:
        pass
    assert not opened, "C07.first-open-rejected"
    assert not truthy(kf._KeyFile__key), "C07.no-key-after-rejection"
    try:
        with kf:
            opened = True
    except EncryptionError:
        pass
    assert not opened, "C07.second-open-rejected"
    encrypted = False
    try:
        kf.encrypt(text, "xor")
        encrypted = True
    except TypeError:
        pass
    assert not encrypted, "C07.no-encryption-with-malformed-key"
    assert fs_same(), "C07.malformed-file-untouched"


def c07_closed_cannot_encrypt(kf, text, secret):
    """outside an open context neither encrypt nor decrypt succeeds"""
    done = False
    try:
        kf.encrypt(text, "best")
        done = True
    except TypeError:
        pass
    try:
        kf.decrypt(secret)
        done = True
    except TypeError:
        pass
    assert not done, "C07.closed-context-refuses"
