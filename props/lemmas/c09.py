# Ghost clients for C09: lemmas over the DigestValue / ChallengeField contracts.


def c09_accepts_the_secret(p, alg):
    d = DigestValue.create(p, alg)
    ok = True
    try:
        d.challenge(p)
    except ValueError:
        ok = False
    assert ok, "C09.challenge-with-the-secret-succeeds"
    assert len(d.salt) == digest_size(alg), "C09.salt-has-digest-length"


def c09_rejects_another_secret(p, q, alg):
    d = DigestValue.create(p, alg)
    rejected = False
    try:
        d.challenge(q)
    except ValueError:
        rejected = True
    assert rejected, "C09.challenge-with-another-secret-fails"


def c09_two_assignments_two_salts(p, alg):
    d1 = DigestValue.create(p, alg)
    d2 = DigestValue.create(p, alg)
    assert d1.salt == rand_bytes(old(glob('rand_ctr'))) and d2.salt == rand_bytes(old(glob('rand_ctr')) + 1), "C09.each-assignment-draws-a-new-salt"


def c09_stored_pair_loads_back(f, cfg, d):
    b = f.to_basic(cfg, d)
    r = f.to_python(cfg, b)
    assert r.salt == d.salt and r.digest == d.digest and r.algorithm is f.algorithm, "C09.what-was-saved-loads-back-as-the-same-salt-and-digest"
