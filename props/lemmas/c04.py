# Ghost clients for C04: every format decodes what it encoded, whatever its options.  Proved from the contracts of
# the wrappers in cincoconfig/formats/*.py; the codec law parse(text(d)) == d itself is an assumption.


def c04_json_decodes_what_it_encoded(fmt, cfg, tree):
    r = fmt.loads(cfg, fmt.dumps(cfg, tree))
    assert doc(r) == doc(tree), "C04.decoding-yields-the-encoded-tree"


def c04_json_options_do_not_matter(f1, f2, cfg, tree):
    r1 = f1.loads(cfg, f1.dumps(cfg, tree))
    r2 = f2.loads(cfg, f2.dumps(cfg, tree))
    r3 = f2.loads(cfg, f1.dumps(cfg, tree))
    assert doc(r1) == doc(r2) and doc(r1) == doc(r3), "C04.pretty-and-compact-decode-to-the-same-tree"


def c04_yaml_decodes_what_it_encoded(fmt, cfg, tree):
    r = fmt.loads(cfg, fmt.dumps(cfg, tree))
    assert doc(r) == doc(tree), "C04.decoding-yields-the-encoded-tree"


def c04_yaml_options_do_not_matter(f1, f2, cfg, tree):
    r1 = f1.loads(cfg, f1.dumps(cfg, tree))
    r2 = f2.loads(cfg, f2.dumps(cfg, tree))
    assert doc(r1) == doc(r2), "C04.the-root-key-never-changes-the-decoded-tree"


def c04_bson_decodes_what_it_encoded(fmt, cfg, tree):
    r = fmt.loads(cfg, fmt.dumps(cfg, tree))
    assert doc(r) == doc(tree), "C04.decoding-yields-the-encoded-tree"


def c04_bson_options_do_not_matter(f1, f2, cfg, tree):
    r1 = f1.loads(cfg, f1.dumps(cfg, tree))
    r2 = f2.loads(cfg, f2.dumps(cfg, tree))
    assert doc(r1) == doc(r2), "C04.two-formatters-decode-to-the-same-tree"


def c04_pickle_decodes_what_it_encoded(fmt, cfg, tree):
    r = fmt.loads(cfg, fmt.dumps(cfg, tree))
    assert doc(r) == doc(tree), "C04.decoding-yields-the-encoded-tree"


def c04_pickle_options_do_not_matter(f1, f2, cfg, tree):
    r1 = f1.loads(cfg, f1.dumps(cfg, tree))
    r2 = f2.loads(cfg, f2.dumps(cfg, tree))
    assert doc(r1) == doc(r2), "C04.two-formatters-decode-to-the-same-tree"



def c04_xml_scalars_decode_to_themselves(fmt, key, value):
    r = fmt._from_element(fmt._to_element(key, value))
    assert r == value and typeis(r, 'bool') == typeis(value, 'bool') and typeis(r, 'str') == typeis(value, 'str'), "C04.a-scalar-decodes-to-itself-with-its-type"


def c04_xml_floats_decode_to_themselves(fmt, key, value):
    r = fmt._from_element(fmt._to_element(key, value))
    assert typeis(r, 'float') and r == value, "C04.a-float-decodes-to-itself"


def c04_xml_root_tag_is_checked(f1, f2, cfg, tree):
    b = f1.dumps(cfg, tree)
    rejected = False
    try:
        f2.loads(cfg, b)
    except ValueError:
        rejected = True
    assert rejected == (f1.root_tag != f2.root_tag), "C04.a-document-is-decoded-exactly-under-its-own-root-tag"
