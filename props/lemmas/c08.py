# Ghost clients for C08: decrypt inverts encrypt, for each method, across provider objects.


def c08_xor_involution(key, data):
    p1 = XorProvider(key)
    c = p1.encrypt(data)
    p2 = XorProvider(key)
    d = p2.decrypt(c)
    assert bytes_equal(d, data), "C08.xor-decrypt-inverts-encrypt"


def c08_aes_roundtrip(key, data):
    p1 = AesProvider(key)
    c = p1.encrypt(data)
    assert len(c) >= 32 and (len(c) - 16) % 16 == 0, "C08.aes-ciphertext-wellformed"
    p2 = AesProvider(key)
    d = p2.decrypt(c)
    assert d == data, "C08.aes-decrypt-inverts-encrypt"


def c08_aes_never_raises_on_own_output(key, data):
    p1 = AesProvider(key)
    c = p1.encrypt(data)
    failed = False
    try:
        p1.decrypt(c)
    except Exception:
        failed = True
    assert not failed, "C08.aes-own-output-accepted"


def c08_aes_fresh_iv(key, data):
    p = AesProvider(key)
    c1 = p.encrypt(data)
    c2 = p.encrypt(data)
    assert c1[:16] == rand_bytes(old(glob('rand_ctr'))) and c2[:16] == rand_bytes(old(glob('rand_ctr')) + 1), "C08.two-encryptions-two-draws"


def c08_keyfile_roundtrip_xor(kf, text, method):
    s = kf.encrypt(text, method)
    assert s.method == 'xor', "C08.recorded-method-concrete-xor"
    d = kf.decrypt(s)
    assert bytes_equal(d, as_bytes(text)), "C08.keyfile-xor-decrypt-inverts-encrypt"


def c08_keyfile_roundtrip_aes(kf, text, method):
    s = kf.encrypt(text, method)
    assert s.method == 'aes', "C08.recorded-method-concrete-aes"
    d = kf.decrypt(s)
    assert d == as_bytes(text), "C08.keyfile-aes-decrypt-inverts-encrypt"
