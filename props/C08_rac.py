"""C08 - bounded run-time contract driver: ciphers invert exactly; AES is standard with a fresh IV; bad input is
rejected.

Every case is a small JSON dict (bytes as hex) that `check_case` executes against the REAL library:
  roundtrip      key x plaintext x method: providers, KeyFile sessions, independent AES pipeline (both directions),
                 XOR keystream, fresh IV, wrong key
  aes-reject     malformed AES ciphertexts (too short / not block aligned / truncated / extended) must raise
  method-reject  unknown or missing methods must raise (encrypt and decrypt)
  stored-reject  malformed stored secrets given to SecureField.to_python must raise instead of returning a value
  stored-rt      SecureField.to_basic -> to_python through a new configuration object and key-file session
  provider-reuse ONE AesProvider / XorProvider object (and one KeyFile session) used for several encryptions in a
                 row, also of equal plaintexts: fresh IV per call, every ciphertext decrypts
The reference AES pipeline is built directly on the `cryptography` package and shares no code with the library.
"""
import base64
import os

from pyvc.raclib import Recorder, sandbox

PID = "C08"

O_XOR = "encryption:XorProvider.encrypt/post:C08.xor-keystream"
O_XOR_INV = "encryption:XorProvider.decrypt/post:C08.xor-involution"
O_AES_FMT = "encryption:AesProvider.encrypt/post:C08.aes-standard-format"
O_AES_IV = "encryption:AesProvider.encrypt/post:C08.fresh-iv-per-call"
O_AES_DEC = "encryption:AesProvider.decrypt/post:C08.aes-decrypts-standard"
O_AES_INV = "encryption:AesProvider.decrypt/post:C08.inverse"
O_AES_WRONG = "encryption:AesProvider.decrypt/post:C08.wrong-key-never-plaintext"
O_AES_REJ = "encryption:AesProvider.decrypt/raise:C08.aes-accepts-only-wellformed"
O_KF_METHOD = "encryption:KeyFile.encrypt/post:C08.method-concrete"
O_KF_INV = "encryption:KeyFile.decrypt/post:C08.inverse-across-sessions"
O_KF_STR = "encryption:KeyFile.encrypt/post:C08.str-is-utf8-bytes"
O_BADMETHOD = "encryption:KeyFile._get_provider/raise:C08.bad-method-rejected"
O_STORED_REJ = "fields.secure_field:SecureField.to_python/raise:C08.malformed-stored-rejected"
O_STORED_INV = "fields.secure_field:SecureField.to_python/post:C08.inverse"
O_STORED_METHOD = "fields.secure_field:SecureField.to_basic/post:C08.method-concrete"
O_STORED_WRONG = "fields.secure_field:SecureField.to_python/post:C08.wrong-key-never-plaintext"


# ---------------------------------------------------------------------------------------------------------------
# independent reference implementations
def _xor(data, key):
    return bytes(b ^ key[i % len(key)] for i, b in enumerate(data))


def _prims():
    from cryptography.hazmat.primitives import padding
    from cryptography.hazmat.primitives.ciphers import Cipher, algorithms, modes
    return padding, Cipher, algorithms, modes


def ref_aes_enc(key, iv, text):
    padding, Cipher, algorithms, modes = _prims()
    p = padding.PKCS7(128).padder()
    padded = p.update(text) + p.finalize()
    e = Cipher(algorithms.AES(key), modes.CBC(iv)).encryptor()
    return iv + e.update(padded) + e.finalize()


def ref_aes_dec(key, blob):
    """raises ValueError when blob is not IV + whole blocks with valid PKCS7 padding"""
    padding, Cipher, algorithms, modes = _prims()
    if len(blob) < 32 or len(blob) % 16:
        raise ValueError("not IV + whole blocks")
    d = Cipher(algorithms.AES(key), modes.CBC(blob[:16])).decryptor()
    padded = d.update(blob[16:]) + d.finalize()
    u = padding.PKCS7(128).unpadder()
    return u.update(padded) + u.finalize()


# ---------------------------------------------------------------------------------------------------------------
# JSON encoding of arbitrary stored values
def _enc(v):
    if isinstance(v, bytes):
        return {"__bytes__": v.hex()}
    if isinstance(v, tuple):
        return {"__tuple__": [_enc(x) for x in v]}
    if isinstance(v, list):
        return [_enc(x) for x in v]
    if isinstance(v, dict):
        return {"__dict__": [[_enc(k), _enc(x)] for k, x in v.items()]}
    return v


def _dec(v):
    if isinstance(v, list):
        return [_dec(x) for x in v]
    if isinstance(v, dict):
        if "__bytes__" in v:
            return bytes.fromhex(v["__bytes__"])
        if "__tuple__" in v:
            return tuple(_dec(x) for x in v["__tuple__"])
        return {_dec(k): _dec(x) for k, x in v["__dict__"]}
    return v


def _call(fn, *a, **k):
    """(value, None) or (None, exception) - the exception is an observation about the library"""
    try:
        return fn(*a, **k), None
    except Exception as e:  # noqa: BLE001 - classified by the caller
        return None, e


def _keyfile(tmp, key, name="c08.key"):
    path = os.path.join(tmp, name)
    with open(path, "wb") as fp:
        fp.write(key)
    return path


# ---------------------------------------------------------------------------------------------------------------
def check_case(tmp, case):
    """execute one case against the real library; returns [(obligation, witness_key, what)]"""
    import cincoconfig.encryption as E
    from cincoconfig import Schema, SecureField
    fails = []
    kind = case["kind"]
    key = bytes.fromhex(case["key"])

    def bad(obl, wk, what):
        fails.append((obl, wk, what))

    if kind == "roundtrip":
        x = bytes.fromhex(case["plain"])
        method, cls = case["method"], case["class"]
        other = bytes.fromhex(case["other_key"])
        iv = bytes.fromhex(case["iv"])
        # --- provider level
        if method == "xor":
            c, e = _call(E.XorProvider(key).encrypt, x)
            if e is not None or c != _xor(x, key):
                bad(O_XOR, "xor|" + cls, "XorProvider.encrypt != key repeated over data (%s)" % _sh(c, e))
            else:
                d, e = _call(E.XorProvider(key).decrypt, c)
                if e is not None or d != x:
                    bad(O_XOR_INV, "xor|" + cls, "decrypt(encrypt(x)) != x on a second provider (%s)" % _sh(d, e))
                d, e = _call(E.XorProvider(key).encrypt, c)
                if e is not None or d != x:
                    bad(O_XOR_INV, "xor-twice|" + cls, "encrypt(encrypt(x)) != x (%s)" % _sh(d, e))
        elif method == "aes":
            c1, e1 = _call(E.AesProvider(key).encrypt, x)
            c2, e2 = _call(E.AesProvider(key).encrypt, x)
            if e1 is not None or e2 is not None:
                bad(O_AES_FMT, "aes|" + cls, "AesProvider.encrypt raised %s" % type(e1 or e2).__name__)
            else:
                want_len = 16 + 16 * (len(x) // 16 + 1)
                r, e = _call(ref_aes_dec, key, c1)
                if len(c1) != want_len or e is not None or r != x:
                    bad(O_AES_FMT, "aes|" + cls, "ciphertext is not IV(16) + AES-256-CBC/PKCS7: len %d (want %d), "
                        "independent decrypt -> %s" % (len(c1), want_len, _sh(r, e)))
                if c1 == c2 or c1[:16] == c2[:16]:
                    bad(O_AES_IV, "aes|" + cls, "two encryptions of the same plaintext share IV/ciphertext")
                d, e = _call(E.AesProvider(key).decrypt, c1)
                if e is not None or d != x:
                    bad(O_AES_INV, "aes|" + cls, "decrypt(encrypt(x)) != x on a second provider (%s)" % _sh(d, e))
                d, e = _call(E.AesProvider(other).decrypt, c1)
                if e is None and d == x:
                    bad(O_AES_WRONG, "aes|" + cls, "a different key decrypted the value to the plaintext")
            mine = ref_aes_enc(key, iv, x)
            d, e = _call(E.AesProvider(key).decrypt, mine)
            if e is not None or d != x:
                bad(O_AES_DEC, "aes|" + cls, "independently built IV+CBC/PKCS7 ciphertext not decrypted (%s)"
                    % _sh(d, e))
        # --- KeyFile level, across objects and sessions
        path = _keyfile(tmp, key)
        kf1 = E.KeyFile(path)
        with kf1 as ctx:
            sv, e = _call(ctx.encrypt, x, method=method)
            sv_b, e_b = _call(ctx.encrypt, x, method=method)
        if e is not None or e_b is not None:
            bad(O_KF_INV, "%s|%s" % (method, cls), "KeyFile.encrypt raised %s" % type(e or e_b).__name__)
            return fails
        want = "xor" if method == "xor" else ("aes" if E.AES_AVAILABLE else "xor")
        if not isinstance(sv, E.SecureValue) or sv.method not in ("aes", "xor") or sv.method != want:
            bad(O_KF_METHOD, "%s|%s" % (method, cls), "recorded method %r for requested %r (want %r)"
                % (getattr(sv, "method", sv), method, want))
            return fails
        if sv.method == "xor" and sv.ciphertext != _xor(x, key):
            bad(O_XOR, "keyfile-%s|%s" % (method, cls), "KeyFile XOR ciphertext != key repeated over data")
        if sv.method == "aes":
            r, e = _call(ref_aes_dec, key, sv.ciphertext)
            if e is not None or r != x:
                bad(O_AES_FMT, "keyfile-%s|%s" % (method, cls), "independent decrypt of KeyFile AES value -> %s"
                    % _sh(r, e))
            if sv.ciphertext == sv_b.ciphertext:
                bad(O_AES_IV, "keyfile-%s|%s" % (method, cls), "equal plaintexts gave equal ciphertexts")
        with E.KeyFile(path) as ctx2:                       # new object, new session
            d, e = _call(ctx2.decrypt, sv)
            d3, e3 = _call(ctx2.decrypt, E.SecureValue(sv.method, ref_aes_enc(key, iv, x) if sv.method == "aes"
                                                       else _xor(x, key)))
        if e is not None or d != x:
            bad(O_KF_INV, "%s|%s" % (method, cls), "new KeyFile session: decrypt(encrypt(x)) -> %s" % _sh(d, e))
        if e3 is not None or d3 != x:
            bad(O_KF_INV, "indep-%s|%s" % (method, cls), "independently built value not decrypted: %s" % _sh(d3, e3))
        with kf1 as ctx:                                    # same object, later session
            d, e = _call(ctx.decrypt, sv)
        if e is not None or d != x:
            bad(O_KF_INV, "%s|%s|later-session" % (method, cls), "later session: decrypt -> %s" % _sh(d, e))
        if case.get("as_str"):
            text = x.decode("utf-8")
            with E.KeyFile(path) as ctx:
                sv2, e = _call(ctx.encrypt, text, method=method)
                d, e2 = (None, e) if e is not None else _call(ctx.decrypt, sv2)
            if e2 is not None or d != x:
                bad(O_KF_STR, "%s|%s" % (method, cls), "str plaintext not encrypted as its UTF-8 bytes: %s"
                    % _sh(d, e2))
    elif kind == "aes-reject":
        # must_raise=False marks a modified ciphertext that happens to be IV + whole blocks with VALID PKCS7
        # padding (decided by the reference pipeline): no standard implementation can reject it, the clause left
        # is that it never decrypts to the original plaintext
        ct = bytes.fromhex(case["ct"])
        orig = bytes.fromhex(case["orig"]) if "orig" in case else None
        must = case.get("must_raise", True)
        path = _keyfile(tmp, key)
        with E.KeyFile(path) as ctx:
            results = [("", _call(E.AesProvider(key).decrypt, ct)),
                       ("keyfile|", _call(ctx.decrypt, E.SecureValue("aes", ct)))]
        for pre, (v, e) in results:
            if e is not None:
                continue
            if orig is not None and v == orig:
                bad(O_AES_REJ, pre + case["class"] + "|original-plaintext", "decrypt of a %s ciphertext (%d bytes) "
                    "returned the ORIGINAL plaintext" % (case["class"], len(ct)))
            elif must:
                bad(O_AES_REJ, pre + case["class"], "decrypt(%d bytes, %s) returned %r instead of raising"
                    % (len(ct), case["class"], v))
    elif kind == "provider-reuse":
        # ONE provider object used for several encryptions in a row (also of equal plaintexts)
        plains = [bytes.fromhex(h) for h in case["plains"]]
        cls = case["class"]
        aes = E.AesProvider(key)
        cts = []
        for x in plains:
            c, e = _call(aes.encrypt, x)
            if e is not None:
                bad(O_AES_FMT, "same-provider|" + cls, "encrypt #%d on the same AesProvider raised %s"
                    % (len(cts), type(e).__name__))
                break
            cts.append(c)
        else:
            ivs = [c[:16] for c in cts]
            if len(set(ivs)) != len(ivs):
                bad(O_AES_IV, "same-provider|" + cls, "%d encryptions on one AesProvider used only %d different IVs"
                    % (len(ivs), len(set(ivs))))
            if len(set(cts)) != len(cts):
                bad(O_AES_IV, "same-provider|%s|ciphertext" % cls, "encryptions on one AesProvider gave equal "
                    "ciphertexts")
            for i, (x, c) in enumerate(zip(plains, cts)):
                r, e = _call(ref_aes_dec, key, c)
                if e is not None or r != x or len(c) != 16 + 16 * (len(x) // 16 + 1):
                    bad(O_AES_FMT, "same-provider|" + cls, "ciphertext #%d is not IV + AES-256-CBC/PKCS7 of its "
                        "plaintext (independent decrypt -> %s)" % (i, _sh(r, e)))
                for who, prov in (("same", aes), ("fresh", E.AesProvider(key))):
                    d, e = _call(prov.decrypt, c)
                    if e is not None or d != x:
                        bad(O_AES_INV, "same-provider|%s|%s-object" % (cls, who), "decrypt of ciphertext #%d on the "
                            "%s provider object -> %s" % (i, who, _sh(d, e)))
        xp = E.XorProvider(key)
        for i, x in enumerate(plains):
            c, e = _call(xp.encrypt, x)
            if e is not None or c != _xor(x, key):
                bad(O_XOR, "same-provider|" + cls, "encrypt #%d on one XorProvider != key repeated over data (%s)"
                    % (i, _sh(c, e)))
                continue
            d, e = _call(xp.decrypt, c)
            if e is not None or d != x:
                bad(O_XOR_INV, "same-provider|" + cls, "decrypt #%d on the same XorProvider -> %s" % (i, _sh(d, e)))
        # one KeyFile session, several encryptions
        path = _keyfile(tmp, key)
        with E.KeyFile(path) as ctx:
            svs = [_call(ctx.encrypt, x, method="aes") for x in plains]
            back = [(_call(ctx.decrypt, sv) if e is None else (None, e)) for sv, e in svs]
        if any(e is not None for _, e in svs):
            bad(O_KF_INV, "same-session|" + cls, "encrypt in one KeyFile session raised")
        else:
            if len({sv.ciphertext[:16] for sv, _ in svs}) != len(svs):
                bad(O_AES_IV, "same-session|" + cls, "encryptions in one KeyFile session share an IV")
            for i, ((d, e), x) in enumerate(zip(back, plains)):
                if e is not None or d != x:
                    bad(O_KF_INV, "same-session|" + cls, "decrypt #%d in the same session -> %s" % (i, _sh(d, e)))
    elif kind == "method-reject":
        m = _dec(case["method"])
        path = _keyfile(tmp, key)
        with E.KeyFile(path) as ctx:
            v, e = _call(ctx.encrypt, b"some plaintext 01", method=m)
            if e is None:
                bad(O_BADMETHOD, "encrypt|" + case["class"], "encrypt(method=%r) returned %r" % (m, v))
            for cname, ct in (("xor", _xor(b"some plaintext 01", key)),
                              ("aes", ref_aes_enc(key, bytes(16), b"some plaintext 01"))):
                v, e = _call(ctx.decrypt, E.SecureValue(m, ct))
                if e is None:
                    bad(O_BADMETHOD, "decrypt|" + case["class"], "decrypt(method=%r, %s ciphertext) returned %r"
                        % (m, cname, v))
    elif kind == "stored-reject":
        value = _dec(case["value"])
        path = _keyfile(tmp, key)
        schema = Schema()
        schema.s = SecureField(method=case.get("field_method", "best"))
        cfg = schema(key_filename=path)
        v, e = _call(schema.s.to_python, cfg, value)
        if e is None and "orig_text" in case and v == case["orig_text"]:
            bad(O_STORED_REJ, case["class"] + "|original-plaintext", "to_python of a %s ciphertext returned the "
                "ORIGINAL plaintext" % case["class"])
        elif e is None:
            bad(O_STORED_REJ, case["class"], "to_python(%s) returned %r instead of raising" % (_short(value), v))
        else:
            # the same through the public loading path: must raise as well, and leave no value behind
            cfg2 = schema(key_filename=path)
            _, e2 = _call(cfg2.load_tree, {"s": value})
            if e2 is None:
                bad(O_STORED_REJ, "load_tree|" + case["class"], "load_tree accepted %s -> %r"
                    % (_short(value), cfg2.s))
    elif kind == "stored-rt":
        text, method = case["text"], case["method"]
        other = bytes.fromhex(case["other_key"])
        path = _keyfile(tmp, key)
        schema = Schema()
        schema.s = SecureField(method=method)
        cfg = schema(key_filename=path)
        basic, e = _call(schema.s.to_basic, cfg, text)
        want = "xor" if method == "xor" else ("aes" if E.AES_AVAILABLE else "xor")
        if e is not None or not isinstance(basic, dict) or basic.get("method") != want or \
                not isinstance(basic.get("ciphertext"), str):
            bad(O_STORED_METHOD, "%s|%s" % (method, case["class"]), "to_basic -> %s" % _sh(basic, e))
            return fails
        raw, e = _call(base64.b64decode, basic["ciphertext"], validate=True)
        if e is not None:
            bad(O_STORED_METHOD, "%s|%s|b64" % (method, case["class"]), "ciphertext is not strict base64")
            return fails
        ref = _xor(raw, key) if want == "xor" else _call(ref_aes_dec, key, raw)[0]
        if ref != text.encode("utf-8"):
            bad(O_STORED_INV, "indep|%s|%s" % (method, case["class"]), "stored ciphertext does not decrypt "
                "independently to the UTF-8 plaintext")
        cfg2 = schema(key_filename=path)                    # new configuration object, new key-file session
        v, e = _call(schema.s.to_python, cfg2, dict(basic))
        if e is not None or v != text or type(v) is not str:
            bad(O_STORED_INV, "%s|%s" % (method, case["class"]), "to_python(to_basic(x)) -> %s" % _sh(v, e))
        path2 = _keyfile(tmp, other, "c08-other.key")
        cfg3 = schema(key_filename=path2)
        v, e = _call(schema.s.to_python, cfg3, dict(basic))
        if e is None and v == text:
            bad(O_STORED_WRONG, "%s|%s" % (method, case["class"]), "a different key file yields the plaintext")
    else:
        raise ValueError(kind)
    return fails


def _sh(v, e):
    if e is not None:
        return "raised %s(%s)" % (type(e).__name__, str(e)[:60])
    return _short(v)


def _short(v):
    r = repr(v)
    return r if len(r) <= 90 else r[:87] + "..."


# ---------------------------------------------------------------------------------------------------------------
def _plain_pool(rng, extra):
    pool = [("empty", b""), ("1", b"a"), ("15", b"fifteen bytes.."), ("16", b"sixteen bytes..!"),
            ("17", b"seventeen bytes.."), ("31", b"x" * 31), ("32", b"y" * 32), ("33", b"z" * 33),
            ("48", b"0123456789abcdef" * 3), ("64+1", b"Q" * 65), ("100", bytes(range(100))),
            ("nonutf8", b"\xff\xfe\x00\x80binary\xc3"), ("nonutf8-block", b"\x80" * 16),
            ("utf8", "pässwörd ☃ \U0001f511".encode("utf-8")), ("zeros", bytes(40)),
            ("pad-lookalike", b"A" * 15 + b"\x01"), ("pad-lookalike16", b"\x10" * 16)]
    for i in range(extra):
        n = rng.choice([rng.randrange(0, 16), rng.randrange(16, 48), rng.randrange(48, 200)])
        pool.append(("rand%d-%d" % (i, n), bytes(rng.getrandbits(8) for _ in range(n))))
    return pool


def _len_class(n):
    return "empty" if n == 0 else "<16" if n < 16 else "=16" if n == 16 else "<=32" if n <= 32 else ">32"


def _key_pool(rng, n):
    pool = [("zeros", bytes(32)), ("ones", b"\xff" * 32), ("ramp", bytes(range(32))),
            ("ascii", b"0123456789abcdef0123456789ABCDEF"), ("nul-first", b"\x00" + b"k" * 31)]
    for i in range(n):
        pool.append(("rand", bytes(rng.getrandbits(8) for _ in range(32))))
    return pool


def gen_cases(rng, tier):
    nkeys, nplain = (27, 15) if tier == "quick" else (40, 40)
    keys = _key_pool(rng, nkeys)
    plains = _plain_pool(rng, nplain)
    rb = lambda n: bytes(rng.getrandbits(8) for _ in range(n))  # noqa: E731
    for kname, key in keys:
        other = rb(32)
        while other == key:
            other = rb(32)
        for pname, x in plains:
            try:
                x.decode("utf-8")
                as_str = True
            except UnicodeDecodeError:
                as_str = False
            for method in ("aes", "xor", "best"):
                yield {"kind": "roundtrip", "key": key.hex(), "other_key": other.hex(), "plain": x.hex(),
                       "method": method, "iv": rb(16).hex(), "as_str": as_str,
                       "class": "%s|%s" % (_len_class(len(x)), "utf8" if as_str else "non-utf8")}, \
                    (kname if kname != "rand" else key.hex()[:8], pname, method)
    # --- malformed AES ciphertexts
    for kname, key in keys[:6]:
        good = ref_aes_enc(key, rb(16), b"printable ascii plaintext that spans three blocks")   # 16 + 64 bytes
        shorts = [("too-short", good[:n]) for n in (0, 1, 15, 16, 17, 31)]
        unaligned = [("not-block-aligned", good[:n]) for n in (33, 40, 47, 49, 79)]
        trunc = [("truncated-block", good[:-16]), ("truncated-2-blocks", good[:-32])]
        ext = [("extended-unaligned", good + b"\x00"), ("extended-unaligned", good + rb(15)),
               ("not-block-aligned", rb(16) + good[16:] + rb(7))]
        for cls, ct in shorts + unaligned + trunc + ext:
            yield {"kind": "aes-reject", "key": key.hex(), "ct": ct.hex(), "class": cls}, (kname, cls, ct.hex()[-8:],
                                                                                           len(ct))
    # --- unknown / missing methods
    key = keys[-1][1]
    for cls, m in [("unknown", "rot13"), ("unknown", "AES"), ("unknown", "Xor"), ("unknown", " aes"),
                   ("unknown", "aes256"), ("unknown", "des"), ("missing", ""), ("missing", None),
                   ("wrong-type", 5), ("wrong-type", b"aes"), ("wrong-type", ("aes",))]:
        yield {"kind": "method-reject", "key": key.hex(), "method": _enc(m), "class": cls}, (cls, repr(m))
    # --- stored secrets of the wrong shape / encoding
    for kname, key in keys[-3:]:
        pt = b"stored ascii secret longer than two AES blocks!"          # 47 bytes -> 3 blocks
        aes_raw = ref_aes_enc(key, rb(16), pt)
        aes_b64 = base64.b64encode(aes_raw).decode()
        xor_b64 = base64.b64encode(_xor(pt, key)).decode()
        b64 = lambda b: base64.b64encode(b).decode()  # noqa: E731
        stored = [
            ("wrong-type:int", 5), ("wrong-type:float", 2.5), ("wrong-type:bool", True), ("wrong-type:bool", False),
            ("wrong-type:list", ["aes", aes_b64]), ("wrong-type:tuple", ("aes", aes_b64)),
            ("wrong-type:bytes", aes_raw), ("wrong-type:empty-dict", {}), ("wrong-type:empty-list", []),
            ("wrong-type:int", 0),
            ("missing-method", {"ciphertext": aes_b64}), ("missing-method", {"method": None, "ciphertext": aes_b64}),
            ("missing-method", {"method": "", "ciphertext": xor_b64}),
            ("unknown-method", {"method": "rot13", "ciphertext": xor_b64}),
            ("unknown-method", {"method": "AES", "ciphertext": aes_b64}),
            ("unknown-method", {"method": 5, "ciphertext": aes_b64}),
            ("unknown-method", {"method": ["aes"], "ciphertext": aes_b64}),
            ("missing-ciphertext", {"method": "aes"}), ("missing-ciphertext", {"method": "xor"}),
            ("missing-ciphertext", {"method": "aes", "ciphertext": None}),
            ("ciphertext-wrong-type", {"method": "aes", "ciphertext": 5}),
            ("ciphertext-wrong-type", {"method": "xor", "ciphertext": _xor(pt, key)}),
            ("ciphertext-wrong-type", {"method": "aes", "ciphertext": [aes_b64]}),
            ("ciphertext-wrong-type", {"method": "aes", "ciphertext": {"b64": aes_b64}}),
            ("bad-base64:wrong-length", {"method": "aes", "ciphertext": aes_b64[:-3]}),
            ("bad-base64:wrong-length", {"method": "xor", "ciphertext": "abc"}),
            ("bad-base64:wrong-length", {"method": "xor", "ciphertext": "a"}),
            ("bad-base64:non-alphabet-chars", {"method": "xor", "ciphertext": "!!!!"}),
            ("bad-base64:non-alphabet-chars", {"method": "aes", "ciphertext": "!!!!"}),
            ("bad-base64:non-alphabet-chars", {"method": "xor", "ciphertext": "$%^&*()"}),
            ("bad-base64:non-alphabet-chars", {"method": "xor", "ciphertext": xor_b64[:8] + "!*!*" + xor_b64[8:]}),
            ("bad-base64:non-alphabet-chars", {"method": "aes", "ciphertext": aes_b64[:8] + "#" + aes_b64[8:]}),
            ("bad-base64:non-alphabet-chars", {"method": "xor", "ciphertext": "éééé"}),
            ("aes-empty", {"method": "aes", "ciphertext": ""}),
            ("aes-too-short", {"method": "aes", "ciphertext": b64(aes_raw[:16])}),
            ("aes-too-short", {"method": "aes", "ciphertext": b64(aes_raw[:31])}),
            ("aes-truncated", {"method": "aes", "ciphertext": b64(aes_raw[:-1])}),
            ("aes-truncated", {"method": "aes", "ciphertext": b64(aes_raw[:-15])}),
            ("aes-truncated", {"method": "aes", "ciphertext": b64(aes_raw[:-16])}),
            ("aes-truncated", {"method": "aes", "ciphertext": b64(aes_raw[:-32])}),
            ("aes-extended", {"method": "aes", "ciphertext": b64(aes_raw + b"\x00")}),
            ("aes-extended", {"method": "aes", "ciphertext": b64(aes_raw + rb(15))}),
            ("aes-unaligned", {"method": "aes", "ciphertext": xor_b64}),
            ("not-utf8-after-decrypt", {"method": "xor", "ciphertext": b64(_xor(b"\xff\xfe\xfd", key))}),
            ("not-utf8-after-decrypt", {"method": "aes", "ciphertext": b64(ref_aes_enc(key, rb(16), b"\x80\x81"))}),
        ]
        for i, (cls, v) in enumerate(stored):
            yield {"kind": "stored-reject", "key": key.hex(), "value": _enc(v), "class": cls}, (key.hex()[:8], cls, i)
    # --- SecureField round trip through new config objects
    texts = [("1", "x"), ("ascii", "hunter2"), ("16", "sixteen chars..!"), ("long", "correct horse battery staple " * 4),
             ("unicode", "pässwörd ☃ \U0001f511"), ("b64-lookalike", "QUJD"), ("json-ish", '{"a": 1}')]
    for kname, key in keys:
        other = rb(32)
        for cls, t in texts:
            for method in ("aes", "xor", "best"):
                yield {"kind": "stored-rt", "key": key.hex(), "other_key": other.hex(), "text": t, "method": method,
                       "class": cls}, (kname if kname != "rand" else key.hex()[:8], cls, method)


def _modified(rng, key, good, orig):
    """(class, ciphertext, must_raise): a valid AES value extended by 1..15 and by 16 bytes, truncated by 1..16"""
    rb = lambda n: bytes(rng.getrandbits(8) for _ in range(n))  # noqa: E731
    out = []
    for n in range(1, 16):
        out.append(("extended-by-1..15", good + rb(n)))
        out.append(("truncated-by-1..15", good[:-n]))
    out.append(("truncated-by-16", good[:-16]))
    for extra in (bytes(16), good[-16:], rb(16), rb(16)):
        out.append(("extended-by-16", good + extra))
    res = []
    for cls, ct in out:
        try:
            ref = ref_aes_dec(key, ct)          # does the standard itself reject this byte string?
        except ValueError:
            ref = None
        res.append((cls, ct, ref is None))
    return res


def gen_more(rng, tier):
    """extension of the scope: provider reuse; systematic extension / truncation of valid AES values"""
    rb = lambda n: bytes(rng.getrandbits(8) for _ in range(n))  # noqa: E731
    keys = _key_pool(rng, 7 if tier == "quick" else 20)
    x16, y = b"sixteen bytes..!", b"another plaintext, 31 bytes...."
    seqs = [("equal-x3", [b"same secret"] * 3), ("equal-block-x4", [x16] * 4), ("empty-x3", [b""] * 3),
            ("interleaved", [x16, y, x16, y, x16]), ("mixed-lengths", [b"", b"a", x16, y, x16 * 4, b"a", b""]),
            ("equal-non-utf8-x3", [b"\xff\x00\x80" * 11] * 3), ("equal-x8", [b"hunter2"] * 8)]
    for kname, key in keys:
        for cls, plains in seqs:
            yield {"kind": "provider-reuse", "key": key.hex(), "plains": [x.hex() for x in plains], "class": cls}, \
                (key.hex()[:8], cls)
    origs = [b"", b"short", b"sixteen bytes..!", b"thirty-three printable ascii byte",
             b"forty-seven printable ascii bytes, 3 blocks ..."]
    for ki, (kname, key) in enumerate(keys[-8:] if tier == "quick" else keys):
        for orig in origs:
            good = ref_aes_enc(key, rb(16), orig)
            for j, (cls, ct, must) in enumerate(_modified(rng, key, good, orig)):
                yield {"kind": "aes-reject", "key": key.hex(), "ct": ct.hex(), "orig": orig.hex(), "class": cls,
                       "must_raise": must}, (key.hex()[:8], len(orig), cls, j)
                if ki < 3 and must:
                    text = orig.decode()
                    yield {"kind": "stored-reject", "key": key.hex(), "class": "aes-" + cls, "orig_text": text,
                           "value": _enc({"method": "aes", "ciphertext": base64.b64encode(ct).decode()})}, \
                        (key.hex()[:8], len(orig), "aes-" + cls, j)


def rac(tier: str, seed: int) -> dict:
    rec = Recorder(PID, rule="one case per (key, plaintext, method) round trip [providers + KeyFile sessions + "
                   "independent cryptography pipeline both ways], per malformed AES ciphertext, per bad method, per "
                   "malformed stored value, per SecureField round trip; distinct by (key name, plaintext name/"
                   "class, method/index)",
                   bound="keys: zeros, 0xff, ramp, ascii, NUL-first + %s seeded random; plaintexts: empty, 1, 15, 16, "
                   "17, 31, 32, 33, 48, 65, 100 bytes, non-UTF-8, padding look-alikes + seeded random lengths < 200; "
                   "methods aes/xor/best; AES ciphertext lengths 0..31, unaligned, truncated, extended; 11 bad "
                   "methods; 47 malformed stored values x 3 keys; 7 texts x 3 methods through SecureField; 7 plaintext "
                   "sequences (equal / interleaved / empty / mixed) on ONE AesProvider / XorProvider / KeyFile session "
                   "x 12 keys; valid AES values of 0/5/16/33/47-byte plaintexts extended by 1..15 and 16 bytes and "
                   "truncated by 1..16 bytes x 8 keys (rejection required whenever the reference pipeline rejects; "
                   "never the original plaintext), the same through SecureField.to_python x 3 keys"
                   % ("27" if tier == "quick" else "40"), tier=tier, seed=seed)
    with sandbox() as tmp:
        n = 0
        import itertools
        for case, key in itertools.chain(gen_cases(rec.rng, tier), gen_more(rec.rng, tier)):
            n += 1
            fs = check_case(tmp, case)
            rec.case(key=(case["kind"],) + tuple(key), nontrivial=True,
                     sample=case if n % 211 == 1 else None)
            for obl, wk, what in fs:
                rec.violation(obligation=obl, what=what, replay=case, witness_key=wk)
    return rec.result(exhaustive=False)


def replay(case: dict) -> dict:
    with sandbox() as tmp:
        fs = check_case(tmp, case)
    return {"fails": bool(fs), "expected": "no C08 clause fails for this %s case" % case["kind"],
            "observed": [{"obligation": o, "witness_key": k, "what": w} for o, k, w in fs]}
