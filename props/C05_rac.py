"""C05 bounded run-time contract driver.

Property C05: "Field validation is exact and idempotent; the on-disk encoding is invertible".

For every built-in field class, over an option grid (all pairs of constructor options, boundary values) and
value pools (every Python type, boundary strings / numbers / addresses) the driver runs the REAL
`field.validate / to_basic / to_python` (field attached to a real Schema, cfg = real Config with a key file in
the sandbox) and evaluates four clauses against an INDEPENDENT reference written from the property text and
the class documentation (section "reference" below; it works on the *field spec* (class name + kwargs), it
never looks at the real field object):

  exact         validate(x) returns iff ref accepts x, and the result is ref's normal form
                (+ reject-valueerror: a rejection must be a ValueError (any subclass))
  deterministic validate(x) twice: same outcome (digests: equal modulo the documented random salt)
  idempotent    r = validate(x) accepted  =>  validate(r) accepted and equal to r
  inverse       v accepted/stored          =>  to_python(to_basic(v)) equal to v

Clauses of the documentation the reference takes literally (violations ARE reported, each with its own
witness_key): "Validation errors should raise a ValueError" (IntField/PortField(inf) leak an OverflowError);
`field.to_python(field.to_basic(value)) == value` for every accepted value, read modulo the three normalisations
property C02 allows for the on-disk round trip (see inv_norm: '' secret == None; unset typed list/dict == empty one,
at any depth; tuple in an untyped ListField == list of its items); "never rejects an accepted result" also when the
result is the canonical network text or the absolute path produced by `startdir` and an inherited
max_len/min_len/regex/choices judges it again.

Documentation-silent points on which the reference deliberately FOLLOWS the implementation (not flagged):
  * order of the StringField transforms (strip, required-empty, case, then constraints): given by the property
    anchor; `regex` is "a pattern the value must match" = re.match with the user's pattern (a user pattern ending
    in `$` accepting a trailing newline is the user's pattern semantics, not flagged); `choices=[]`/`regex=''`
    are not enumerated (silent whether "no constraint" or "nothing valid");
  * LogLevelField/ApplicationModeField default transforms (lower + strip) and PortField default range 1..65535;
  * BoolField: tokens compared case-insensitively, not stripped; numbers accepted by truthiness;
  * IPv4NetworkField accepts whatever `ipaddress` calls a strict IPv4 network (netmask / hostmask / bare address
    forms) -- the reference has its own parser for that grammar;
  * FilenameField: '' passes whatever `exists` says; absolute inputs are not normalised;
  * ChallengeField: a DigestValue of a foreign algorithm passes unchanged; the salt of a hashed plaintext is random
    (documented), so equality of digests made from plaintext is "verifies the same plaintext";
  * UrlField: "valid URL with a scheme" = RFC 3986 scheme after the WHATWG clean-up urllib documents, and
    balanced [] in the authority.
"""
import hashlib
import json
import math
import os
import re

from pyvc.raclib import Recorder, sandbox, strict_eq

PID = "C05"

MODULE = {
    "StringField": "fields.string_field", "LogLevelField": "fields.string_field",
    "ApplicationModeField": "fields.string_field", "IntField": "fields.number_field",
    "FloatField": "fields.number_field", "PortField": "fields.net_field", "BoolField": "fields.bool_field",
    "FeatureFlagField": "fields.bool_field", "BytesField": "fields.bytes_field",
    "IPv4AddressField": "fields.net_field", "IPv4NetworkField": "fields.net_field",
    "HostnameField": "fields.net_field", "UrlField": "fields.url_field", "FilenameField": "fields.file_field",
    "ListField": "fields.list_field", "DictField": "fields.dict_field", "ChallengeField": "fields.secure_field",
    "SecureField": "fields.secure_field", "AnyField": "core",
}
ALL_CLASSES = [c for c in MODULE if c != "AnyField"]
STRING_FAMILY = ("StringField", "LogLevelField", "ApplicationModeField", "IPv4AddressField", "IPv4NetworkField",
                 "HostnameField", "UrlField", "FilenameField")
ENCODED_LEAVES = ("BytesField", "ChallengeField", "SecureField")
TMP = "${TMP}"          # placeholder of the sandbox directory inside replay dicts


def obligation(cls, clause):
    meth, kind = {"exact": ("validate", "post"), "reject-valueerror": ("validate", "raise"),
                  "deterministic": ("validate", "post"), "idempotent": ("validate", "post"),
                  "inverse": ("to_python", "post")}[clause]
    return "%s:%s.%s/%s:C05.%s" % (MODULE[cls], cls, meth, kind, clause)


# ----------------------------------------------------------------------------------------------------------
# field specs (class name + kwargs; nested item fields are FS too) and JSON-able value encoding
# ----------------------------------------------------------------------------------------------------------
class FS:
    """field spec: what the reference sees and what a replay dict stores"""
    __slots__ = ("cls", "kw")

    def __init__(self, cls, **kw):
        self.cls, self.kw = cls, kw

    def get(self, name, default=None):
        return self.kw[name] if name in self.kw else default

    def __repr__(self):
        return "%s(%s)" % (self.cls, ", ".join("%s=%r" % kv for kv in self.kw.items()))


class Obj:
    """stand-in for 'an arbitrary object' in the pools (replayable)"""

    def __repr__(self):
        return "<Obj>"


OBJ = Obj()


def enc(v, tmp=None):
    """JSON-able, self-contained encoding of a value / option / field spec"""
    from cincoconfig.fields.secure_field import ChallengeField, DigestValue
    if isinstance(v, FS):
        return {"$field": v.cls, "kw": {k: enc(x, tmp) for k, x in v.kw.items()}}
    if v is None or isinstance(v, bool):
        return v
    if isinstance(v, int):
        return v if abs(v) < 2 ** 53 else {"$i": str(v)}
    if isinstance(v, float):
        return {"$f": repr(v)}
    if isinstance(v, complex):
        return {"$c": [repr(v.real), repr(v.imag)]}
    if isinstance(v, str):
        return v.replace(tmp, TMP) if tmp else v
    if isinstance(v, bytes):
        return {"$b": v.hex()}
    if isinstance(v, bytearray):
        return {"$ba": bytes(v).hex()}
    if isinstance(v, DigestValue):
        alg = [n for n, a in ChallengeField.ALGORITHMS.items() if a is v.algorithm]
        return {"$dv": {"salt": v.salt.hex(), "digest": v.digest.hex(), "alg": alg[0] if alg else None}}
    if isinstance(v, tuple):
        return {"$t": [enc(x, tmp) for x in v]}
    if isinstance(v, list):
        return {"$l": [enc(x, tmp) for x in v]}
    if isinstance(v, (set, frozenset)):
        return {"$s": sorted((enc(x, tmp) for x in v), key=repr)}
    if isinstance(v, dict):
        return {"$d": [[enc(k, tmp), enc(x, tmp)] for k, x in v.items()]}
    if isinstance(v, Obj):
        return {"$o": "object"}
    for name, alg in ChallengeField.ALGORITHMS.items():
        if v is alg:
            return {"$h": name}
    raise TypeError("cannot encode %r" % (v,))


def dec(j, tmp=None):
    from cincoconfig.fields.secure_field import ChallengeField, DigestValue
    if isinstance(j, str):
        return j.replace(TMP, tmp) if tmp else j
    if isinstance(j, list):     # only inside "$l" etc.; never bare
        raise TypeError("bare list in replay")
    if not isinstance(j, dict):
        return j
    if "$field" in j:
        return FS(j["$field"], **{k: dec(x, tmp) for k, x in j["kw"].items()})
    (tag, val), = j.items()
    if tag == "$i":
        return int(val)
    if tag == "$f":
        return float(val)
    if tag == "$c":
        return complex(float(val[0]), float(val[1]))
    if tag == "$b":
        return bytes.fromhex(val)
    if tag == "$ba":
        return bytearray(bytes.fromhex(val))
    if tag == "$dv":
        return DigestValue(bytes.fromhex(val["salt"]), bytes.fromhex(val["digest"]),
                           ChallengeField.ALGORITHMS.get(val["alg"]))
    if tag == "$t":
        return tuple(dec(x, tmp) for x in val)
    if tag == "$l":
        return [dec(x, tmp) for x in val]
    if tag == "$s":
        return set(dec(x, tmp) for x in val)
    if tag == "$d":
        return {dec(k, tmp): dec(x, tmp) for k, x in val}
    if tag == "$o":
        return OBJ
    if tag == "$h":
        return ChallengeField.ALGORITHMS[val]
    raise TypeError("cannot decode %r" % (j,))


def build(fs):
    """the REAL field for a spec"""
    import cincoconfig
    from cincoconfig.core import AnyField
    cls = AnyField if fs.cls == "AnyField" else getattr(cincoconfig, fs.cls)
    return cls(**{k: (build(v) if isinstance(v, FS) else v) for k, v in fs.kw.items()})


class Env:
    """sandbox context: directory layout known to the reference, key file, cwd"""
    LAYOUT = {"": "dir", "d": "dir", "f.txt": "file", "d/g.txt": "file", "F.TXT2": "file"}

    def __init__(self, tmp):
        self.tmp = tmp
        self.root = os.path.join(tmp, "fs")
        self.keyfile = os.path.join(tmp, "c05.cincokey")

    def create(self):
        os.makedirs(os.path.join(self.root, "d"))
        for rel, kind in self.LAYOUT.items():
            if kind == "file":
                with open(os.path.join(self.root, rel), "w") as fp:
                    fp.write("x")
        with open(self.keyfile, "wb") as fp:
            fp.write(bytes(range(32)))

    def kind(self, path):
        """'file' | 'dir' | None for a path (relative ones are relative to the cwd = self.root); pure table lookup"""
        if not path.startswith("/"):
            path = self.root + "/" + path
        path = _normpath(path)
        if path == self.root:
            return "dir"
        if path.startswith(self.root + "/"):
            return self.LAYOUT.get(path[len(self.root) + 1:])
        return None        # the pools never leave the sandbox


def _normpath(p):
    """lexical normalisation of an absolute POSIX path (what 'the absolute file path' means without symlinks)"""
    out = []
    for part in p.split("/"):
        if part in ("", "."):
            continue
        if part == "..":
            if out:
                out.pop()
            continue
        out.append(part)
    return "/" + "/".join(out)


# ----------------------------------------------------------------------------------------------------------
# reference: ok(field, x) / norm(field, x), from the property text and the class documentation
# ----------------------------------------------------------------------------------------------------------
class Reject(Exception):
    """the reference rejects the value (the real field must raise a ValueError)"""


class Hashed:
    """normal form 'a DigestValue of this plaintext under this algorithm with some salt of digest size'"""

    def __init__(self, alg, plaintext):
        self.alg, self.plaintext = alg, plaintext

    def __repr__(self):
        return "<%s digest of %r>" % (self.alg, self.plaintext)


class Same:
    """normal form 'the input itself, unchanged' (untyped containers)"""

    def __init__(self, x):
        self.x = x

    def __repr__(self):
        return "<unchanged %s>" % show(self.x, 40)


class TList:
    def __init__(self, items):
        self.items = items

    def __repr__(self):
        return "ListProxy(%r)" % (self.items,)


class TDict:
    def __init__(self, pairs):
        self.pairs = pairs      # dict normalised key -> normal form

    def __repr__(self):
        return "DictProxy(%r)" % (self.pairs,)


def has_hashed(n):
    if isinstance(n, Hashed):
        return True
    if isinstance(n, TList):
        return any(has_hashed(i) for i in n.items)
    if isinstance(n, TDict):
        return any(has_hashed(i) for i in n.pairs.values())
    return False


def ref_validate(fs, x, env):
    """normal form of x under field spec fs, or raise Reject"""
    if x is None:
        if fs.get("required", False):
            raise Reject("required")
        return None
    return REF[fs.cls](fs, x, env)


def _opt(fs, name, default):
    # an option passed explicitly (even None) overrides a subclass default
    return fs.kw[name] if name in fs.kw else default


def ref_string(fs, x, env, dcase=None, dstrip=None, dchoices=None):
    if not isinstance(x, str):
        raise Reject("not a string")
    v = x
    strip = _opt(fs, "transform_strip", dstrip)
    if strip is True:
        v = v.strip()
    elif isinstance(strip, str) and strip:
        v = v.strip(strip)
    if fs.get("required", False) and v == "":
        raise Reject("required: empty")
    case = _opt(fs, "transform_case", dcase)
    if case:
        v = v.upper() if case.lower() == "upper" else v.lower()
    lo, hi = fs.get("min_len"), fs.get("max_len")
    if lo is not None and not len(v) >= lo:
        raise Reject("too short")
    if hi is not None and not len(v) <= hi:
        raise Reject("too long")
    rx = fs.get("regex")
    if rx and re.match(rx, v) is None:
        raise Reject("pattern")
    choices = dchoices if dchoices is not None else fs.get("choices")
    if choices and v not in choices:
        raise Reject("choices")
    return v


def ref_loglevel(fs, x, env):
    levels = fs.get("levels") or ["debug", "info", "warning", "error", "critical"]
    return ref_string(fs, x, env, dcase="lower", dstrip=True, dchoices=levels)


def ref_appmode(fs, x, env):
    modes = fs.get("modes") or ["development", "production"]
    return ref_string(fs, x, env, dcase="lower", dstrip=True, dchoices=modes)


def ref_number(tc, dmin=None, dmax=None):
    def ref(fs, x, env):
        if isinstance(x, bool) or not isinstance(x, (int, float, str)):
            raise Reject("type")
        try:
            n = tc(x)
        except (ValueError, TypeError, OverflowError):
            raise Reject("conversion")
        lo, hi = _opt(fs, "min", dmin), _opt(fs, "max", dmax)
        # inclusive bounds as true comparisons: NaN is within no bounds; None = no bound, 0 is a bound
        if lo is not None and not n >= lo:
            raise Reject("below min")
        if hi is not None and not n <= hi:
            raise Reject("above max")
        return n
    return ref


TRUE_TOKENS = ("t", "true", "1", "on", "yes", "y")
FALSE_TOKENS = ("f", "false", "0", "off", "no", "n")


def ref_bool(fs, x, env):
    if isinstance(x, bool):
        return x
    if isinstance(x, (int, float)):
        return bool(x)
    if isinstance(x, str):
        if x.lower() in TRUE_TOKENS:
            return True
        if x.lower() in FALSE_TOKENS:
            return False
    raise Reject("not a boolean")


def ref_bytes(fs, x, env):
    if isinstance(x, bytes):
        return x
    if isinstance(x, str):
        try:
            return x.encode("utf-8")
        except UnicodeError:
            raise Reject("not encodable")
    raise Reject("not bytes")


def parse_ipv4(s):
    """dotted quad -> int, else None: 4 ASCII-decimal octets 0..255, 1-3 digits, no leading zeros"""
    parts = s.split(".")
    if len(parts) != 4:
        return None
    n = 0
    for p in parts:
        if not (1 <= len(p) <= 3) or any(c not in "0123456789" for c in p):
            return None
        if len(p) > 1 and p[0] == "0":
            return None
        o = int(p)
        if o > 255:
            return None
        n = n * 256 + o
    return n


def fmt_ipv4(n):
    return ".".join(str((n >> s) & 255) for s in (24, 16, 8, 0))


def parse_ipv4net(s):
    """-> (network int, prefix len) for a strict IPv4 network, else None.  Grammar: ADDR | ADDR/LEN | ADDR/NETMASK |
    ADDR/HOSTMASK, LEN ASCII digits 0..32; host bits must be clear."""
    parts = s.split("/")
    if len(parts) > 2:
        return None
    addr = parse_ipv4(parts[0])
    if addr is None:
        return None
    if len(parts) == 1:
        plen = 32
    else:
        m = parts[1]
        if m and all(c in "0123456789" for c in m):
            plen = int(m)
            if plen > 32:
                return None
        else:
            mask = parse_ipv4(m)
            if mask is None:
                return None
            plen = None
            for cand in (mask, mask ^ 0xFFFFFFFF):      # netmask form first, then hostmask form
                for k in range(33):
                    if cand == (0xFFFFFFFF << (32 - k)) & 0xFFFFFFFF:
                        plen = k
                        break
                if plen is not None:
                    break
            if plen is None:
                return None
    netmask = (0xFFFFFFFF << (32 - plen)) & 0xFFFFFFFF
    if addr & ~netmask & 0xFFFFFFFF:
        return None
    return addr, plen


def ref_ipv4addr(fs, x, env):
    v = ref_string(fs, x, env)
    a = parse_ipv4(v)
    if a is None:
        raise Reject("not an IPv4 address")
    return fmt_ipv4(a)


def ref_ipv4net(fs, x, env):
    v = ref_string(fs, x, env)
    net = parse_ipv4net(v)
    if net is None:
        raise Reject("not an IPv4 network")
    addr, plen = net
    lo, hi = fs.get("min_prefix_len"), fs.get("max_prefix_len")
    if lo is not None and not plen >= lo:
        raise Reject("prefix too short")
    if hi is not None and not plen <= hi:
        raise Reject("prefix too long")
    return "%s/%d" % (fmt_ipv4(addr), plen)


_ASCII_ALNUM = "abcdefghijklmnopqrstuvwxyzABCDEFGHIJKLMNOPQRSTUVWXYZ0123456789"


def ref_hostname(fs, x, env):
    v = ref_string(fs, x, env)
    a = parse_ipv4(v)
    if a is not None:
        if fs.get("allow_ipv4", True):
            return fmt_ipv4(a)
        raise Reject("IPv4 address not allowed")
    # "looks like a DNS hostname or a Windows NetBIOS name": the WHOLE value (no trailing newline)
    dns = len(v) >= 2 and v[0] in _ASCII_ALNUM and all(c in _ASCII_ALNUM or c in ".-" for c in v[1:])
    netbios = 1 <= len(v) <= 15 and all(c.isalnum() or c == "_" or c in "!@#$%^()-'{}.~" for c in v)
    if not dns and not netbios:
        raise Reject("not a hostname")
    return v


def ref_url(fs, x, env):
    v = ref_string(fs, x, env)
    u = v.lstrip("".join(chr(i) for i in range(0x21)))
    for c in "\t\r\n":
        u = u.replace(c, "")
    m = re.match(r"[A-Za-z][A-Za-z0-9+.\-]*:", u)
    if m is None:
        raise Reject("no scheme")
    rest = u[m.end():]
    if rest.startswith("//"):
        auth = re.split(r"[/?#]", rest[2:], maxsplit=1)[0]
        if ("[" in auth) != ("]" in auth):
            raise Reject("unbalanced brackets")
    return v


def ref_filename(fs, x, env):
    v = ref_string(fs, x, env)
    if v == "":
        return v
    startdir = fs.get("startdir")
    if startdir and not v.startswith("/"):
        if not startdir.startswith("/"):
            startdir = env.root + "/" + startdir        # a relative start directory is relative to the cwd
        v = _normpath(startdir + "/" + v)
    kind = env.kind(v)
    ex = fs.get("exists")
    if ex is True and kind is None:
        raise Reject("does not exist")
    if ex is False and kind is not None:
        raise Reject("exists")
    if ex == "dir" and kind != "dir":
        raise Reject("not a directory")
    if ex == "file" and kind != "file":
        raise Reject("not a file")
    return v


def ref_list(fs, x, env):
    if not isinstance(x, (list, tuple)):
        raise Reject("not a list")
    if fs.get("required", False) and len(x) == 0:
        raise Reject("required: empty")
    item = fs.get("field")
    if item is None or item.cls == "AnyField":
        return Same(x)
    return TList([ref_validate(item, i, env) for i in x])


ANY = FS("AnyField")


def ref_dict(fs, x, env):
    if not isinstance(x, dict):
        raise Reject("not a dict")
    if fs.get("required", False) and len(x) == 0:
        raise Reject("required: empty")
    kf, vf = fs.get("key_field"), fs.get("value_field")
    if kf is None and vf is None:
        return Same(x)
    out = {}
    for k, v in x.items():
        nk = ref_validate(kf or ANY, k, env)
        out[nk.x if isinstance(nk, Same) else nk] = ref_validate(vf or ANY, v, env)     # later key wins
    return TDict(out)


def ref_challenge(fs, x, env):
    from cincoconfig.fields.secure_field import DigestValue
    if isinstance(x, DigestValue):
        return x
    if isinstance(x, str):
        return Hashed(fs.get("hash_algorithm", "sha256").lower(), x.encode("utf-8"))
    if isinstance(x, bytes):
        return Hashed(fs.get("hash_algorithm", "sha256").lower(), x)
    raise Reject("not a plaintext/digest")


def ref_secure(fs, x, env):
    # "the plaintext configuration value", storage_type str, to_basic(value: str): a secret is a string
    if not isinstance(x, str):
        raise Reject("not a string")
    return x


def ref_any(fs, x, env):
    return Same(x)


REF = {
    "StringField": ref_string, "LogLevelField": ref_loglevel, "ApplicationModeField": ref_appmode,
    "IntField": ref_number(int), "FloatField": ref_number(float), "PortField": ref_number(int, 1, 65535),
    "BoolField": ref_bool, "FeatureFlagField": ref_bool, "BytesField": ref_bytes,
    "IPv4AddressField": ref_ipv4addr, "IPv4NetworkField": ref_ipv4net, "HostnameField": ref_hostname,
    "UrlField": ref_url, "FilenameField": ref_filename, "ListField": ref_list, "DictField": ref_dict,
    "ChallengeField": ref_challenge, "SecureField": ref_secure, "AnyField": ref_any,
}


# ----------------------------------------------------------------------------------------------------------
# equalities
# ----------------------------------------------------------------------------------------------------------
def deep_eq(a, b):
    """type-strict, NaN-aware structural equality of real results; proxies by content (never via DictProxy.__eq__);
    DigestValue by salt+digest"""
    from cincoconfig.fields.secure_field import DigestValue
    if a is b:
        return True
    if type(a) is not type(b):
        return False
    if isinstance(a, DigestValue):
        return a.salt == b.salt and a.digest == b.digest
    if isinstance(a, float):
        return (a != a and b != b) or (a == b and math.copysign(1, a) == math.copysign(1, b))
    if isinstance(a, dict):
        if len(a) != len(b):
            return False
        for k, v in dict.items(a):
            if not dict.__contains__(b, k) or not deep_eq(v, dict.__getitem__(b, k)):
                return False
            if not any(type(k2) is type(k) and k2 == k for k2 in dict.keys(b)):
                return False
        return True
    if isinstance(a, (list, tuple)):
        return len(a) == len(b) and all(deep_eq(x, y) for x, y in zip(a, b))
    return bool(a == b)


def inv_norm(fs, v):
    """normal form of a stored value for the comparison of the inverse clause.  Property C02 names three allowed
    normalisations of the on-disk round trip, so C05's "equal" is read modulo them: (a) an empty secret '' is the
    same as None; (b) an unset (None) typed list / dict is the same as an empty one, at any nesting depth; (c) a tuple
    stored in an untyped ListField is the same as the list of its items.  Typed containers are compared by content
    (plain list / dict of normalised items)."""
    cls = fs.cls
    if cls == "SecureField":
        return None if isinstance(v, str) and v == "" else v
    if cls == "ListField":
        item = fs.get("field")
        if item is None or item.cls == "AnyField":
            return list(v) if isinstance(v, tuple) else v
        if v is None:
            return []
        if isinstance(v, (list, tuple)):
            return [inv_norm(item, i) for i in v]
        return v
    if cls == "DictField":
        kf, vf = fs.get("key_field"), fs.get("value_field")
        if kf is None and vf is None:
            return v
        if v is None:
            return {}
        if isinstance(v, dict):
            return {inv_norm(kf or ANY, k): inv_norm(vf or ANY, x) for k, x in dict.items(v)}
        return v
    return v


def conforms(norm, r):
    """is the real result r the reference normal form?"""
    from cincoconfig.fields.dict_field import DictProxy
    from cincoconfig.fields.list_field import ListProxy
    from cincoconfig.fields.secure_field import DigestValue
    if isinstance(norm, Hashed):
        if not isinstance(r, DigestValue):
            return False
        h = hashlib.new(norm.alg)
        if len(r.salt) != h.digest_size or r.algorithm is not getattr(hashlib, norm.alg):
            return False
        h.update(r.salt + norm.plaintext)
        return h.digest() == r.digest
    if isinstance(norm, Same):
        # the input unchanged.  (ListField()._validate is documented to return "a list"; a tuple coming back as
        # tuple or as list both pass here: that discrepancy is judged by the inverse clause only.)
        if isinstance(norm.x, tuple) and isinstance(r, list):
            return deep_eq(list(norm.x), r)
        return deep_eq(norm.x, r)
    if isinstance(norm, TList):
        return isinstance(r, ListProxy) and len(r) == len(norm.items) and all(
            conforms(n, i) for n, i in zip(norm.items, r))
    if isinstance(norm, TDict):
        if not isinstance(r, DictProxy) or len(r) != len(norm.pairs):
            return False
        for k, n in norm.pairs.items():
            hit = [k2 for k2 in dict.keys(r) if type(k2) is type(k) and deep_eq(k2, k)]
            if not hit or not conforms(n, dict.__getitem__(r, hit[0])):
                return False
        return True
    if isinstance(norm, DigestValue):
        return isinstance(r, DigestValue) and deep_eq(norm, r) and norm.algorithm is r.algorithm
    return strict_eq(norm, r)


def _fmt(v):
    """repr without run-dependent parts (random salts, AES IVs, object addresses)"""
    from cincoconfig.fields.secure_field import DigestValue
    if isinstance(v, DigestValue):
        return "DigestValue(%d-byte salt, %d-byte digest)" % (len(v.salt), len(v.digest))
    if isinstance(v, BaseException):
        return "%s(%s)" % (type(v).__name__, _fmt(str(v)))
    if isinstance(v, dict):
        if set(v) == {"method", "ciphertext"}:
            return "{'method': %r, 'ciphertext': <...>}" % (v["method"],)
        if set(v) == {"salt", "digest"}:
            return "{'salt': <...>, 'digest': <...>}"
        return "{%s}" % ", ".join("%s: %s" % (_fmt(k), _fmt(x)) for k, x in dict.items(v))
    if isinstance(v, list):
        return "[%s]" % ", ".join(_fmt(x) for x in v)
    if isinstance(v, tuple) and type(v) is tuple:
        return "(%s%s)" % (", ".join(_fmt(x) for x in v), "," if len(v) == 1 else "")
    return re.sub(r" at 0x[0-9a-f]+", "", repr(v))


def show(v, limit=70):
    s = _fmt(v)
    return s if len(s) <= limit else s[:limit - 3] + "..."


# ----------------------------------------------------------------------------------------------------------
# one case: run the real field, evaluate the four clauses
# ----------------------------------------------------------------------------------------------------------
class Bound:
    """a real field attached to a real Schema + its Config"""

    def __init__(self, fs, env):
        from cincoconfig import Schema
        self.fs = fs
        self.field = build(fs)
        schema = Schema()
        schema.f = self.field
        self.cfg = schema()
        self.cfg._key_filename = env.keyfile


def _call(fn, *a):
    try:
        return True, fn(*a)
    except Exception as exc:       # the clause decides what an exception means; driver bugs are not caught here
        return False, exc


def _leaf(fs):
    """first field kind with a non-trivial on-disk form inside a container spec"""
    for name in ("field", "value_field", "key_field"):
        sub = fs.get(name)
        if isinstance(sub, FS):
            if sub.cls in ENCODED_LEAVES:
                return name, sub.cls
            hit = _leaf(sub)
            if hit:
                return name, hit[1]
    return None


def _generic_key(fs, x):
    opts = ",".join(sorted(k for k, v in fs.kw.items() if v is not None and v is not False))
    return "%s(%s):%s" % (fs.cls, opts, type(x).__name__)


def _is_nan_like(x):
    if isinstance(x, float):
        return x != x
    if isinstance(x, str):
        try:
            return float(x) != float(x)
        except ValueError:
            return False
    return False


def witness_key(clause, fs, x, detail=None):
    """stable id of the failing input class"""
    cls, kw = fs.cls, fs.kw
    if clause == "exact":
        if cls == "IPv4NetworkField" and kw.get("max_prefix_len") == 0 and isinstance(x, str):
            return "max_prefix_len=0-ignored"
        if cls in ("FloatField", "IntField", "PortField") and _is_nan_like(x):
            return "nan-passes-bounds"
        if cls == "HostnameField" and isinstance(x, str) and "\n" in x:
            return "trailing-newline"
        if cls == "SecureField" and not isinstance(x, str):
            return "nonstr-accepted"
    elif clause == "reject-valueerror":
        if cls in ("IntField", "PortField") and isinstance(x, float) and x in (float("inf"), float("-inf")):
            return "float-inf-OverflowError"
        return "%s:%s:%s" % (cls, type(x).__name__, detail)
    elif clause == "idempotent":
        if cls in STRING_FAMILY and isinstance(x, str):
            dflt = cls in ("LogLevelField", "ApplicationModeField")
            strip = _opt(fs, "transform_strip", True if dflt else None)
            case = _opt(fs, "transform_case", "lower" if dflt else None)

            def t(v):       # the string-level transforms alone
                if strip is True:
                    v = v.strip()
                elif isinstance(strip, str) and strip:
                    v = v.strip(strip)
                if case:
                    v = v.upper() if case.lower() == "upper" else v.lower()
                return v

            v0 = t(x)
            if t(v0) != v0 and isinstance(strip, str) and case:
                return "strip-chars+case"           # the transforms themselves are not idempotent
            if cls in ("IPv4NetworkField", "IPv4AddressField", "HostnameField"):
                return "canonical-text-revalidated"     # the returned canonical text is judged again as input
            if cls == "FilenameField" and kw.get("startdir"):
                return "abspath-revalidated"            # the returned absolute path is judged again as input
    elif clause == "inverse":
        if cls in ("ListField", "DictField"):
            if x is None:
                return "typed-None"
            leaf = _leaf(fs)
            if leaf:
                return "%s-%s" % ({"field": "items", "value_field": "values", "key_field": "keys"}[leaf[0]], leaf[1])
            if cls == "ListField" and isinstance(x, tuple):
                return "untyped-tuple"
        if cls == "SecureField":
            if isinstance(x, str):
                return "empty-string" if x == "" else "str:" + str(detail)
            if isinstance(x, int) and not isinstance(x, bool):
                return "nonstr-int"
            if isinstance(x, bytes):
                return "nonstr-bytes"
            return "nonstr-other"
    return _generic_key(fs, x)


def check_case(b, x, env):
    """-> list of failures {clause, what, key_detail}; [] when all four clauses hold for (field, x)"""
    fs, field, cfg = b.fs, b.field, b.cfg
    fails = []

    def fail(clause, what, detail=None):
        fails.append({"clause": clause, "what": "%r value %s: %s" % (fs, show(x), what), "detail": detail})

    why = ""
    try:
        norm, exp_ok = ref_validate(fs, x, env), True
    except Reject as rej:
        norm, exp_ok, why = None, False, str(rej)

    ok1, r1 = _call(field.validate, cfg, x)
    # (1) exact
    if exp_ok and not ok1:
        fail("exact", "expected accept, observed %s" % show(r1, 60))
    elif not exp_ok and ok1:
        fail("exact", "expected reject (%s), observed accept -> %s" % (why, show(r1)))
    elif exp_ok and ok1 and not conforms(norm, r1):
        fail("exact", "expected normal form %s, observed %s" % (show(norm), show(r1)))
    if not exp_ok and not ok1 and not isinstance(r1, ValueError):
        fail("reject-valueerror", "expected a ValueError, observed %s" % show(r1, 60), type(r1).__name__)

    # (2) deterministic
    ok2, r2 = _call(field.validate, cfg, x)
    if ok1 != ok2:
        fail("deterministic", "first call %s, second call %s" % (show(r1, 40), show(r2, 40)))
    elif ok1:
        same = conforms(norm, r2) if (exp_ok and has_hashed(norm) and conforms(norm, r1)) else deep_eq(r1, r2)
        if not same and not _fresh_salt(fs, x):
            fail("deterministic", "first result %s, second result %s" % (show(r1, 40), show(r2, 40)))
    elif type(r1) is not type(r2):
        fail("deterministic", "first raised %s, second raised %s" % (type(r1).__name__, type(r2).__name__))

    if ok1:
        # (3) idempotent
        ok3, r3 = _call(field.validate, cfg, r1)
        if not ok3:
            fail("idempotent", "validate(x) = %s, validate of that raised %s" % (show(r1, 40), show(r3, 60)),
                 "rejected")
        elif not deep_eq(r3, r1):
            fail("idempotent", "validate(x) = %s, validate of that = %s" % (show(r1, 40), show(r3, 40)), "changed")
        # (4) inverse, on the accepted/stored value
        okb, basic = _call(field.to_basic, cfg, r1)
        if not okb:
            fail("inverse", "to_basic(%s) raised %s" % (show(r1, 40), show(basic, 60)), "to_basic-raised")
        else:
            okp, back = _call(field.to_python, cfg, basic)
            if not okp:
                fail("inverse", "to_python(to_basic(v)) raised %s for v = %s" % (show(back, 60), show(r1, 40)),
                     "to_python-raised")
            elif not deep_eq(inv_norm(fs, back), inv_norm(fs, r1)):
                fail("inverse", "v = %s, to_python(to_basic(v)) = %s" % (show(r1, 40), show(back, 40)), "differs")
    return fails


def _fresh_salt(fs, x):
    # wrongly-accepted inputs of a hashing field still get a fresh salt each time: never a determinism alarm
    return fs.cls == "ChallengeField" or _leaf(fs) is not None and _leaf(fs)[1] == "ChallengeField"


# ----------------------------------------------------------------------------------------------------------
# option grids (all pairs of options) and value pools
# ----------------------------------------------------------------------------------------------------------
def pair_grid(options, extra=(), order=2):
    """options: [(name, [non-default values])] -> kwargs dicts: defaults, every single option value, every pair
    (order=3: also every triple) of option values of different options; then `extra` hand-picked combinations.
    Simple configs come first so the recorded witness of a violation is the simplest one."""
    import itertools
    out, seen = [], set()

    def add(kw):
        k = repr(sorted(kw.items(), key=lambda kv: kv[0]))
        if k not in seen:
            seen.add(k)
            out.append(kw)

    add({})
    for n, vs in options:
        for v in vs:
            add({n: v})
    for k in range(2, order + 1):
        for combo in itertools.combinations(options, k):
            for vals in itertools.product(*[vs for _, vs in combo]):
                add({n: v for (n, _), v in zip(combo, vals)})
    for kw in extra:
        add(dict(kw))
    return out


def nonstr_pool():
    return [None, True, False, 0, 1, -1, 5, 2 ** 70, 0.0, 1.5, float("nan"), float("inf"), float("-inf"),
            b"", b"abc", [], ["a"], (), ("a",), {}, {"a": 1}, OBJ]


STR_STATIC = ["", " ", "a", "ab", "abc", "abcd", "abcde", "ABC", "AbC", " abc", "abc ", " abc ", "abc\n", "\tab\n",
              "abc\n\n", "xabcx", "Xabc", "xXabcXx", "xabX", "x", "xx", "X", " x ", "b", "bbb", "ab ", "x abc",
              "äbc", "ABCD", "abx", "xabc ", "a c", "cab", "abd"]


def around_lengths(kw, alphabet="abcabcabcabcabcabcabc"):
    """strings around each length bound: len-1, len, len+1; padded with whitespace / newline / strip characters"""
    out = []
    for name in ("min_len", "max_len"):
        n = kw.get(name)
        if n is None:
            continue
        for ln in (n - 1, n, n + 1):
            if ln < 0:
                continue
            s = alphabet[:ln]
            out += [s, " " + s, s + " ", s + "\n", "x" + s + "x", "X" + s, s.upper(), " " * ln]
    return out


def dedupe(values):
    out, seen = [], set()
    for v in values:
        k = (type(v).__name__, repr(v))
        if k not in seen:
            seen.add(k)
            out.append(v)
    return out


def number_pool(kw, dmin=None, dmax=None):
    inf = float("inf")
    out = [None, True, False, 0, 1, -1, 7, 2 ** 70, -0.0, 0.0, 0.5, 3.7, -3.7, 1e308, float("nan"), inf, -inf,
           "nan", "NaN", "inf", "-inf", "", " ", "abc", "1e3", "1_0", "0x10", "+5", " 7 ", "7\n", "٣", "3.0",
           "3.7", "-3", b"5", [], [1], (1,), {}, OBJ, 1 + 0j]
    for b in (kw.get("min", dmin), kw.get("max", dmax)):
        if b is None or b != b or b in (inf, -inf):
            continue
        ib = int(b)
        out += [ib - 1, ib, ib + 1, b - 0.5, float(b), b + 0.5, b - 1e-9, b + 1e-9, str(ib - 1), str(ib), str(ib + 1),
                " %d " % ib, "%d.0" % ib, "%d.5" % ib, repr(float(b))]
    return dedupe(out)


ADDR_POOL = ["0.0.0.0", "10.0.0.1", "1.2.3.4", "255.255.255.255", "256.0.0.1", "1.2.3.999", "1.2.3", "1.2.3.4.5",
             "01.2.3.4", "1.2.3.04", "1.2.3.4 ", " 1.2.3.4", "1.2.3.4\n", "x1.2.3.4x", "1.2.3.4/32", "", " ", "abc",
             "１.2.3.4", "1.2.3.-4", "1..3.4", "1.2.3.4.", "+1.2.3.4", "0x1.2.3.4", "1234.1.1.1", "10.0.0.10",
             "10.0.0.0", "1.1.1.1", "100.100.100.100", "X1.2.3.4", "16909060"]
ADDR_ODD = [16909060, b"\x01\x02\x03\x04"]

NET_POOL = ["0.0.0.0/0", "10.0.0.0/8", "10.0.0.0/7", "10.0.0.0/9", "10.1.0.0/8", "192.168.1.0/24", "192.168.1.0/23",
            "192.168.1.0/25", "192.168.1.1/32", "192.168.1.1", "192.168.1.1/31", "192.168.1.0/31", "0.0.0.0/32",
            "255.255.255.255/32", "128.0.0.0/1", "0.0.0.0/1", "10.0.0.0/255.0.0.0", "10.0.0.0/0.255.255.255",
            "0.0.0.0/0.0.0.0", "10.0.0.0/0.0.0.0", "0.0.0.0/255.255.255.255", "192.168.1.0/255.255.255.0",
            "192.168.1.0/0.0.0.255", "192.168.1.1/255.255.255.255", "10.0.0.0/255.0.255.0", "10.0.0.0/08",
            "10.0.0.0/ 8", "10.0.0.0/+8", "10.0.0.0/33", "10.0.0.0/-1", "10.0.0.0/", "10.0.0.0/8/1", "/8",
            "10.0.0/8", " 10.0.0.0/8", "10.0.0.0/8 ", "10.0.0.0/8\n", "x10.0.0.0/8x", "X10.0.0.0/8",
            "10.0.0.0/٨", "10.0.0.0/8.0", "", " ", "abc", "10.0.0.0/23", "10.0.0.0/24", "10.0.0.0/25",
            "10.0.0.0/31", "10.0.0.0/32", "10.0.0.0", "010.0.0.0/8"]

HOST_POOL = ["localhost", "a", "ab", "a-b.c", "-ab", ".ab", "a.", "a_b", "a_b!", "host", "host\n", "host ", " host",
             "ho st", "HOST", "Host.Example.COM", "1.2.3.4", "1.2.3.4\n", "256.1.1.1", "01.2.3.4", "x" * 15, "x" * 16,
             "a_" * 8, "a_" * 7 + "a", "a_b\n", "", " ", "ä", "äb", "aä", "it's", "a/b", "a:b", "~x~",
             "{x}", "xhostx", "Xhost", "abc", "abcd", "abcde", "a..b", "a\tb", "host\n\n", "\nhost", "a*b", "*"]

URL_POOL = ["http://a", "http://a/", "HTTP://A/Y?q#f", "https://example.com/p?q=1#f", "a:b", "mailto:x@y",
            "x+y-z.1://h", "file:///tmp/x", "http://[::1]/", "http://[::1", "http://::1]", "", " ", "abc", "//host/p",
            "/path", "1http://x", ":x", "ht tp://x", "http//x", "http:", "h:", "+a:b", " http://a", "http://a ",
            "http://a\n", "\nhttp://a", "ht\ntp://a", "/http://a/", "ä:b", "aä:b", "http://a/[", "a:b[c",
            "http://ab", "http://abc", "HTTPS://X"]

BOOL_POOL = (list(TRUE_TOKENS) + list(FALSE_TOKENS) + [t.upper() for t in TRUE_TOKENS + FALSE_TOKENS]
             + ["True", "False", " true", "true ", "true\n", "2", "", " ", "tr", "yess", "none", "١",
                None, True, False, 0, 1, 2, -1, 2 ** 70, 0.0, -0.0, 1.0, 0.5, float("nan"), float("inf"),
                b"true", b"1", [], [True], (), {}, {"a": 1}, OBJ, 1j])

LEVEL_POOL = ["info", " INFO ", "Info", "INFO", "warning", "WARN", "trace", "TRACE ", "debug\n", "xinfox", "Xinfo",
              "critical", "error", "debug", "", " ", "inf", "infos", "in fo", "xx", "x"]
MODE_POOL = ["development", "production", " Production ", "PRODUCTION", "dev", "DEV", "prod", "test_1", "TEST_1\n",
             "xdevx", "Xdev", "", " ", "develop", "a b", "x-y", "A B", "x"]


def file_pool(env):
    r = env.root
    return ["f.txt", "d", "d/", "d/g.txt", "nope", "d/nope", "./f.txt", "d/../f.txt", "../f.txt", "~/x", "F.TXT",
            "f.txt2", "F.TXT2", " f.txt ", "f.txt\n", "xf.txtx", "f.txtx", "/d/", "", " ", "x", ".", "g.txt",
            r + "/f.txt", r + "/d", r + "/d/", r + "/nope", r, r + "/d/../f.txt", r + "/d/g.txt", " " + r + "/d",
            "d/g", "abcde", "abcdef", "abcd", "f.tx"]


def bytes_pool():
    return [b"", b"\x00", b"abc", bytes(range(256)), b"\xff\xfe", b"YWJj", "abc", "", "äö", "YWJj", " a ",
            "a\n", bytearray(b"a"), None, True, 0, 5, 1.5, [], [b"a"], (), {}, OBJ]


def challenge_pool():
    from cincoconfig.fields.secure_field import DigestValue
    md5, sha256 = hashlib.md5, hashlib.sha256
    return ["pw", "", " ", "pw\n", "äö", "p" * 100, b"pw", b"", b"\x00\xff",
            DigestValue(b"s" * 16, hashlib.md5(b"s" * 16 + b"pw").digest(), md5),
            DigestValue(b"t" * 32, hashlib.sha256(b"t" * 32 + b"pw").digest(), sha256),
            DigestValue(b"", b"", md5), (b"s", b"d", md5), [b"s", b"d"], {"salt": "cw==", "digest": "ZA=="},
            None, True, 0, 5, 1.5, [], {}, OBJ, bytearray(b"pw")]


def secure_pool():
    return ["secret", "", " ", "äö€", "a" * 100, "\x00", "line\n", "5", None, 5, 0, -1, True, False,
            1.5, 0.0, b"ab", b"", [], ["a"], (), {}, {"method": "xor", "ciphertext": "AA=="}, OBJ]


def item_specs():
    """item / value fields for the containers, each with a pool of candidate items (accepted and rejected ones;
    items that hit a scalar-level known defect (NaN, inf, non-str secrets, newline hosts) are left to the scalar
    grids so that a container failure means a container defect)"""
    from cincoconfig.fields.secure_field import DigestValue
    dv = DigestValue(b"s" * 16, hashlib.md5(b"s" * 16 + b"pw").digest(), hashlib.md5)
    return [
        (None, [1, "a", None, OBJ, b"x", 1.5, [1]]),
        (FS("AnyField"), [1, "a", None, b"x"]),
        (FS("IntField", min=0, max=5), [0, 5, "3", 2.9, 6, -1, "x", True, None]),
        (FS("StringField", transform_case="upper", transform_strip=True, max_len=3),
         ["ab", " abc ", "ABC", "abcd", "", 5, None]),
        (FS("StringField", required=True, min_len=1), ["a", "", None, " "]),
        (FS("BoolField"), [True, "yes", 0, "maybe", None]),
        (FS("FloatField", min=0.5), [1, 1.5, "2.5", 0.25, "x", None]),
        (FS("IPv4AddressField"), ["1.2.3.4", "1.2.3", None]),
        (FS("BytesField"), [b"", b"\x00\xff", "abc", b"YWJj", 5, None]),
        (FS("BytesField", encoding="hex"), [b"\x00\xff", "abc", b"6162", None]),
        (FS("ChallengeField", hash_algorithm="md5"), ["pw", b"pw", dv, 5, None]),
        (FS("ChallengeField"), ["pw", dv, None]),
        (FS("SecureField", method="xor"), ["s3cret", "äö", None]),
        (FS("SecureField"), ["s3cret", None]),
        (FS("ListField", field=FS("IntField")), [[1, 2], [], (3,), ["x"], 5, None]),
        (FS("ListField", field=FS("BytesField")), [[b"a", "b"], [], None]),
        (FS("DictField", value_field=FS("BytesField")), [{"k": b"v"}, {}, 5, None]),
        (FS("DictField", key_field=FS("StringField", transform_case="lower"), value_field=FS("IntField")),
         [{"K": 1}, {"a": "x"}, {}, None]),
    ]


def key_specs():
    return [
        (None, ["a", 1, None]),
        (FS("StringField", transform_case="lower", min_len=1), ["a", "A", "Ab", "", 5]),
        (FS("IntField"), [1, "1", 2, "x"]),
        (FS("BytesField"), [b"k", "k", 5]),
    ]


NON_CONTAINER = [None, "abc", "", 5, 0, 1.5, True, b"ab", OBJ, {1}]


def list_values(items):
    out = [[], ()]
    out += [[i] for i in items]
    out += [(i,) for i in items[:3]]
    out += [[items[a], items[b]] for a in range(min(3, len(items))) for b in range(len(items)) if a != b]
    out += [list(items), tuple(items), list(items[:2]) * 3]
    out += NON_CONTAINER + [{}, {"a": 1}]
    return dedupe(out)


def dict_values(keys, vals):
    out = [{}]
    for k in keys:
        for v in vals[:4]:
            out.append({k: v})
    for v in vals[4:]:
        out.append({keys[0]: v})
    out.append({k: vals[i % len(vals)] for i, k in enumerate(keys)})        # all keys (collisions after normalising)
    out.append({k: vals[0] for k in keys[:2]})
    out += NON_CONTAINER + [[], [("a", 1)], [["a", 1]], (("a", 1),)]
    return dedupe(out)


S_OPTS = [("min_len", [0, 2, 3]), ("max_len", [0, 3, 4]), ("regex", ["^[a-c]+$", "b"]),
          ("choices", [["abc", "ABC", "ab", "x abc"]]), ("transform_case", ["upper", "lower"]),
          ("transform_strip", [True, False, "x", "xX "]), ("required", [True])]
S_EXTRA = [dict(transform_strip=s, transform_case=c, **o)
           for s in (True, "x") for c in ("upper", "lower")
           for o in ({"min_len": 3}, {"max_len": 3}, {"max_len": 4, "min_len": 4}, {"regex": "^[a-c]+$"},
                     {"choices": ["abc", "ABC", "ab"]}, {"required": True}, {"min_len": 0, "max_len": 0})]


def plans(env, tier):
    """-> list of (class name, [kwargs dict], pool function kwargs -> [values]); the same enumerated plan for both
    tiers (thorough adds sampling on top)"""
    root = env.root
    nonstr = nonstr_pool()
    inf = float("inf")

    def spool(static, odd=()):
        return lambda kw: dedupe(static + around_lengths(kw) + nonstr + list(odd))

    out = [
        ("StringField", pair_grid(S_OPTS, S_EXTRA, order=3), spool(STR_STATIC)),
        ("LogLevelField", pair_grid([("levels", [["trace", "info"]]), ("transform_case", [None, "upper", "lower"]),
                                     ("transform_strip", [None, True, "x"]), ("required", [True]),
                                     ("min_len", [5]), ("max_len", [4])], order=3), spool(LEVEL_POOL)),
        ("ApplicationModeField", pair_grid([("modes", [["dev", "prod", "test_1"]]), ("create_helpers", [False]),
                                            ("transform_case", [None, "upper"]), ("transform_strip", [None, "x"]),
                                            ("required", [True]), ("max_len", [3])],
                                           [dict(modes=["a b", "x-y"], create_helpers=False)], order=3),
         spool(MODE_POOL)),
        ("IntField", pair_grid([("min", [0, -5, 10, 2.5]), ("max", [0, -5, 10, 7.5]), ("required", [True])], order=3),
         number_pool),
        ("FloatField", pair_grid([("min", [0, -5, 10, 0.5, -inf]), ("max", [0, -5, 10, 0.5, inf]),
                                  ("required", [True])], order=3), number_pool),
        ("PortField", pair_grid([("min", [None, 0, 1024]), ("max", [None, 1024, 70000]), ("required", [True])],
                                order=3),
         lambda kw: number_pool(kw, 1, 65535)),
        ("BoolField", pair_grid([("required", [True])]), lambda kw: BOOL_POOL),
        ("FeatureFlagField", pair_grid([("required", [True])]), lambda kw: BOOL_POOL),
        ("BytesField", pair_grid([("encoding", ["base64", "hex"]), ("required", [True])]), lambda kw: bytes_pool()),
        ("IPv4AddressField", pair_grid([("min_len", [0, 8]), ("max_len", [0, 7, 8]), ("regex", ["^10\\.", "0$"]),
                                        ("choices", [["10.0.0.1", "1.2.3.4"]]), ("transform_case", ["upper"]),
                                        ("transform_strip", [True, "x"]), ("required", [True])]),
         spool(ADDR_POOL, ADDR_ODD)),
        ("IPv4NetworkField", pair_grid([("min_prefix_len", [0, 8, 24, 32]), ("max_prefix_len", [0, 8, 24, 32]),
                                        ("min_len", [11]), ("max_len", [10, 0]),
                                        ("regex", ["/8$", "^10\\.0\\.0\\.0/255"]),
                                        ("choices", [["10.0.0.0/255.0.0.0", "10.0.0.0/8", "192.168.1.1"]]),
                                        ("transform_strip", [True, "x"]), ("transform_case", ["lower"]),
                                        ("required", [True])], order=3), spool(NET_POOL, ADDR_ODD)),
        ("HostnameField", pair_grid([("allow_ipv4", [False, True]), ("min_len", [0, 4]), ("max_len", [0, 4, 15]),
                                     ("regex", ["^[a-z.]+$"]), ("choices", [["host", "1.2.3.4", "host\n"]]),
                                     ("transform_case", ["upper", "lower"]), ("transform_strip", [True, "x"]),
                                     ("required", [True])], [dict(resolve=False)], order=3), spool(HOST_POOL)),
        ("UrlField", pair_grid([("min_len", [0, 8]), ("max_len", [0, 8]), ("regex", ["^https?://"]),
                                ("choices", [["http://a", "HTTP://A"]]), ("transform_case", ["upper", "lower"]),
                                ("transform_strip", [True, "/"]), ("required", [True])]), spool(URL_POOL)),
        ("FilenameField", pair_grid([("exists", [True, False, "file", "dir"]),
                                     ("startdir", [root, root + "/d", root + "/missing", "d"]),
                                     ("min_len", [0, 5]), ("max_len", [0, 5, 6]), ("regex", ["^[a-z./]+$"]),
                                     ("choices", [["f.txt", "d"]]), ("transform_case", ["upper", "lower"]),
                                     ("transform_strip", [True, "x/"]), ("required", [True])], order=3),
         lambda kw: dedupe(file_pool(env) + nonstr)),
        ("ChallengeField", pair_grid([("hash_algorithm", ["md5", "sha1", "sha224", "sha256", "sha384", "sha512",
                                                          "SHA256"]), ("required", [True])]),
         lambda kw: challenge_pool()),
        ("SecureField", pair_grid([("method", ["best", "aes", "xor"]), ("required", [True]), ("sensitive", [False])]),
         lambda kw: secure_pool()),
    ]
    # containers
    lgrid, lpool = [], {}
    for req in (False, True):
        for item, items in item_specs():
            kw = {} if item is None else {"field": item}
            if req:
                kw["required"] = True
            lgrid.append(kw)
            lpool[repr(kw)] = list_values(items)
    out.append(("ListField", lgrid, lambda kw: lpool[repr(kw)]))
    dgrid, dpool = [], {}
    for req in (False, True):
        for kf, keys in key_specs():
            for vf, vals in item_specs():
                kw = {}
                if kf is not None:
                    kw["key_field"] = kf
                if vf is not None:
                    kw["value_field"] = vf
                if req:
                    kw["required"] = True
                dgrid.append(kw)
                dpool[repr(kw)] = dict_values(keys, vals)
    out.append(("DictField", dgrid, lambda kw: dpool[repr(kw)]))
    return out


# ----------------------------------------------------------------------------------------------------------
# driver
# ----------------------------------------------------------------------------------------------------------
CLAUSE_TEXT = {
    "exact": "validate(x) returns iff the declared constraints accept x, and returns the reference normal form",
    "reject-valueerror": "a rejected value raises a ValueError (any subclass)",
    "deterministic": "validating the same value twice gives the same outcome",
    "idempotent": "validate(validate(x)) is accepted and equals validate(x)",
    "inverse": "to_python(to_basic(v)) equals v for every accepted/stored v",
}


SAMPLED = ("StringField", "FloatField", "IPv4NetworkField", "HostnameField", "FilenameField", "ChallengeField",
           "ListField", "DictField")


class _Cwd:
    def __init__(self, path):
        self.path = path

    def __enter__(self):
        self.old = os.getcwd()
        os.chdir(self.path)

    def __exit__(self, *exc):
        os.chdir(self.old)
        return False


def _run_cases(rec, env, cls, kw, values, counts):
    fs = FS(cls, **kw)
    b = Bound(fs, env)
    fs_json = json.dumps(enc(fs, env.tmp), sort_keys=True, ensure_ascii=True)
    fs_id = hashlib.sha1(fs_json.encode()).hexdigest()[:12]
    for x in values:
        xj = enc(x, env.tmp)
        fails = check_case(b, x, env)
        key = (cls, fs_id, hashlib.sha1(json.dumps(xj, sort_keys=True).encode()).hexdigest()[:12])
        sample = None
        if counts.get(cls, 0) == 40 and cls in SAMPLED:
            sample = {"field": repr(fs).replace(env.tmp, TMP), "value": show(x).replace(env.tmp, TMP),
                      "failed_clauses": sorted(set(f["clause"] for f in fails))}
        counts[cls] = counts.get(cls, 0) + 1
        rec.case(key=key, nontrivial=True, sample=sample)
        for f in fails:
            rec.violation(obligation=obligation(cls, f["clause"]),
                          what=f["what"].replace(env.tmp, TMP),
                          replay={"pid": PID, "clause": f["clause"], "field": json.loads(fs_json), "value": xj},
                          witness_key=witness_key(f["clause"], fs, x, f["detail"]))


def _rand_str(rng, alphabet, maxlen=7):
    return "".join(rng.choice(alphabet) for _ in range(rng.randint(0, maxlen)))


def _random_values(rng, cls, n):
    """seeded extra values for the thorough tier"""
    out = []
    for _ in range(n):
        t = rng.random()
        if cls in ("IntField", "FloatField", "PortField"):
            out.append(rng.choice([rng.randint(-12, 12), rng.randint(-12, 12) + rng.choice([0.0, 0.5, -0.5, 1e-9]),
                                   str(rng.randint(-12, 70000)), " %d" % rng.randint(0, 70000),
                                   "%d.%d" % (rng.randint(-12, 12), rng.randint(0, 9)), rng.randint(1020, 1030),
                                   rng.randint(65530, 70010), _rand_str(rng, "0123456789.-+e_ n")]))
        elif cls in ("IPv4AddressField", "IPv4NetworkField", "HostnameField"):
            octs = [rng.choice([0, 1, 10, 128, 192, 254, 255, 256, rng.randint(0, 300)]) for _ in range(4)]
            if t < 0.5:
                plen = rng.randint(0, 33)
                if rng.random() < 0.6:     # clear the host bits
                    n32 = ((octs[0] & 255) << 24 | (octs[1] & 255) << 16 | (octs[2] & 255) << 8 | (octs[3] & 255))
                    n32 &= (0xFFFFFFFF << (32 - min(plen, 32))) & 0xFFFFFFFF
                    octs = [(n32 >> s) & 255 for s in (24, 16, 8, 0)]
                s = ".".join(map(str, octs))
                form = rng.randint(0, 3)
                p = min(plen, 32)
                mask = (0xFFFFFFFF << (32 - p)) & 0xFFFFFFFF
                if form == 0:
                    s += "/%d" % plen
                elif form == 1:
                    s += "/" + fmt_ipv4(mask)
                elif form == 2:
                    s += "/" + fmt_ipv4(mask ^ 0xFFFFFFFF)
                out.append(rng.choice(["", " ", "x"]) + s + rng.choice(["", "", " ", "\n", "x"]))
            else:
                out.append(_rand_str(rng, "abAB01.-_ \nx!", 17))
        elif cls == "UrlField":
            out.append(_rand_str(rng, "htp:/[]a1+ \n?#.", 12))
        elif cls == "FilenameField":
            # stays inside what Env.kind models: relative, inside the sandbox, no '..'/'.' below a non-directory
            leaf = rng.choice(["f.txt", "g.txt", "nope", "F.TXT2", "f.txt2", "d", "x", "F.txt", "G.TXT", ""])
            s = rng.choice(["", "", "./", "d/", "./d/", "d/./", "nope/"]) + leaf
            out.append(rng.choice(["", "", " ", "x", "\n"]) + s + rng.choice(["", "", " ", "x", "\n", "x/"]))
        elif cls in ("BoolField", "FeatureFlagField"):
            out.append(rng.choice([_rand_str(rng, "tTrueFfalsyYnNo01 ", 5), rng.randint(-3, 3), rng.random() - 0.5]))
        elif cls in ("BytesField", "ChallengeField", "SecureField"):
            s = _rand_str(rng, "abc \n\x00äß€", 9)
            out.append(s if t < 0.6 or cls == "SecureField" else s.encode("utf-8") + bytes([rng.randint(0, 255)]))
        else:
            out.append(_rand_str(rng, "abcxXABC \n\t", 7))
    return out


def _thorough(rec, env, plan, counts):
    """seeded sampling of the FULL option product (any number of options at once) with pool + random values, until
    the budget is used"""
    rng = rec.rng
    options = {}
    for cls, grid, pool in plan:
        opts = {}
        for kw in grid:
            for k, v in kw.items():
                if not any(repr(v) == repr(w) for w in opts.setdefault(k, [])):
                    opts[k].append(v)
        options[cls] = opts
    scalar = [(cls, grid, pool) for cls, grid, pool in plan if cls not in ("ListField", "DictField")]
    rounds = 0
    while not rec.out_of_time():
        for cls, grid, pool in scalar:
            if rec.out_of_time():
                break
            kw = {}
            for name, vals in options[cls].items():
                if rng.random() < 0.45:
                    kw[name] = rng.choice(vals)
            if cls == "ApplicationModeField" and any(not re.fullmatch("[a-zA-Z0-9_]+", m) for m in kw.get("modes") or []):
                kw["create_helpers"] = False        # documented: helper names must be identifiers (TypeError otherwise)
            values = pool(kw)
            values = rng.sample(values, min(len(values), 25)) + _random_values(rng, cls, 25)
            _run_cases(rec, env, cls, kw, values, counts)
        # containers: the enumerated item specs with shuffled / longer containers of pool items
        for cls, grid, pool in plan:
            if cls not in ("ListField", "DictField") or rec.out_of_time():
                continue
            kw = rng.choice(grid)
            base = [v for v in pool(kw) if isinstance(v, (list, tuple, dict)) and len(v) > 0]
            values = []
            for _ in range(10):
                if cls == "ListField":
                    items = [i for v in rng.sample(base, min(3, len(base))) for i in v]
                    rng.shuffle(items)
                    values.append(items if rng.random() < 0.7 else tuple(items))
                else:
                    d = {}
                    for v in rng.sample(base, min(3, len(base))):
                        if isinstance(v, dict):
                            d.update(v)
                    values.append(d)
            _run_cases(rec, env, cls, kw, values, counts)
        rounds += 1
    return rounds


def rac(tier: str, seed: int) -> dict:
    """tier: 'quick' | 'thorough'.  Deterministic given seed (quick does not use the seed at all)."""
    rec = Recorder(
        PID,
        rule="one case = (built-in field class, constructor kwargs, candidate value): the real validate/to_basic/"
             "to_python of the field (attached to a real Schema, cfg = its Config with a sandbox key file) is run and the "
             "clauses exact / reject-valueerror / deterministic / idempotent / inverse are evaluated against an independent "
             "reference; kwargs = defaults, every single option value and every PAIR of option values (plus hand-picked "
             "strip x case x constraint triples); distinct = distinct (class, kwargs, value)",
        bound="18 field classes; options None/boundary/interior (lengths 0,2,3,4 / bounds 0,-5,10,2.5,+-inf / prefix 0,8,"
              "24,32 / exists None,True,False,file,dir x 4 startdirs / 2 encodings / 6(+1) hash algorithms / 3 methods / "
              "18 item x 4 key fields incl. Bytes/Challenge/Secure and nested containers); value pools: every Python type, "
              "strings of length bound-1..bound+1 with whitespace/newline/strip-char/case variants, numbers at bounds +-1, "
              "+-0.5, +-1e-9, numeric strings, NaN/+-inf, addresses with prefix 0..32, netmask/hostmask forms, host bits; "
              "containers of width <= 9, depth <= 2; thorough adds seeded sampling of the full option product and random "
              "values until ~200 s",
        tier=tier, seed=seed, budget_s=(25 if tier == "quick" else 200))
    with sandbox() as tmp:
        env = Env(tmp)
        env.create()
        with _Cwd(env.root):
            plan = plans(env, tier)
            counts = {}
            for cls, grid, pool in plan:
                for kw in grid:
                    _run_cases(rec, env, cls, kw, pool(kw), counts)
            missing = [c for c in ALL_CLASSES if not counts.get(c)]
            assert not missing, "classes without cases: %s" % missing
            if tier != "quick":
                _thorough(rec, env, plan, counts)
    res = rec.result(exhaustive=False)
    res["cases_per_class"] = counts
    return res


def replay(case: dict) -> dict:
    """re-execute one replay dict against the current /repo"""
    with sandbox() as tmp:
        env = Env(tmp)
        env.create()
        with _Cwd(env.root):
            fs = dec(case["field"], tmp)
            x = dec(case["value"], tmp)
            fails = [f for f in check_case(Bound(fs, env), x, env) if f["clause"] == case["clause"]]
            observed = fails[0]["what"].replace(tmp, TMP) if fails else "clause holds"
    return {"fails": bool(fails), "expected": CLAUSE_TEXT[case["clause"]], "observed": observed}
