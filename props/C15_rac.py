"""C15 bounded run-time contract driver: every rejection of a value for a declared persistent field is a
cincoconfig.ValidationError (a ValueError) whose ref_path / text name the full dotted path from the ROOT
configuration ('[index]' for configurations in lists, '[key]' for dict entries).

Scope (see RAC_API.md): declared persistent fields only; undeclared keys (AttributeError) and read-only
virtual / instance-method fields (TypeError) are by design and never exercised here.
"""
import re

from pyvc.raclib import Recorder, sandbox

PID = "C15"
FORMATS = ("json", "pickle", "xml", "yaml", "bson")
LEAF = "f"

# ------------------------------------------------------------------------------------------------ positions
# a position = chain of containers from the root to the configuration that owns the leaf field `f`
#   ("schema", key) nested schema | ("ctype", key) config type (make_type) | ("list", key, idx) list of plain
#   schemas, item idx | ("tlist", key, idx) list of config types, item idx
def _posname(pos, root_ctype=False):
    if not pos:
        return "root(ctype)" if root_ctype else "root"
    return "/".join(s[0] if s[0] in ("schema", "ctype") else "%s#%d" % (s[0], s[2]) for s in pos)


_CHAINS = [
    [],
    [("schema", "a")],
    [("schema", "a"), ("schema", "b")],
    [("ctype", "t")],
    [("ctype", "t"), ("schema", "a")],
    [("schema", "a"), ("ctype", "t")],
    [("list", "items", 0)],
    [("list", "items", 1)],
    [("list", "items", 1), ("schema", "a")],
    [("schema", "a"), ("list", "items", 1)],
    [("tlist", "titems", 0)],
    [("tlist", "titems", 1)],
    [("tlist", "titems", 1), ("schema", "a")],
    [("list", "items", 1), ("ctype", "t")],
    [("list", "items", 1), ("list", "inner", 1)],
]
POSITIONS = [(_posname(c), c) for c in _CHAINS]
POSITIONS.insert(1, ("root(ctype)", []))  # the root configuration itself is a ConfigType instance
EQUAL_ITEM_POSITIONS = ("list#1", "tlist#1", "schema/list#1", "list#1/list#1")
GENERIC_POSITIONS_QUICK = ("root", "schema/schema", "list#1")


def _boom(cfg, value):
    if value == 13:
        raise KeyError("boom")
    return value


def _leaf_table():
    import cincoconfig as cc
    nofile = "/nonexistent-rac-c15/missing.json"
    # kind -> (factory, canonical rejected value name)
    return {
        "str": (lambda: cc.StringField(max_len=3, default="ab"), "long-str"),
        "int": (lambda: cc.IntField(min=0, max=10, default=1), "str"),
        "float": (lambda: cc.FloatField(min=0.0, max=1.0, default=0.5), "str"),
        "port": (lambda: cc.PortField(default=80), "zero"),
        "ipv4": (lambda: cc.IPv4AddressField(default="127.0.0.1"), "str"),
        "net": (lambda: cc.IPv4NetworkField(default="10.0.0.0/8"), "str"),
        "file": (lambda: cc.FilenameField(exists=True), "nofile"),
        "bool": (lambda: cc.BoolField(default=False), "str"),
        "flag": (lambda: cc.FeatureFlagField(default=True), "str"),
        "url": (lambda: cc.UrlField(default="http://a"), "str"),
        "host": (lambda: cc.HostnameField(default="localhost"), "str"),
        "mode": (lambda: cc.ApplicationModeField(default="production"), "str"),
        "level": (lambda: cc.LogLevelField(default="info"), "str"),
        "challenge": (lambda: cc.ChallengeField(), "int"),
        "secure": (lambda: cc.SecureField(), "int"),
        "bytes": (lambda: cc.BytesField(), "int"),
        "any-required": (lambda: cc.AnyField(required=True, default=1), "none"),
        "str-required": (lambda: cc.StringField(required=True, default="v"), "none"),
        "list": (lambda: cc.ListField(default=list), "str"),
        "list-int": (lambda: cc.ListField(cc.IntField(), default=list), "bad-int-list"),
        "dict": (lambda: cc.DictField(default=dict), "int"),
        "dict-str-int": (lambda: cc.DictField(cc.StringField(), cc.IntField(), default=dict), "bad-int-dict"),
        "named-int": (lambda: cc.IntField(name="Friendly Name", default=1), "str"),
        "named-dict": (lambda: cc.DictField(cc.StringField(), cc.IntField(), name="Friendly Map", default=dict),
                       "bad-int-dict"),
        "custom-validator": (lambda: cc.IntField(default=1, validator=_boom), "thirteen"),
        "include": (lambda: cc.IncludeField(), "nofile"),
    }, nofile


TYPED_DICT = ("dict-str-int", "named-dict")
TYPED_LIST = ("list-int",)


def _values():
    return {
        "none": None, "true": True, "false": False, "zero": 0, "neg": -1, "int": 7, "thirteen": 13,
        "big": 2 ** 70, "float": 1.5, "nan": float("nan"), "inf": float("inf"), "empty-str": "",
        "str": "zz top", "long-str": "toolong", "numstr": "12", "bytes": b"\xff\x00", "empty-list": [],
        "list": [1, "a"], "nested-list": [[1], [2]], "list-of-dict": [{"a": 1}], "empty-dict": {},
        "dict": {"a": 1}, "nested-dict": {"a": {"b": [1]}}, "intkey-dict": {1: 2}, "tuple": (1, 2),
        "set": {1}, "object": object(), "complex": 1j, "type": int,
        "nofile": "/nonexistent-rac-c15/missing.json",
        "bad-int-list": [1, "x"], "bad-int-dict": {"g": 1, "k": "x"},
    }


GENERIC_POOL = ["none", "true", "false", "zero", "neg", "int", "big", "float", "nan", "inf", "empty-str", "str",
                "numstr", "bytes", "empty-list", "list", "nested-list", "list-of-dict", "empty-dict", "dict",
                "nested-dict", "intkey-dict", "tuple", "set", "object", "complex", "type"]
SHAPES = ["str", "int", "list", "true", "none", "float", "bytes"]


# ------------------------------------------------------------------------------------------------ schema building
def _build(pos, leaf_kind, root_ctype=False):
    """-> root factory (Schema, or ConfigType class when root_ctype).  leaf `f` of kind leaf_kind sits at `pos`;
    every configuration on the way also has `ok = IntField(default=0)` (declared first)."""
    import cincoconfig as cc
    leaves, _ = _leaf_table()
    leaves = dict(leaves)
    leaves.update(_dict_key_leaf_table())

    def level(i):
        sch = cc.Schema()
        sch.ok = cc.IntField(default=0)
        if i == len(pos):
            if leaf_kind is not None:
                setattr(sch, LEAF, leaves[leaf_kind][0]())
            return sch
        seg = pos[i]
        sub = level(i + 1)
        if seg[0] == "schema":
            setattr(sch, seg[1], sub)
        elif seg[0] == "ctype":
            setattr(sch, seg[1], cc.make_type(sub, "T%d" % i))
        elif seg[0] == "list":
            setattr(sch, seg[1], cc.ListField(sub, default=list))
        elif seg[0] == "tlist":
            setattr(sch, seg[1], cc.ListField(cc.make_type(sub, "L%d" % i), default=list))
        return sch

    root = level(0)
    if root_ctype:
        return cc.make_type(root, "Root")
    return root


def _path(pos, upto=None, leaf=True):
    parts = []
    for seg in (pos if upto is None else pos[:upto]):
        parts.append(seg[1] if seg[0] in ("schema", "ctype") else "%s[%d]" % (seg[1], seg[2]))
    if leaf:
        parts.append(LEAF)
    return ".".join(parts)


def _tree(pos, inner, equal_items=False):
    """tree that reaches `pos` with `inner` (a dict) as the tree of the innermost configuration; list items before
    the addressed one are {'ok': j+1} (distinct), the addressed one gets 'ok' first"""
    cur = inner
    for seg in reversed(pos):
        if seg[0] in ("schema", "ctype"):
            cur = {"ok": 9, seg[1]: cur}
        else:
            idx = seg[2]
            if equal_items:
                items = [{} for _ in range(idx)] + [dict(cur)]
            else:
                item = {"ok": idx + 1}
                item.update(cur)
                items = [{"ok": j + 1} for j in range(idx)] + [item]
            cur = {seg[1]: items}
    return cur


def _prepare_lists(cfg, pos, equal_items=False):
    """assignment routes: give every list on the way idx+1 items, return the configuration owning the leaf"""
    cur = cfg
    for seg in pos:
        if seg[0] in ("schema", "ctype"):
            cur = getattr(cur, seg[1])
        else:
            n = seg[2] + 1
            setattr(cur, seg[1], [({} if equal_items else {"ok": j + 1}) for j in range(n)])
            cur = getattr(cur, seg[1])[seg[2]]
    return cur


def _navigate(cfg, pos):
    cur = cfg
    for seg in pos:
        cur = getattr(cur, seg[1])
        if seg[0] in ("list", "tlist"):
            cur = cur[seg[2]]
    return cur


def _dotted_set(cfg, pos, key, value):
    cur, parts = cfg, []
    for seg in pos:
        parts.append(seg[1])
        if seg[0] in ("list", "tlist"):
            cur = cur[".".join(parts)][seg[2]]
            parts = []
    cur[".".join(parts + [key])] = value


def _encode(fmt, tree):
    """document in format fmt carrying `tree`, or None when the format cannot carry the value"""
    import cincoconfig as cc
    try:
        doc = cc.ConfigFormat.get(fmt).dumps(None, tree)
        back = cc.ConfigFormat.get(fmt).loads(None, doc)
        if not isinstance(back, dict):
            return None
        return doc
    except Exception:
        return None


# ------------------------------------------------------------------------------------------------ one case
# ------------------------------------------------------------------------------------------------ unusual dict keys
def _dict_key_leaf_table():
    """typed dicts by key field: kind -> (factory, "")"""
    import cincoconfig as cc
    return {
        "dict-any-int": (lambda: cc.DictField(cc.AnyField(), cc.IntField(), default=dict), ""),
        "dict-nokey-int": (lambda: cc.DictField(value_field=cc.IntField(), default=dict), ""),
        "dict-intkey-int": (lambda: cc.DictField(cc.IntField(), cc.IntField(), default=dict), ""),
        "dict-floatkey-int": (lambda: cc.DictField(cc.FloatField(), cc.IntField(), default=dict), ""),
        "dict-boolkey-int": (lambda: cc.DictField(cc.BoolField(), cc.IntField(), default=dict), ""),
        "dict-byteskey-int": (lambda: cc.DictField(cc.BytesField(), cc.IntField(), default=dict), ""),
        "dict-strkey-int": (lambda: cc.DictField(cc.StringField(), cc.IntField(), default=dict), ""),
    }


DICT_KEYS = {"tuple": (0, 1), "tuple1": ("a",), "tuple0": (), "int": 7, "neg-int": -3, "float": 1.5, "bool": True,
             "none": None, "bytes": b"k", "str-%s": "a%sb", "str-%": "100%", "str-]": "a]b", "str-.": "a.b",
             "str-[": "a[b", "str-empty": ""}
_STR_KEYS = {"str-%s", "str-%", "str-]", "str-.", "str-[", "str-empty"}
# keys each key field accepts (from the field classes' documentation; only used to label a case as value- or
# key-rejected and to decide which of the two modes is worth running; the expected path does not depend on it)
DICT_KEY_ACCEPTS = {
    "dict-any-int": set(DICT_KEYS), "dict-nokey-int": set(DICT_KEYS),
    "dict-intkey-int": {"int", "neg-int", "float", "none"},
    "dict-floatkey-int": {"int", "neg-int", "float", "none"},
    "dict-boolkey-int": {"int", "neg-int", "float", "bool", "none"},
    "dict-byteskey-int": _STR_KEYS | {"bytes", "none"},
    "dict-strkey-int": _STR_KEYS | {"none"},
}
DICT_ROUTES = ("setattr", "dotted", "ctor", "load_tree", "item", "update", "update-pairs", "ior", "setdefault")
DICT_POSITIONS = [[], [("schema", "a")], [("schema", "a"), ("schema", "b")]]


def _blank_out(expected):
    return {"expected_paths": expected, "exc_type": None, "is_validation_error": None, "ref_path": None, "text": None}


def _observe(out, run):
    """run the operation under test, record the rejection (if any) in out"""
    import cincoconfig as cc
    try:
        r = run()
    except Exception as exc:  # the observation under test
        out["status"] = "rejected"
        out["exc_type"] = type(exc).__name__
        out["is_validation_error"] = isinstance(exc, cc.ValidationError) and isinstance(exc, ValueError)
        if out["is_validation_error"]:
            try:
                out["ref_path"] = exc.ref_path
            except Exception as exc2:
                out["ref_path"] = "<ref_path raised %s>" % type(exc2).__name__
            try:
                out["text"] = str(exc)
            except Exception as exc2:
                out["text"] = "<str raised %s>" % type(exc2).__name__
        else:
            out["text"] = str(exc)[:200]
        return out
    out["status"] = "skipped" if r == "skipped" else "accepted"
    return out


def _execute_dict_key(spec):
    """spec: kind 'dict-key', pos, leaf (dict kind), key (name in DICT_KEYS), mode 'value-rejected' (bad value under the
    key) | 'key-rejected' (good value, key the key field refuses), route in DICT_ROUTES"""
    pos = [tuple(x) for x in spec["pos"]]
    key = DICT_KEYS[spec["key"]]
    value = "x" if spec["mode"] == "value-rejected" else 1
    route = spec["route"]
    root = _build(pos, spec["leaf"])
    # the path text of the unchanged library, "%s[%s]" % (path, key): the key rendered with str()
    expected = [_path(pos) + "[" + str(key) + "]"]
    entry = {key: value}

    def run():
        if route in ("ctor", "load_tree"):
            tree = _tree(pos, {LEAF: entry})
            if route == "ctor":
                root(**tree)
            else:
                root().load_tree(tree)
            return
        try:
            cfg = root()
            owner = _navigate(cfg, pos)
            proxy = getattr(owner, LEAF)
        except Exception:
            return "skipped"
        if route == "setattr":
            setattr(owner, LEAF, entry)
        elif route == "dotted":
            _dotted_set(cfg, pos, LEAF, entry)
        elif route == "item":
            proxy[key] = value
        elif route == "update":
            proxy.update(entry)
        elif route == "update-pairs":
            proxy.update([(key, value)])
        elif route == "ior":
            proxy |= entry
        elif route == "setdefault":
            proxy.setdefault(key, value)
        else:
            raise ValueError(route)

    return _observe(_blank_out(expected), run)


# ------------------------------------------------------------------------------------------------ list item positions
LIST_HISTORIES = {
    "none": [],
    "insert-front": [["insert", 0]],
    "insert-middle": [["insert", 1]],
    "append": [["append"]],
    "pop-front": [["pop", 0]],
    "pop-middle": [["pop", 1]],
    "pop-last": [["pop", -1]],
    "del-front": [["del", 0]],
    "insert-front-pop-last": [["insert", 0], ["pop", -1]],
    "pop-front-insert-middle-append": [["pop", 0], ["insert", 1], ["append"]],
    "insert-front-twice-pop-middle": [["insert", 0], ["insert", 0], ["pop", 2]],
    "reverse": [["reverse"]],
    "pop-all-but-one": [["pop", 0], ["pop", 0]],
}
LIST_POSITIONS = [
    ("list", [("list", "items", 0)]),
    ("schema/list", [("schema", "a"), ("list", "items", 0)]),
    ("tlist", [("tlist", "titems", 0)]),
    ("list/schema", [("list", "items", 0), ("schema", "a")]),
    ("tlist/schema", [("tlist", "titems", 0), ("schema", "a")]),
]
LIST_ROUTES = ("attr", "dotted", "load_tree")


def _execute_list_index(spec):
    """spec: kind 'list-index', pos (exactly one list segment), history, target 'first'|'middle'|'last', route,
    equal_items.  Three items, then the history of insert/pop/... on the list proxy, then a rejected value for the int
    leaf of the item that is NOW at the target index"""
    pos = [tuple(x) for x in spec["pos"]]
    li = [i for i, seg in enumerate(pos) if seg[0] in ("list", "tlist")][0]
    equal = bool(spec.get("equal_items"))
    root = _build(pos, "int")
    state = {}

    def prepare():
        cfg = root()
        owner = _navigate(cfg, pos[:li])
        setattr(owner, pos[li][1], [({} if equal else {"ok": j + 1}) for j in range(3)])
        lst = getattr(owner, pos[li][1])
        if spec.get("probe_before"):  # every item is rejected (and its path looked at) once before the history
            for item in list(lst):
                try:
                    setattr(_navigate(item, pos[li + 1:]), LEAF, "zz top")
                except Exception as exc:
                    getattr(exc, "ref_path", None)
        n = 10
        for op in LIST_HISTORIES[spec["history"]]:
            n += 1
            new = {} if equal else {"ok": n}
            if op[0] == "insert":
                lst.insert(op[1], new)
            elif op[0] == "append":
                lst.append(new)
            elif op[0] == "pop":
                lst.pop(op[1])
            elif op[0] == "del":
                del lst[op[1]]
            elif op[0] == "reverse":
                lst.reverse()
        idx = {"first": 0, "middle": len(lst) // 2, "last": len(lst) - 1}[spec["target"]]
        state["idx"] = idx
        state["item"] = lst[idx]
        state["cfg"] = cfg

    try:
        prepare()
    except Exception:
        out = _blank_out([])
        out["status"] = "skipped"
        return out
    idx = state["idx"]
    rest = pos[li + 1:]
    prefix = _path(pos[:li], leaf=False)
    parts = [p for p in [prefix] if p] + ["%s[%d]" % (pos[li][1], idx)] + [seg[1] for seg in rest] + [LEAF]
    expected = [".".join(parts)]

    def run():
        item = state["item"]
        route = spec["route"]
        if route == "attr":
            setattr(_navigate(item, rest), LEAF, "zz top")
        elif route == "dotted":
            item[".".join([seg[1] for seg in rest] + [LEAF])] = "zz top"
        elif route == "load_tree":
            item.load_tree(_tree(rest, {LEAF: "zz top"}))
        else:
            raise ValueError(route)

    return _observe(_blank_out(expected), run)


# ------------------------------------------------------------------------------------------------ ready-made items
OBJECT_FAILURES = {"required-unset": ".url", "validator-fails": "", "required-unset-deep": ".deep.inner.token"}
OBJECT_ROUTES = ("setattr", "dotted", "ctor", "append", "insert-front", "insert-middle", "setitem", "slice", "extend",
                 "iadd")
OBJECT_LOCATIONS = {"root": "items", "nested": "servers.endpoints", "in-outer-item": "groups[1].members"}
OBJECT_SOURCES = ("stand-alone", "taken-from-another-list")


def _unlucky(cfg):
    if cfg.ok == 13:
        raise ValueError("unlucky")


def _object_schemas(list_kind):
    """-> (root schema, factory of item configurations).  list_kind 'list' (ListField(Schema)) | 'tlist' (config type)"""
    import cincoconfig as cc
    item = cc.Schema()
    item.ok = cc.IntField(default=0)
    item.url = cc.StringField(required=True)
    item.deep.inner.token = cc.StringField(required=True)
    cc.validator(item)(_unlucky)
    item_type = cc.make_type(item, "Item") if list_kind == "tlist" else item
    group = cc.Schema()
    group.ok = cc.IntField(default=0)
    group.members = cc.ListField(item_type, default=list)
    root = cc.Schema()
    root.ok = cc.IntField(default=0)
    root.items = cc.ListField(item_type, default=list)
    root.servers.endpoints = cc.ListField(item_type, default=list)
    root.groups = cc.ListField(group, default=list)
    return root, item_type


def _execute_config_object(spec):
    """spec: kind 'config-object', list_kind, location, failure, route, source.  The list holds two valid ready-made
    items; a ready-made configuration object that fails whole-configuration validation is put into it"""
    import cincoconfig as cc
    root, factory = _object_schemas(spec["list_kind"])
    location, failure, route = spec["location"], spec["failure"], spec["route"]
    state = {}

    def good(ok):
        obj = factory()
        obj.url = "u"
        obj.deep.inner.token = "t"
        obj.ok = ok
        return obj

    def bad():
        if spec["source"] == "taken-from-another-list":  # valid when it went into the other list, spoiled afterwards
            other = root()
            other.items = [good(3)]
            obj = other.items[0]
            obj.ok = 13
            return obj
        obj = factory()
        if failure != "required-unset":
            obj.url = "u"
        if failure != "required-unset-deep":
            obj.deep.inner.token = "t"
        obj.ok = 13 if failure == "validator-fails" else 4
        return obj

    def prepare():
        cfg = root()
        if location == "root":
            owner, key = cfg, "items"
        elif location == "nested":
            owner, key = cfg.servers, "endpoints"
        else:
            cfg.groups = [{"ok": 1}, {"ok": 2}]
            owner, key = cfg.groups[1], "members"
        if route not in ("ctor",):
            setattr(owner, key, [good(1), good(2)])
        state.update(cfg=cfg, owner=owner, key=key, lst=getattr(owner, key), bad=bad(), good=good(5))

    try:
        prepare()
    except Exception:
        out = _blank_out([])
        out["status"] = "skipped"
        return out
    n = 2
    # index = the position the item would take; while an item is validated for insert / item assignment / slice
    # assignment it is not a member yet and the position after the last item (n) names it as well
    indexes = {"setattr": [1], "dotted": [1], "ctor": [1], "append": [n], "insert-front": [0, n], "insert-middle": [1, n],
               "setitem": [1, n], "slice": [1, n], "extend": [n + 1], "iadd": [n + 1]}[route]
    expected = ["%s[%d]%s" % (OBJECT_LOCATIONS[location], i, OBJECT_FAILURES[failure]) for i in indexes]

    def run():
        cfg, owner, key, lst, item, ok_item = (state[k] for k in ("cfg", "owner", "key", "lst", "bad", "good"))
        if route == "setattr":
            setattr(owner, key, [ok_item, item])
        elif route == "dotted":
            if location == "root":
                cfg["items"] = [ok_item, item]
            elif location == "nested":
                cfg["servers.endpoints"] = [ok_item, item]
            else:
                cfg["groups"][1]["members"] = [ok_item, item]
        elif route == "ctor":
            tree = {"root": {"items": [ok_item, item]}, "nested": {"servers": {"endpoints": [ok_item, item]}},
                    "in-outer-item": {"groups": [{"ok": 1}, {"ok": 2, "members": [ok_item, item]}]}}[location]
            root(**tree)
        elif route == "append":
            lst.append(item)
        elif route == "insert-front":
            lst.insert(0, item)
        elif route == "insert-middle":
            lst.insert(1, item)
        elif route == "setitem":
            lst[1] = item
        elif route == "slice":
            lst[0:1] = [ok_item, item]
        elif route == "extend":
            lst.extend([ok_item, item])
        elif route == "iadd":
            lst += [ok_item, item]
        else:
            raise ValueError(route)

    return _observe(_blank_out(expected), run)


def _route_class(route):
    if route in ("attr", "dotted"):
        return "assign"
    if route == "attr-after-load":
        return "assign-after-load"
    return "build"


def _execute(spec):
    """run one case on the real library.  spec: kind ('leaf'|'shape'), posname, pos, root_ctype, leaf, value (name),
    route, equal_items, target (index of the container that receives the value, shape cases).
    -> dict(status='skipped'|'accepted'|'rejected', exc_type, is_validation_error, ref_path, text, expected_paths)"""
    import cincoconfig as cc
    if spec["kind"] == "dict-key":
        return _execute_dict_key(spec)
    if spec["kind"] == "list-index":
        return _execute_list_index(spec)
    if spec["kind"] == "config-object":
        return _execute_config_object(spec)
    pos = [tuple(s) for s in spec["pos"]]
    route = spec["route"]
    value = _values()[spec["value"]]
    equal = bool(spec.get("equal_items"))
    root = _build(pos, spec.get("leaf"), root_ctype=bool(spec.get("root_ctype")))

    if spec["kind"] == "leaf":
        owner_pos, key = pos, LEAF
        base = _path(pos)
        leaf_kind = spec["leaf"]
        if leaf_kind in TYPED_DICT and isinstance(value, dict) and value:
            if spec["value"] == "bad-int-dict":
                expected = ["%s[k]" % base]
            else:
                expected = ["%s[%s]" % (base, k) for k in value]
        elif leaf_kind in TYPED_LIST and isinstance(value, (list, tuple)) and value:
            if spec["value"] == "bad-int-list":
                expected = [base, "%s[1]" % base]
            else:
                expected = [base] + ["%s[%d]" % (base, i) for i in range(len(value))]
        else:
            expected = [base]
    else:  # wrong shape for a declared container (nested schema / config type / list item / list field)
        t = spec["target"]
        seg = pos[t]
        owner_pos, key = pos[:t], seg[1]
        if spec.get("as_item") and seg[0] in ("list", "tlist"):
            field_path = ".".join([p for p in [_path(pos, t, leaf=False)] if p] + [seg[1]])
            expected = [field_path, "%s[%d]" % (field_path, seg[2])]
            value = [{"ok": j + 1} for j in range(seg[2])] + [value]
        else:
            field_path = ".".join([p for p in [_path(pos, t, leaf=False)] if p] + [seg[1]])
            expected = [field_path]
            if seg[0] in ("list", "tlist") and isinstance(value, (list, tuple)):
                expected += ["%s[%d]" % (field_path, i) for i in range(len(value))]

    def run():
        if route in ("attr", "dotted", "attr-after-load"):
            try:  # preparation with valid values only: a failure here is not a case of this property
                cfg = root()
                if route == "attr-after-load":
                    cfg.load_tree(_tree(owner_pos, {"ok": 5}, equal_items=equal))
                    owner = _navigate(cfg, owner_pos)
                else:
                    owner = _prepare_lists(cfg, owner_pos, equal_items=equal)
            except Exception:
                return "skipped"
            if route == "dotted":
                _dotted_set(cfg, owner_pos, key, value)
            else:
                setattr(owner, key, value)
            return
        tree = _tree(owner_pos, {key: value}, equal_items=equal)
        if route == "ctor":
            root(**tree)
        elif route == "load_tree":
            root().load_tree(tree)
        else:
            fmt = route.split(":", 1)[1]
            doc = _encode(fmt, tree)
            if doc is None:
                return "skipped"
            root().loads(doc, fmt)

    out = {"expected_paths": expected, "exc_type": None, "is_validation_error": None, "ref_path": None, "text": None}
    try:
        r = run()
    except Exception as exc:  # the observation under test
        out["status"] = "rejected"
        out["exc_type"] = type(exc).__name__
        out["is_validation_error"] = isinstance(exc, cc.ValidationError) and isinstance(exc, ValueError)
        if out["is_validation_error"]:
            try:
                out["ref_path"] = exc.ref_path
            except Exception as exc2:
                out["ref_path"] = "<ref_path raised %s>" % type(exc2).__name__
            try:
                out["text"] = str(exc)
            except Exception as exc2:
                out["text"] = "<str raised %s>" % type(exc2).__name__
        else:
            out["text"] = str(exc)[:200]
        return out
    out["status"] = "skipped" if r == "skipped" else "accepted"
    return out


def _text_ok(text, ref_path):
    return isinstance(text, str) and text.startswith(ref_path) and re.match(r"( \(|: )", text[len(ref_path):]) is not None


def _judge(spec, out):
    """-> list of (obligation, what, witness_key) for the failed clauses of one executed case"""
    if out["status"] != "rejected":
        return []
    route = spec["route"]
    if spec["kind"] in ("dict-key", "list-index", "config-object"):
        return _judge_container(spec, out)
    rc = _route_class(route)
    where = {"attr": "core:Config._set_value", "dotted": "core:Config._set_value", "ctor": "core:Config._set_value",
             "load_tree": "core:Config.load_tree", "attr-after-load": "core:Config._set_value"}.get(
        route, "core:Config.loads")
    fails = []
    leaf = spec.get("leaf")
    if not out["is_validation_error"]:
        if spec["kind"] == "shape":
            t = spec["target"]
            inner = "-with-subschema" if t + 1 < len(spec["pos"]) and spec["pos"][t + 1][0] == "schema" else (
                "-with-include" if t + 1 == len(spec["pos"]) and leaf == "include" else "")
            wk = "%s:wrong-shape-for-%s%s:%s" % (out["exc_type"], spec["pos"][t][0] + ("-item" if spec.get("as_item") else ""),
                                                inner, "loads" if route.startswith("loads") else route)
        elif leaf == "include":
            wk = "%s:include-field:%s" % (out["exc_type"], "loads" if route.startswith("loads") else route)
        else:
            wk = "%s:%s:%s:%s" % (out["exc_type"], leaf, "loads" if route.startswith("loads") else route,
                                  type(_values()[spec["value"]]).__name__)
        fails.append((where + "/raise:C15.validation-error-type",
                      "rejection of value %s for %s via %s raised %s (%s), expected cincoconfig.ValidationError"
                      % (spec["value"], out["expected_paths"][0], route, out["exc_type"], out["text"]), wk))
        return fails
    if out["ref_path"] not in out["expected_paths"]:
        nonplain = any(s[0] != "schema" for s in spec["pos"])
        if spec.get("equal_items"):
            wk = "%s(equal-items):%s:field" % (spec["posname"], rc)
        elif spec["kind"] == "leaf" and "[" in out["expected_paths"][0].rsplit(".", 1)[-1] and leaf in TYPED_DICT:
            wk = "dict-entry:%s" % ("inside-list-or-configtype" if nonplain or spec.get("root_ctype") else "plain")
        elif spec["kind"] == "shape":  # same input class as a field of the configuration owning the container
            wk = "%s:%s:field" % (_posname([tuple(x) for x in spec["pos"][:spec["target"]]]), rc)
        else:
            wk = "%s:%s:field" % (spec["posname"], rc)
        fails.append((where + "/raise:C15.ref-path",
                      "ValidationError.ref_path for value %s via %s is %r, expected %s"
                      % (spec["value"], route, out["ref_path"], " or ".join(map(repr, out["expected_paths"]))), wk))
        return fails
    if not _text_ok(out["text"], out["ref_path"]):
        fails.append(("core:ValidationError.__str__/post:C15.text-names-path",
                      "str(ValidationError) = %r does not start with the reference path %r"
                      % (out["text"], out["ref_path"]), "%s:%s" % (spec["posname"], leaf or "container")))
    return fails


def _judge_container(spec, out):
    route = spec["route"]
    if spec["kind"] == "dict-key":
        where = {"setattr": "core:Config._set_value", "dotted": "core:Config._set_value", "ctor": "core:Config._set_value",
                 "load_tree": "core:Config.load_tree", "item": "fields.dict_field:DictProxy.__setitem__",
                 "update": "fields.dict_field:DictProxy.update", "update-pairs": "fields.dict_field:DictProxy.update",
                 "ior": "fields.dict_field:DictProxy.__ior__", "setdefault": "fields.dict_field:DictProxy.setdefault"}[route]
        wk = "dict-key:%s/%s/%s" % (spec["key"], spec["mode"], route)
        what = "%s key %r (%s) in %s at %s via %s" % (spec["mode"], DICT_KEYS[spec["key"]], spec["key"], spec["leaf"],
                                                      out["expected_paths"][0], route)
    elif spec["kind"] == "config-object":
        where = {"setattr": "core:Config._set_value", "dotted": "core:Config._set_value", "ctor": "core:Config._set_value",
                 "append": "fields.list_field:ListProxy.append", "insert-front": "fields.list_field:ListProxy.insert",
                 "insert-middle": "fields.list_field:ListProxy.insert", "setitem": "fields.list_field:ListProxy.__setitem__",
                 "slice": "fields.list_field:ListProxy.__setitem__", "extend": "fields.list_field:ListProxy.extend",
                 "iadd": "fields.list_field:ListProxy.__iadd__"}[route]
        wk = "config-object-item:%s/%s/%s%s%s" % (spec["failure"], route, spec["location"],
                                                  "(config-type)" if spec["list_kind"] == "tlist" else "",
                                                  "(from-another-list)" if spec["source"] != "stand-alone" else "")
        what = "ready-made %s item (%s, %s) put into %s by %s" % (
            "config-type" if spec["list_kind"] == "tlist" else "schema", spec["failure"], spec["source"],
            OBJECT_LOCATIONS[spec["location"]], route)
    else:
        where = "core:Config.load_tree" if route == "load_tree" else "core:Config._set_value"
        wk = "list-index:%s%s%s/%s/%s" % (spec["history"], "(equal-items)" if spec.get("equal_items") else "",
                                          "(rejected-before)" if spec.get("probe_before") else "", spec["target"], route)
        what = "rejected value for a field of the %s item of %s after history %s via %s" % (
            spec["target"], spec["posname"], spec["history"], route)
    if not out["is_validation_error"]:
        return [(where + "/raise:C15.validation-error-type",
                 "%s: raised %s (%s), expected cincoconfig.ValidationError" % (what, out["exc_type"], out["text"]), wk)]
    if out["ref_path"] not in out["expected_paths"]:
        return [(where + "/raise:C15.ref-path",
                 "%s: ValidationError.ref_path is %r, expected %s"
                 % (what, out["ref_path"], " or ".join(map(repr, out["expected_paths"]))), wk)]
    if not _text_ok(out["text"], out["ref_path"]):
        return [("core:ValidationError.__str__/post:C15.text-names-path",
                 "%s: str(ValidationError) = %r does not start with the reference path %r"
                 % (what, out["text"], out["ref_path"]), wk)]
    return []


def replay(case):
    with sandbox():
        out = _execute(case)
        fails = _judge(case, out)
    return {"fails": bool(fails), "expected": {"exception": "cincoconfig.ValidationError",
                                               "ref_path_in": out["expected_paths"]},
            "observed": {"status": out["status"], "exception": out["exc_type"], "ref_path": out["ref_path"],
                         "text": out["text"]},
            "failed_obligations": [f[0] for f in fails]}


# ------------------------------------------------------------------------------------------------ driver
def rac(tier="quick", seed=0):
    rec = Recorder(
        PID,
        rule="case = (position chain from root, leaf field kind, rejected value, route); schema built per case with the "
             "leaf `f` at that position; non-trivial iff the real library rejected the value (an exception was raised); "
             "routes whose format cannot carry the value are skipped and not counted; dict-key case = (position, key "
             "field kind, key, value- or key-rejected, dict route); list-index case = (position, insert/pop history, "
             "target index class, route, equal-valued items or not); config-object case = (list kind, location, failure, "
             "route, source of the object)",
        bound="16 positions (root, root ConfigType, nested schemas to depth 3, config types, lists of schemas / config "
              "types, item index 0/1, list in list) x 26 leaf kinds (every built-in field class, typed list/dict, friendly "
              "names, custom validator, include) x canonical rejected value x 11 routes (attr, dotted, ctor, load_tree, "
              "attr-after-load, loads in 5 formats); 27 malformed values of every JSON/Python type x leaf kinds at 3 "
              "positions (quick: all routes at root, attr/load_tree/json elsewhere); 7 wrong shapes for every container; "
              "equal-valued list items; typed dicts: 7 key fields (AnyField, none, Int, Float, Bool, Bytes, String) x 15 "
              "keys (tuple, 1-tuple, empty tuple, int, negative int, float, bool, None, bytes, strs with %s % ] . [ and '') "
              "x 9 routes (setattr, dotted, ctor, load_tree, d[k]=v, update(dict), update(pairs), |=, setdefault) x 3 "
              "positions (root, 1 and 2 levels down); lists of schemas / config types: 13 histories of insert/append/pop/"
              "del/reverse on 3 items x first/middle/last x 3 routes x 5 positions x equal-valued or distinct items x "
              "with/without a rejection on every item before the history; ready-made configuration objects as list items: "
              "3 failures (required field unset, schema validator fails, required field unset two levels down) x 10 routes "
              "(list assignment by attribute / dotted path / constructor, append, insert front/middle, lst[i] = obj, slice, "
              "extend, +=) x 3 locations (root, sub-configuration, item of an outer list) x schema / config-type items x "
              "stand-alone object or object taken from another list",
        tier=tier, seed=seed)
    leaves, _ = _leaf_table()
    routes_all = ["attr", "dotted", "ctor", "load_tree", "attr-after-load"] + ["loads:" + f for f in FORMATS]

    def one(spec):
        out = _execute(spec)
        if out["status"] == "skipped":
            return
        key = (spec["kind"], spec["posname"], _path([tuple(s) for s in spec["pos"]], leaf=False), spec.get("leaf"),
               spec.get("target"), spec.get("as_item"), spec["value"], spec["route"], bool(spec.get("equal_items")))
        rec.case(key=key, nontrivial=out["status"] == "rejected",
                 sample={"case": {k: spec[k] for k in ("posname", "leaf", "value", "route") if k in spec},
                         "expected_paths": out["expected_paths"], "observed": [out["exc_type"], out["ref_path"]]}
                 if out["status"] == "rejected" and rec.evaluations % 1499 == 0 else None)
        for obligation, what, wk in _judge(spec, out):
            rec.violation(obligation=obligation, what=what, replay=dict(spec), witness_key=wk)

    with sandbox():
        # (1) exhaustive: positions x leaf kinds x canonical rejected value x routes
        for posname, pos in POSITIONS:
            for leaf_kind in leaves:
                for route in routes_all:
                    one({"kind": "leaf", "posname": posname, "pos": [list(s) for s in pos],
                         "root_ctype": posname == "root(ctype)", "leaf": leaf_kind, "value": leaves[leaf_kind][1],
                         "route": route})
        # (2) wrong shapes for every container on the way (nested schema / config type / list field / list item)
        for posname, pos in POSITIONS:
            for t in range(len(pos)):
                for as_item in ((False, True) if pos[t][0] in ("list", "tlist") else (False,)):
                    for shape in SHAPES:
                        for route in ["attr", "ctor", "load_tree"] + ["loads:" + f for f in FORMATS]:
                            one({"kind": "shape", "posname": posname, "pos": [list(s) for s in pos], "leaf": "int",
                                 "target": t, "as_item": as_item, "value": shape, "route": route})
                            if t == len(pos) - 1 and pos[t][0] == "schema":  # innermost schema holding an include field
                                one({"kind": "shape", "posname": posname, "pos": [list(s) for s in pos],
                                     "leaf": "include", "target": t, "as_item": as_item, "value": shape, "route": route})
        # (3) equal-valued items in lists of configurations (index must still be the item's own)
        for posname, pos in POSITIONS:
            if posname not in EQUAL_ITEM_POSITIONS:
                continue
            for route in routes_all:
                one({"kind": "leaf", "posname": posname, "pos": [list(s) for s in pos], "leaf": "int", "value": "str",
                     "route": route, "equal_items": True})
        # (5) typed dicts with unusual keys: bad value under the key / key the key field refuses, every dict route
        for pos in DICT_POSITIONS:
            for leaf_kind in _dict_key_leaf_table():
                for kname in DICT_KEYS:
                    accepted = kname in DICT_KEY_ACCEPTS[leaf_kind]
                    mode = "value-rejected" if accepted else "key-rejected"
                    for route in DICT_ROUTES:
                        if leaf_kind == "dict-byteskey-int" and (route == "load_tree" or (route == "ctor" and pos)):
                            # tree routes (a nested constructor keyword is loaded as a tree): keys of a bytes-keyed dict
                            # are encoded text there, the key as written is not the key of the entry
                            continue
                        spec = {"kind": "dict-key", "posname": _posname(pos), "pos": [list(x) for x in pos],
                                "leaf": leaf_kind, "key": kname, "mode": mode, "route": route}
                        out = _execute(spec)
                        if out["status"] == "skipped":
                            continue
                        rec.case(key=("dict-key", spec["posname"], leaf_kind, kname, mode, route),
                                 nontrivial=out["status"] == "rejected",
                                 sample={"case": spec, "expected_paths": out["expected_paths"],
                                         "observed": [out["exc_type"], out["ref_path"]]}
                                 if (leaf_kind, kname, route, len(pos)) == ("dict-any-int", "tuple", "item", 2) else None)
                        for obligation, what, wk in _judge(spec, out):
                            rec.violation(obligation=obligation, what=what, replay=dict(spec), witness_key=wk)
        # (6) configurations in lists after insert/pop histories: the index in the path is the item's current index
        for posname, pos in LIST_POSITIONS:
            for history in LIST_HISTORIES:
                for target in ("first", "middle", "last"):
                    for route in LIST_ROUTES:
                        for equal, probe in ((False, False), (True, False), (False, True), (True, True)):
                            spec = {"kind": "list-index", "posname": posname, "pos": [list(x) for x in pos],
                                    "history": history, "target": target, "route": route, "equal_items": equal,
                                    "probe_before": probe}
                            out = _execute(spec)
                            if out["status"] == "skipped":
                                continue
                            rec.case(key=("list-index", posname, history, target, route, equal, probe),
                                     nontrivial=out["status"] == "rejected",
                                     sample={"case": spec, "expected_paths": out["expected_paths"],
                                             "observed": [out["exc_type"], out["ref_path"]]}
                                     if (posname, history, target, route, equal, probe) == ("tlist", "insert-front", "middle", "attr", True, True) else None)
                            for obligation, what, wk in _judge(spec, out):
                                rec.violation(obligation=obligation, what=what, replay=dict(spec), witness_key=wk)
        # (7) list items given as ready-made configuration objects that fail whole-configuration validation
        for list_kind in ("list", "tlist"):
            for location in OBJECT_LOCATIONS:
                for failure in OBJECT_FAILURES:
                    for route in OBJECT_ROUTES:
                        for source in OBJECT_SOURCES:
                            if source == "taken-from-another-list" and failure != "validator-fails":
                                continue  # an item of another list was valid field by field when it got there
                            spec = {"kind": "config-object", "posname": location, "pos": [], "list_kind": list_kind,
                                    "location": location, "failure": failure, "route": route, "source": source}
                            out = _execute(spec)
                            if out["status"] == "skipped":
                                continue
                            rec.case(key=("config-object", list_kind, location, failure, route, source),
                                     nontrivial=out["status"] == "rejected",
                                     sample={"case": spec, "expected_paths": out["expected_paths"],
                                             "observed": [out["exc_type"], out["ref_path"]]}
                                     if (list_kind, location, failure, route, source) ==
                                     ("list", "nested", "required-unset", "append", "stand-alone") else None)
                            for obligation, what, wk in _judge(spec, out):
                                rec.violation(obligation=obligation, what=what, replay=dict(spec), witness_key=wk)
        # (4) malformed values of every type on every leaf kind
        for posname, pos in POSITIONS:
            if tier == "quick" and posname not in GENERIC_POSITIONS_QUICK:
                continue
            full = tier != "quick" or posname == "root"
            routes = routes_all if full else ["attr", "load_tree", "loads:json"]
            for leaf_kind in leaves:
                for vname in GENERIC_POOL:
                    for route in routes:
                        if tier != "quick" and rec.out_of_time():
                            return rec.result(exhaustive=False)
                        one({"kind": "leaf", "posname": posname, "pos": [list(s) for s in pos],
                             "root_ctype": posname == "root(ctype)", "leaf": leaf_kind, "value": vname, "route": route})
    return rec.result(exhaustive=False)
