"""C15 bounded run-time contract driver: every rejection of a value for a declared persistent field is a
cincoconfig.ValidationError (a ValueError) whose ref_path / text name the full dotted path from the ROOT
configuration ('[index]' for configurations in lists, '[key]' for dict entries).

Scope (see RAC_API.md): declared persistent fields only; undeclared keys (AttributeError) and read-only
virtual / instance-method fields (TypeError) are by design and never exercised here.
"""
import re

from pyvc.raclib import Recorder, sandbox

PID = "C15"
FORMATS = ("json", "pickle", "xml", "yaml", "bson")
LEAF = "f"

# ------------------------------------------------------------------------------------------------ positions
# a position = chain of containers from the root to the configuration that owns the leaf field `f`
#   ("schema", key) nested schema | ("ctype", key) config type (make_type) | ("list", key, idx) list of plain
#   schemas, item idx | ("tlist", key, idx) list of config types, item idx
def _posname(pos, root_ctype=False):
    if not pos:
        return "root(ctype)" if root_ctype else "root"
    return "/".join(s[0] if s[0] in ("schema", "ctype") else "%s#%d" % (s[0], s[2]) for s in pos)


_CHAINS = [
    [],
    [("schema", "a")],
    [("schema", "a"), ("schema", "b")],
    [("ctype", "t")],
    [("ctype", "t"), ("schema", "a")],
    [("schema", "a"), ("ctype", "t")],
    [("list", "items", 0)],
    [("list", "items", 1)],
    [("list", "items", 1), ("schema", "a")],
    [("schema", "a"), ("list", "items", 1)],
    [("tlist", "titems", 0)],
    [("tlist", "titems", 1)],
    [("tlist", "titems", 1), ("schema", "a")],
    [("list", "items", 1), ("ctype", "t")],
    [("list", "items", 1), ("list", "inner", 1)],
]
POSITIONS = [(_posname(c), c) for c in _CHAINS]
POSITIONS.insert(1, ("root(ctype)", []))  # the root configuration itself is a ConfigType instance
EQUAL_ITEM_POSITIONS = ("list#1", "tlist#1", "schema/list#1", "list#1/list#1")
GENERIC_POSITIONS_QUICK = ("root", "schema/schema", "list#1")


def _boom(cfg, value):
    if value == 13:
        raise KeyError("boom")
    return value


def _leaf_table():
    import cincoconfig as cc
    nofile = "/nonexistent-rac-c15/missing.json"
    # kind -> (factory, canonical rejected value name)
    return {
        "str": (lambda: cc.StringField(max_len=3, default="ab"), "long-str"),
        "int": (lambda: cc.IntField(min=0, max=10, default=1), "str"),
        "float": (lambda: cc.FloatField(min=0.0, max=1.0, default=0.5), "str"),
        "port": (lambda: cc.PortField(default=80), "zero"),
        "ipv4": (lambda: cc.IPv4AddressField(default="127.0.0.1"), "str"),
        "net": (lambda: cc.IPv4NetworkField(default="10.0.0.0/8"), "str"),
        "file": (lambda: cc.FilenameField(exists=True), "nofile"),
        "bool": (lambda: cc.BoolField(default=False), "str"),
        "flag": (lambda: cc.FeatureFlagField(default=True), "str"),
        "url": (lambda: cc.UrlField(default="http://a"), "str"),
        "host": (lambda: cc.HostnameField(default="localhost"), "str"),
        "mode": (lambda: cc.ApplicationModeField(default="production"), "str"),
        "level": (lambda: cc.LogLevelField(default="info"), "str"),
        "challenge": (lambda: cc.ChallengeField(), "int"),
        "secure": (lambda: cc.SecureField(), "int"),
        "bytes": (lambda: cc.BytesField(), "int"),
        "any-required": (lambda: cc.AnyField(required=True, default=1), "none"),
        "str-required": (lambda: cc.StringField(required=True, default="v"), "none"),
        "list": (lambda: cc.ListField(default=list), "str"),
        "list-int": (lambda: cc.ListField(cc.IntField(), default=list), "bad-int-list"),
        "dict": (lambda: cc.DictField(default=dict), "int"),
        "dict-str-int": (lambda: cc.DictField(cc.StringField(), cc.IntField(), default=dict), "bad-int-dict"),
        "named-int": (lambda: cc.IntField(name="Friendly Name", default=1), "str"),
        "named-dict": (lambda: cc.DictField(cc.StringField(), cc.IntField(), name="Friendly Map", default=dict),
                       "bad-int-dict"),
        "custom-validator": (lambda: cc.IntField(default=1, validator=_boom), "thirteen"),
        "include": (lambda: cc.IncludeField(), "nofile"),
    }, nofile


TYPED_DICT = ("dict-str-int", "named-dict")
TYPED_LIST = ("list-int",)


def _values():
    return {
        "none": None, "true": True, "false": False, "zero": 0, "neg": -1, "int": 7, "thirteen": 13,
        "big": 2 ** 70, "float": 1.5, "nan": float("nan"), "inf": float("inf"), "empty-str": "",
        "str": "zz top", "long-str": "toolong", "numstr": "12", "bytes": b"\xff\x00", "empty-list": [],
        "list": [1, "a"], "nested-list": [[1], [2]], "list-of-dict": [{"a": 1}], "empty-dict": {},
        "dict": {"a": 1}, "nested-dict": {"a": {"b": [1]}}, "intkey-dict": {1: 2}, "tuple": (1, 2),
        "set": {1}, "object": object(), "complex": 1j, "type": int,
        "nofile": "/nonexistent-rac-c15/missing.json",
        "bad-int-list": [1, "x"], "bad-int-dict": {"g": 1, "k": "x"},
    }


GENERIC_POOL = ["none", "true", "false", "zero", "neg", "int", "big", "float", "nan", "inf", "empty-str", "str",
                "numstr", "bytes", "empty-list", "list", "nested-list", "list-of-dict", "empty-dict", "dict",
                "nested-dict", "intkey-dict", "tuple", "set", "object", "complex", "type"]
SHAPES = ["str", "int", "list", "true", "none", "float", "bytes"]


# ------------------------------------------------------------------------------------------------ schema building
def _build(pos, leaf_kind, root_ctype=False):
    """-> root factory (Schema, or ConfigType class when root_ctype).  leaf `f` of kind leaf_kind sits at `pos`;
    every configuration on the way also has `ok = IntField(default=0)` (declared first)."""
    import cincoconfig as cc
    leaves, _ = _leaf_table()

    def level(i):
        sch = cc.Schema()
        sch.ok = cc.IntField(default=0)
        if i == len(pos):
            if leaf_kind is not None:
                setattr(sch, LEAF, leaves[leaf_kind][0]())
            return sch
        seg = pos[i]
        sub = level(i + 1)
        if seg[0] == "schema":
            setattr(sch, seg[1], sub)
        elif seg[0] == "ctype":
            setattr(sch, seg[1], cc.make_type(sub, "T%d" % i))
        elif seg[0] == "list":
            setattr(sch, seg[1], cc.ListField(sub, default=list))
        elif seg[0] == "tlist":
            setattr(sch, seg[1], cc.ListField(cc.make_type(sub, "L%d" % i), default=list))
        return sch

    root = level(0)
    if root_ctype:
        return cc.make_type(root, "Root")
    return root


def _path(pos, upto=None, leaf=True):
    parts = []
    for seg in (pos if upto is None else pos[:upto]):
        parts.append(seg[1] if seg[0] in ("schema", "ctype") else "%s[%d]" % (seg[1], seg[2]))
    if leaf:
        parts.append(LEAF)
    return ".".join(parts)


def _tree(pos, inner, equal_items=False):
    """tree that reaches `pos` with `inner` (a dict) as the tree of the innermost configuration; list items before
    the addressed one are {'ok': j+1} (distinct), the addressed one gets 'ok' first"""
    cur = inner
    for seg in reversed(pos):
        if seg[0] in ("schema", "ctype"):
            cur = {"ok": 9, seg[1]: cur}
        else:
            idx = seg[2]
            if equal_items:
                items = [{} for _ in range(idx)] + [dict(cur)]
            else:
                item = {"ok": idx + 1}
                item.update(cur)
                items = [{"ok": j + 1} for j in range(idx)] + [item]
            cur = {seg[1]: items}
    return cur


def _prepare_lists(cfg, pos, equal_items=False):
    """assignment routes: give every list on the way idx+1 items, return the configuration owning the leaf"""
    cur = cfg
    for seg in pos:
        if seg[0] in ("schema", "ctype"):
            cur = getattr(cur, seg[1])
        else:
            n = seg[2] + 1
            setattr(cur, seg[1], [({} if equal_items else {"ok": j + 1}) for j in range(n)])
            cur = getattr(cur, seg[1])[seg[2]]
    return cur


def _navigate(cfg, pos):
    cur = cfg
    for seg in pos:
        cur = getattr(cur, seg[1])
        if seg[0] in ("list", "tlist"):
            cur = cur[seg[2]]
    return cur


def _dotted_set(cfg, pos, key, value):
    cur, parts = cfg, []
    for seg in pos:
        parts.append(seg[1])
        if seg[0] in ("list", "tlist"):
            cur = cur[".".join(parts)][seg[2]]
            parts = []
    cur[".".join(parts + [key])] = value


def _encode(fmt, tree):
    """document in format fmt carrying `tree`, or None when the format cannot carry the value"""
    import cincoconfig as cc
    try:
        doc = cc.ConfigFormat.get(fmt).dumps(None, tree)
        back = cc.ConfigFormat.get(fmt).loads(None, doc)
        if not isinstance(back, dict):
            return None
        return doc
    except Exception:
        return None


# ------------------------------------------------------------------------------------------------ one case
def _route_class(route):
    if route in ("attr", "dotted"):
        return "assign"
    if route == "attr-after-load":
        return "assign-after-load"
    return "build"


def _execute(spec):
    """run one case on the real library.  spec: kind ('leaf'|'shape'), posname, pos, root_ctype, leaf, value (name),
    route, equal_items, target (index of the container that receives the value, shape cases).
    -> dict(status='skipped'|'accepted'|'rejected', exc_type, is_validation_error, ref_path, text, expected_paths)"""
    import cincoconfig as cc
    pos = [tuple(s) for s in spec["pos"]]
    route = spec["route"]
    value = _values()[spec["value"]]
    equal = bool(spec.get("equal_items"))
    root = _build(pos, spec.get("leaf"), root_ctype=bool(spec.get("root_ctype")))

    if spec["kind"] == "leaf":
        owner_pos, key = pos, LEAF
        base = _path(pos)
        leaf_kind = spec["leaf"]
        if leaf_kind in TYPED_DICT and isinstance(value, dict) and value:
            if spec["value"] == "bad-int-dict":
                expected = ["%s[k]" % base]
            else:
                expected = ["%s[%s]" % (base, k) for k in value]
        elif leaf_kind in TYPED_LIST and isinstance(value, (list, tuple)) and value:
            if spec["value"] == "bad-int-list":
                expected = [base, "%s[1]" % base]
            else:
                expected = [base] + ["%s[%d]" % (base, i) for i in range(len(value))]
        else:
            expected = [base]
    else:  # wrong shape for a declared container (nested schema / config type / list item / list field)
        t = spec["target"]
        seg = pos[t]
        owner_pos, key = pos[:t], seg[1]
        if spec.get("as_item") and seg[0] in ("list", "tlist"):
            field_path = ".".join([p for p in [_path(pos, t, leaf=False)] if p] + [seg[1]])
            expected = [field_path, "%s[%d]" % (field_path, seg[2])]
            value = [{"ok": j + 1} for j in range(seg[2])] + [value]
        else:
            field_path = ".".join([p for p in [_path(pos, t, leaf=False)] if p] + [seg[1]])
            expected = [field_path]
            if seg[0] in ("list", "tlist") and isinstance(value, (list, tuple)):
                expected += ["%s[%d]" % (field_path, i) for i in range(len(value))]

    def run():
        if route in ("attr", "dotted", "attr-after-load"):
            try:  # preparation with valid values only: a failure here is not a case of this property
                cfg = root()
                if route == "attr-after-load":
                    cfg.load_tree(_tree(owner_pos, {"ok": 5}, equal_items=equal))
                    owner = _navigate(cfg, owner_pos)
                else:
                    owner = _prepare_lists(cfg, owner_pos, equal_items=equal)
            except Exception:
                return "skipped"
            if route == "dotted":
                _dotted_set(cfg, owner_pos, key, value)
            else:
                setattr(owner, key, value)
            return
        tree = _tree(owner_pos, {key: value}, equal_items=equal)
        if route == "ctor":
            root(**tree)
        elif route == "load_tree":
            root().load_tree(tree)
        else:
            fmt = route.split(":", 1)[1]
            doc = _encode(fmt, tree)
            if doc is None:
                return "skipped"
            root().loads(doc, fmt)

    out = {"expected_paths": expected, "exc_type": None, "is_validation_error": None, "ref_path": None, "text": None}
    try:
        r = run()
    except Exception as exc:  # the observation under test
        out["status"] = "rejected"
        out["exc_type"] = type(exc).__name__
        out["is_validation_error"] = isinstance(exc, cc.ValidationError) and isinstance(exc, ValueError)
        if out["is_validation_error"]:
            try:
                out["ref_path"] = exc.ref_path
            except Exception as exc2:
                out["ref_path"] = "<ref_path raised %s>" % type(exc2).__name__
            try:
                out["text"] = str(exc)
            except Exception as exc2:
                out["text"] = "<str raised %s>" % type(exc2).__name__
        else:
            out["text"] = str(exc)[:200]
        return out
    out["status"] = "skipped" if r == "skipped" else "accepted"
    return out


def _text_ok(text, ref_path):
    return isinstance(text, str) and text.startswith(ref_path) and re.match(r"( \(|: )", text[len(ref_path):]) is not None


def _judge(spec, out):
    """-> list of (obligation, what, witness_key) for the failed clauses of one executed case"""
    if out["status"] != "rejected":
        return []
    route = spec["route"]
    rc = _route_class(route)
    where = {"attr": "core:Config._set_value", "dotted": "core:Config._set_value", "ctor": "core:Config._set_value",
             "load_tree": "core:Config.load_tree", "attr-after-load": "core:Config._set_value"}.get(
        route, "core:Config.loads")
    fails = []
    leaf = spec.get("leaf")
    if not out["is_validation_error"]:
        if spec["kind"] == "shape":
            t = spec["target"]
            inner = "-with-subschema" if t + 1 < len(spec["pos"]) and spec["pos"][t + 1][0] == "schema" else (
                "-with-include" if t + 1 == len(spec["pos"]) and leaf == "include" else "")
            wk = "%s:wrong-shape-for-%s%s:%s" % (out["exc_type"], spec["pos"][t][0] + ("-item" if spec.get("as_item") else ""),
                                                inner, "loads" if route.startswith("loads") else route)
        elif leaf == "include":
            wk = "%s:include-field:%s" % (out["exc_type"], "loads" if route.startswith("loads") else route)
        else:
            wk = "%s:%s:%s:%s" % (out["exc_type"], leaf, "loads" if route.startswith("loads") else route,
                                  type(_values()[spec["value"]]).__name__)
        fails.append((where + "/raise:C15.validation-error-type",
                      "rejection of value %s for %s via %s raised %s (%s), expected cincoconfig.ValidationError"
                      % (spec["value"], out["expected_paths"][0], route, out["exc_type"], out["text"]), wk))
        return fails
    if out["ref_path"] not in out["expected_paths"]:
        nonplain = any(s[0] != "schema" for s in spec["pos"])
        if spec.get("equal_items"):
            wk = "%s(equal-items):%s:field" % (spec["posname"], rc)
        elif spec["kind"] == "leaf" and "[" in out["expected_paths"][0].rsplit(".", 1)[-1] and leaf in TYPED_DICT:
            wk = "dict-entry:%s" % ("inside-list-or-configtype" if nonplain or spec.get("root_ctype") else "plain")
        elif spec["kind"] == "shape":  # same input class as a field of the configuration owning the container
            wk = "%s:%s:field" % (_posname([tuple(x) for x in spec["pos"][:spec["target"]]]), rc)
        else:
            wk = "%s:%s:field" % (spec["posname"], rc)
        fails.append((where + "/raise:C15.ref-path",
                      "ValidationError.ref_path for value %s via %s is %r, expected %s"
                      % (spec["value"], route, out["ref_path"], " or ".join(map(repr, out["expected_paths"]))), wk))
        return fails
    if not _text_ok(out["text"], out["ref_path"]):
        fails.append(("core:ValidationError.__str__/post:C15.text-names-path",
                      "str(ValidationError) = %r does not start with the reference path %r"
                      % (out["text"], out["ref_path"]), "%s:%s" % (spec["posname"], leaf or "container")))
    return fails


def replay(case):
    with sandbox():
        out = _execute(case)
        fails = _judge(case, out)
    return {"fails": bool(fails), "expected": {"exception": "cincoconfig.ValidationError",
                                               "ref_path_in": out["expected_paths"]},
            "observed": {"status": out["status"], "exception": out["exc_type"], "ref_path": out["ref_path"],
                         "text": out["text"]},
            "failed_obligations": [f[0] for f in fails]}


# ------------------------------------------------------------------------------------------------ driver
def rac(tier="quick", seed=0):
    rec = Recorder(
        PID,
        rule="case = (position chain from root, leaf field kind, rejected value, route); schema built per case with the "
             "leaf `f` at that position; non-trivial iff the real library rejected the value (an exception was raised); "
             "routes whose format cannot carry the value are skipped and not counted",
        bound="16 positions (root, root ConfigType, nested schemas to depth 3, config types, lists of schemas / config "
              "types, item index 0/1, list in list) x 26 leaf kinds (every built-in field class, typed list/dict, friendly "
              "names, custom validator, include) x canonical rejected value x 11 routes (attr, dotted, ctor, load_tree, "
              "attr-after-load, loads in 5 formats); 27 malformed values of every JSON/Python type x leaf kinds at 3 "
              "positions (quick: all routes at root, attr/load_tree/json elsewhere); 7 wrong shapes for every container; "
              "equal-valued list items",
        tier=tier, seed=seed)
    leaves, _ = _leaf_table()
    routes_all = ["attr", "dotted", "ctor", "load_tree", "attr-after-load"] + ["loads:" + f for f in FORMATS]

    def one(spec):
        out = _execute(spec)
        if out["status"] == "skipped":
            return
        key = (spec["kind"], spec["posname"], _path([tuple(s) for s in spec["pos"]], leaf=False), spec.get("leaf"),
               spec.get("target"), spec.get("as_item"), spec["value"], spec["route"], bool(spec.get("equal_items")))
        rec.case(key=key, nontrivial=out["status"] == "rejected",
                 sample={"case": {k: spec[k] for k in ("posname", "leaf", "value", "route") if k in spec},
                         "expected_paths": out["expected_paths"], "observed": [out["exc_type"], out["ref_path"]]}
                 if out["status"] == "rejected" and rec.evaluations % 97 == 0 else None)
        for obligation, what, wk in _judge(spec, out):
            rec.violation(obligation=obligation, what=what, replay=dict(spec), witness_key=wk)

    with sandbox():
        # (1) exhaustive: positions x leaf kinds x canonical rejected value x routes
        for posname, pos in POSITIONS:
            for leaf_kind in leaves:
                for route in routes_all:
                    one({"kind": "leaf", "posname": posname, "pos": [list(s) for s in pos],
                         "root_ctype": posname == "root(ctype)", "leaf": leaf_kind, "value": leaves[leaf_kind][1],
                         "route": route})
        # (2) wrong shapes for every container on the way (nested schema / config type / list field / list item)
        for posname, pos in POSITIONS:
            for t in range(len(pos)):
                for as_item in ((False, True) if pos[t][0] in ("list", "tlist") else (False,)):
                    for shape in SHAPES:
                        for route in ["attr", "ctor", "load_tree"] + ["loads:" + f for f in FORMATS]:
                            one({"kind": "shape", "posname": posname, "pos": [list(s) for s in pos], "leaf": "int",
                                 "target": t, "as_item": as_item, "value": shape, "route": route})
                            if t == len(pos) - 1 and pos[t][0] == "schema":  # innermost schema holding an include field
                                one({"kind": "shape", "posname": posname, "pos": [list(s) for s in pos],
                                     "leaf": "include", "target": t, "as_item": as_item, "value": shape, "route": route})
        # (3) equal-valued items in lists of configurations (index must still be the item's own)
        for posname, pos in POSITIONS:
            if posname not in EQUAL_ITEM_POSITIONS:
                continue
            for route in routes_all:
                one({"kind": "leaf", "posname": posname, "pos": [list(s) for s in pos], "leaf": "int", "value": "str",
                     "route": route, "equal_items": True})
        # (4) malformed values of every type on every leaf kind
        for posname, pos in POSITIONS:
            if tier == "quick" and posname not in GENERIC_POSITIONS_QUICK:
                continue
            full = tier != "quick" or posname == "root"
            routes = routes_all if full else ["attr", "load_tree", "loads:json"]
            for leaf_kind in leaves:
                for vname in GENERIC_POOL:
                    for route in routes:
                        if tier != "quick" and rec.out_of_time():
                            return rec.result(exhaustive=False)
                        one({"kind": "leaf", "posname": posname, "pos": [list(s) for s in pos],
                             "root_ctype": posname == "root(ctype)", "leaf": leaf_kind, "value": vname, "route": route})
    return rec.result(exhaustive=False)
