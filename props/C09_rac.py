"""C09 - bounded run-time contract driver: challenge fields keep only a salted hash that verifies exactly the secret.

Cases (JSON dicts, bytes as hex) executed by `check_case` against the REAL library:
  assign       algorithm x secret (str / bytes) x format: assign to a ChallengeField at the root and in a nested
               sub-configuration; independent recomputation of hash(salt + p) with hashlib.new(name); challenge(p),
               challenge(q != p); fresh salt per assignment; plaintext absent from memory, to_tree and dumps (all
               five formats); salt + digest unchanged through save -> load into a new configuration object
  handwritten  algorithm x str secret x format: a file written WITHOUT the library (json / yaml / pickle / bson /
               literal xml) that carries the plaintext is hashed on load
  default      default given as plaintext str or as DigestValue
  handwritten  also: plaintext STRINGS that look like a stored 'salt:digest' pair must be hashed as plaintexts
"""
import base64
import hashlib
import json
import os
import pickle
from xml.sax.saxutils import escape

from pyvc.raclib import Recorder, sandbox

PID = "C09"
FORMATS = ["json", "yaml", "bson", "pickle", "xml"]
ALGS = {"md5": 16, "sha1": 20, "sha224": 28, "sha256": 32, "sha384": 48, "sha512": 64}

M = "fields.secure_field:"
O_HASH = M + "ChallengeField._validate/post:C09.stores-salted-hash"
O_SALT = M + "DigestValue.create/post:C09.fresh-random-salt"
O_OK = M + "DigestValue.challenge/post:C09.secret-accepted"
O_REJ = M + "DigestValue.challenge/raise:C09.other-secret-rejected"
O_MEM = M + "ChallengeField._validate/post:C09.no-plaintext-in-memory"
O_SER = M + "ChallengeField.to_basic/post:C09.no-plaintext-serialised"
O_BASIC = M + "ChallengeField.to_basic/post:C09.salt-digest-base64"
O_LOAD = M + "ChallengeField.to_python/post:C09.salt-digest-survive-save-load"
O_HAND = M + "ChallengeField.to_python/post:C09.plaintext-hashed-on-load"
O_DEF_P = M + "ChallengeField.__setdefault__/post:C09.default-plaintext-hashed"
O_DEF_D = M + "ChallengeField.__setdefault__/post:C09.default-digest-kept"


def _enc(v):
    return {"t": "bytes", "v": v.hex()} if isinstance(v, bytes) else {"t": "str", "v": v.encode("utf-8").hex()}


def _dec(d):
    raw = bytes.fromhex(d["v"])
    return raw if d["t"] == "bytes" else raw.decode("utf-8")


def _b(v):
    return v if isinstance(v, bytes) else v.encode("utf-8")


def _call(fn, *a, **k):
    try:
        return fn(*a, **k), None
    except Exception as e:  # noqa: BLE001 - an observation about the library, classified by the caller
        return None, e


def _leaks(obj, needle, depth=0):
    """does the plaintext (as bytes / as text) occur anywhere in this value graph?"""
    from cincoconfig.core import Config
    if isinstance(obj, (bytes, bytearray)):
        return needle in bytes(obj)
    if isinstance(obj, str):
        return needle in obj.encode("utf-8", "surrogatepass")
    if depth > 6:
        return False
    if isinstance(obj, Config):
        return _leaks(obj._data, needle, depth + 1)
    if isinstance(obj, dict):
        return any(_leaks(k, needle, depth + 1) or _leaks(v, needle, depth + 1) for k, v in obj.items())
    if isinstance(obj, (list, tuple, set, frozenset)):
        return any(_leaks(x, needle, depth + 1) for x in obj)
    return False


def _is_b64(text):
    try:
        base64.b64decode(text, validate=True)
        return True
    except Exception:  # noqa: BLE001
        return False


def _searchable(pb):
    """short secrets can occur in salts / base64 text by chance: the absence clauses are evaluated for >= 6 bytes"""
    return len(pb) >= 6


def _check_digest(bad, obl, wk, alg, v, p, where):
    """v must be a DigestValue with salt of digest length and digest == hash(salt + p) (recomputed independently)"""
    from cincoconfig import DigestValue
    if not isinstance(v, DigestValue):
        bad(obl, wk, "%s: value is %s, not a DigestValue" % (where, type(v).__name__))
        return False
    ok = True
    if not isinstance(v.salt, bytes) or len(v.salt) != ALGS[alg]:
        bad(obl, wk + "|salt-length", "%s: salt has %s bytes, digest size of %s is %d"
            % (where, len(v.salt) if isinstance(v.salt, bytes) else type(v.salt).__name__, alg, ALGS[alg]))
        ok = False
    elif v.digest != hashlib.new(alg, v.salt + _b(p)).digest():
        bad(obl, wk, "%s: digest != %s(salt + plaintext)" % (where, alg))
        ok = False
    return ok


def _check_challenges(bad, wk, v, p, others, where):
    _, e = _call(v.challenge, p)
    if e is not None:
        bad(O_OK, wk, "%s: challenge(secret) raised %s" % (where, type(e).__name__))
    for q in others:
        if _b(q) == _b(p):
            continue
        _, e = _call(v.challenge, q)
        if e is None:
            bad(O_REJ, wk, "%s: challenge(%r) succeeded for a different secret" % (where, q if len(q) < 40 else q[:40]))
        elif not isinstance(e, ValueError):
            bad(O_REJ, wk + "|class", "%s: challenge(other) raised %s, expected ValueError"
                % (where, type(e).__name__))


def _schema(alg, **kw):
    from cincoconfig import ChallengeField, Schema, StringField
    s = Schema()
    s.name = StringField(default="app")
    s.c = ChallengeField(alg, **kw)
    s.sub.c = ChallengeField(alg, **kw)
    s.sub.deep.c = ChallengeField(alg, **kw)
    return s


PATHS = ["c", "sub.c", "sub.deep.c"]


def _handwritten(fmt, p, variant=None):
    """a configuration file carrying the plaintext, written WITHOUT the library; `variant` selects another
    spelling of the same (empty) string in the format's own syntax"""
    tree = {"name": "by-hand", "c": p, "sub": {"c": p, "deep": {"c": p}}}
    if variant == "yaml-double-quoted":
        assert p == ""
        return b'name: by-hand\nc: ""\nsub:\n  c: ""\n  deep:\n    c: ""\n'
    if variant == "xml-self-closing":
        assert p == ""
        return (b'<?xml version="1.0" ?><config type="dict"><name type="str">by-hand</name><c type="str"/>'
                b'<sub type="dict"><c type="str"/><deep type="dict"><c type="str"/></deep></sub></config>')
    if variant == "json-spaced":
        assert p == ""
        return b'{ "name" : "by-hand", "c" : "", "sub" : { "c" : "", "deep" : { "c" : "" } } }'
    if fmt == "json":
        return json.dumps(tree).encode()
    if fmt == "yaml":
        import yaml
        return yaml.safe_dump(tree, allow_unicode=True).encode("utf-8")
    if fmt == "pickle":
        return pickle.dumps(tree)
    if fmt == "bson":
        import bson
        return bson.dumps(tree)
    if fmt == "xml":
        x = escape(p)
        return ('<?xml version="1.0" ?><config type="dict"><name type="str">by-hand</name><c type="str">%s</c>'
                '<sub type="dict"><c type="str">%s</c><deep type="dict"><c type="str">%s</c></deep></sub></config>'
                % (x, x, x)).encode("utf-8")
    raise ValueError(fmt)


def check_case(tmp, case):
    from cincoconfig import DigestValue
    fails = []

    def bad(obl, wk, what):
        fails.append((obl, wk, what))

    alg, kind = case["alg"], case["kind"]
    p = _dec(case["secret"])
    pb = _b(p)
    others = [_dec(q) for q in case["others"]]
    cls = case["class"]
    fmt = case.get("fmt")
    fname = os.path.join(tmp, "c09." + (fmt or "x"))

    if kind == "assign":
        schema = _schema(alg)
        cfg = schema()
        wk = "%s|%s" % (cls, fmt)
        for path in PATHS:
            _, e = _call(cfg.__setitem__, path, p)
            if e is not None:
                bad(O_HASH, wk, "assigning the secret to %s raised %s: %s" % (path, type(e).__name__, e))
                return fails
        vals = {path: cfg[path] for path in PATHS}
        for path, v in vals.items():
            if not _check_digest(bad, O_HASH, wk, alg, v, p, path):
                return fails
            _check_challenges(bad, wk, v, p, others, path)
            if _call(lambda: v.algorithm().name)[0] != alg:
                bad(O_HASH, wk + "|algorithm", "%s: stored algorithm is not %s" % (path, alg))
        # fresh salt per assignment (same secret, same field; and across fields)
        cfg.c = p
        again = cfg.c
        salts = [v.salt for v in vals.values()] + [again.salt]
        if len(set(salts)) != len(salts):
            bad(O_SALT, wk, "assignments of the same secret share a salt")
        elif len({v.digest for v in vals.values()} | {again.digest}) != len(salts):
            bad(O_SALT, wk, "assignments of the same secret share a digest")
        vals["c"] = again
        # plaintext absent from memory
        if _searchable(pb):
            if _leaks(cfg, pb) or any(pb in str(v).encode() or pb in repr(tuple(v)[:2]).encode() for v in vals.values()):
                bad(O_MEM, wk, "plaintext found in the in-memory configuration value")
        # serialised forms
        tree = cfg.to_tree()
        flat = {"c": tree["c"], "sub.c": tree["sub"]["c"], "sub.deep.c": tree["sub"]["deep"]["c"]}
        for path, v in vals.items():
            want = {"salt": base64.b64encode(v.salt).decode(), "digest": base64.b64encode(v.digest).decode()}
            if flat[path] != want:
                bad(O_BASIC, wk, "%s: to_tree gives %r, expected base64 salt and digest" % (path, flat[path]))
        if _searchable(pb) and _leaks(tree, pb):
            bad(O_SER, "%s|to_tree" % cls, "plaintext found in to_tree()")
        out, e = _call(cfg.dumps, fmt)
        if e is not None:
            bad(O_SER, wk + "|dumps", "dumps(%s) raised %s: %s" % (fmt, type(e).__name__, e))
            return fails
        if _searchable(pb) and (pb in out or (isinstance(p, str) and
                                             json.dumps(p)[1:-1].encode() in out and fmt == "json")):
            bad(O_SER, wk, "plaintext found in dumps(%s)" % fmt)
        # save -> load into a NEW configuration object
        cfg.save(fname, fmt)
        with open(fname, "rb") as fp:
            on_disk = fp.read()
        if _searchable(pb) and pb in on_disk:
            bad(O_SER, wk + "|file", "plaintext found in the saved %s file" % fmt)
        cfg2 = schema()
        _, e = _call(cfg2.load, fname, fmt)
        if e is not None:
            bad(O_LOAD, wk, "loading the saved %s file raised %s: %s" % (fmt, type(e).__name__, e))
            return fails
        for path, v in vals.items():
            v2 = cfg2[path]
            if not isinstance(v2, DigestValue) or v2.salt != v.salt or v2.digest != v.digest:
                bad(O_LOAD, wk, "%s: salt/digest changed through save/load (%s): %r" % (path, fmt, v2))
                continue
            _check_challenges(bad, wk + "|after-load", v2, p, others, path + " after load")
        out2, e = _call(cfg2.dumps, fmt)
        if e is None and cfg2.to_tree() != tree:
            bad(O_LOAD, wk + "|resave", "tree after load differs from the tree saved")
    elif kind == "handwritten":
        schema = _schema(alg)
        variant = case.get("variant")
        wk = "%s|%s%s" % (cls, fmt, "|" + variant if variant else "")
        looks = cls.startswith("plaintext-looks-like-digest:")
        if looks:
            wk = cls
        content = _handwritten(fmt, p, variant)
        with open(fname, "wb") as fp:
            fp.write(content)
        cfg = schema()
        _, e = _call(cfg.load, fname, fmt)
        if e is not None:
            bad(O_HAND, wk, "loading a %s file with a plaintext secret raised %s: %s" % (fmt, type(e).__name__, e))
            return fails
        salts = []
        for path in PATHS:
            v = cfg[path]
            if v is None:
                bad(O_HAND, wk + "|none", "%s: the hand-written plaintext %r was turned into None instead of being "
                    "hashed" % (path, p))
                continue
            if not _check_digest(bad, O_HAND, wk, alg, v, p, "%s loaded from plaintext" % path):
                continue
            salts.append(v.salt)
            _check_challenges(bad, wk, v, p, others, path + " loaded from plaintext")
            if looks:
                # the string must have been hashed as a plaintext, not taken apart into salt and digest
                halves = [base64.b64decode(h) if _is_b64(h) else None for h in p.split(":", 1)] if ":" in p else []
                if len(halves) == 2 and halves[1] and (v.digest == halves[1] or (halves[0] and v.salt == halves[0])):
                    bad(O_HAND, wk, "[%s] %s: the string was parsed as a stored salt:digest pair" % (fmt, path))
                if _searchable(pb) and (pb in str(v).encode() or pb in repr(tuple(v)[:2]).encode()):
                    bad(O_MEM, wk, "[%s] %s: the hand-written string is the text form of the in-memory value" % (fmt, path))
        if len(set(salts)) != len(salts):
            bad(O_SALT, wk, "plaintexts hashed on load share a salt")
        if _searchable(pb):
            if _leaks(cfg, pb):
                bad(O_MEM, wk, "plaintext kept in memory after loading it from a file")
            for f2 in FORMATS:
                out, e = _call(cfg.dumps, f2)
                if e is None and pb in out:
                    bad(O_SER, wk if looks else "%s|%s|after-handwritten" % (cls, f2),
                        "plaintext written back by dumps(%s)" % f2)
                if e is None and looks and ":" in p:
                    for half in p.split(":", 1):
                        if len(half) >= 12 and half.encode() in out:
                            bad(O_SER, wk, "a half of the hand-written string (%s...) is written back by dumps(%s): "
                                "it was stored as salt or digest" % (half[:12], f2))
    elif kind == "default":
        algo = getattr(hashlib, alg)
        wk = "%s|%s" % (cls, case["as"])
        if case["as"] == "plaintext":
            schema = _schema(alg, default=p)
            obl = O_DEF_P
        else:
            dv = DigestValue.create(p, algo)
            schema = _schema(alg, default=dv)
            obl = O_DEF_D
        cfg, e = _call(schema)
        if e is not None:
            bad(obl, wk, "creating the configuration raised %s: %s" % (type(e).__name__, e))
            return fails
        cfg_b = schema()
        for path in PATHS:
            v = cfg[path]
            if not _check_digest(bad, obl, wk, alg, v, p, "default of " + path):
                continue
            _check_challenges(bad, wk, v, p, others, "default of " + path)
            if case["as"] == "digest" and (v.salt != dv.salt or v.digest != dv.digest):
                bad(obl, wk, "%s: DigestValue default not used as given" % path)
            if case["as"] == "plaintext" and cfg_b[path].salt == v.salt:
                bad(O_SALT, wk, "%s: two configurations hashed the plaintext default with the same salt" % path)
        if case["as"] == "plaintext":
            salts = [cfg[path].salt for path in PATHS]
            if len(set(salts)) != len(salts):
                bad(O_SALT, wk, "plaintext defaults of different fields share a salt")
        if _searchable(pb) and _leaks(cfg, pb):
            bad(O_MEM, wk, "plaintext default found in the configuration's values")
        for f2 in FORMATS:
            out, e = _call(cfg.dumps, f2)
            if e is not None:
                bad(O_SER, wk + "|dumps", "dumps(%s) raised %s" % (f2, type(e).__name__))
                continue
            if _searchable(pb) and pb in out:
                bad(O_SER, "%s|%s|default" % (cls, f2), "plaintext default found in dumps(%s)" % f2)
            cfg2 = schema()
            _, e = _call(cfg2.loads, out, f2)
            if e is not None:
                bad(O_LOAD, wk + "|" + f2, "loads raised %s: %s" % (type(e).__name__, e))
                continue
            for path in PATHS:
                if (cfg2[path].salt, cfg2[path].digest) != (cfg[path].salt, cfg[path].digest):
                    bad(O_LOAD, wk + "|" + f2, "%s: default digest changed through dumps/loads(%s)" % (path, f2))
    else:
        raise ValueError(kind)
    return fails


# ---------------------------------------------------------------------------------------------------------------
def _secrets(rng, tier):
    long_s = "correct horse battery staple / " * 80                         # 2480 chars
    pool = [("str-empty", ""), ("str-1", "a"), ("str-ascii", "hunter2!"), ("str-unicode", "pässwörd ☃ \U0001f511 密码"),
            ("str-long", long_s), ("str-colon", "user:pass:word"), ("str-b64-lookalike", "QUJDREVG:QUJDREVG"),
            ("str-space", " padded secret "), ("str-nul", "nul\x00inside"),
            ("bytes-empty", b""), ("bytes-1", b"\x00"), ("bytes-ascii", b"bytes-secret"),
            ("bytes-nonutf8", b"\xff\xfe non-utf8 \x80\x81"), ("bytes-long", bytes(range(256)) * 12)]
    n = 2 if tier == "quick" else 12
    for i in range(n):
        k = rng.randrange(6, 40)
        pool.append(("str-rand%d" % i, "".join(rng.choice("abcXYZ019 _-äß☃") for _ in range(k))))
        pool.append(("bytes-rand%d" % i, bytes(rng.getrandbits(8) for _ in range(k))))
    return pool


NORM_BASES = [("accent", "caf\u00e9 cr\u00e8me"), ("ligature-fi", "\ufb01anc\u00e9"),
              ("fullwidth", "\uff30\uff41\uff53\uff53\uff57\u00f6\uff52\uff44"), ("superscript", "x\u00b2+y\u00b3=\u00e9"),
              ("ohm-angstrom", "\u2126 \u212b"), ("hangul", "\ube44\ubc00\ubc88\ud638"),
              ("stacked-marks", "a\u0323\u0302 q\u0307\u0323")]
FORMS = ["NFC", "NFD", "NFKC", "NFKD"]


def _norm_secrets():
    """(name, secret, variants): every distinct spelling (as given, NFC, NFD, NFKC, NFKD) of each base string is a
    secret of its own; its variants are the OTHER spellings, which are different code point sequences and therefore
    different secrets"""
    import unicodedata
    out = []
    for bname, base in NORM_BASES:
        spell = {"raw": base}
        for f in FORMS:
            spell[f] = unicodedata.normalize(f, base)
        seen = {}
        for form, text in spell.items():
            seen.setdefault(text, form)
        assert len(seen) >= 2, bname
        for text, form in seen.items():
            out.append(("str-norm-%s-%s" % (bname, form), text, [t for t in seen if t != text]))
    return out


def _others(p, pool, first=()):
    """distinct secrets to challenge with: given variants first, then neighbours of p and the rest of the pool"""
    if isinstance(p, str):
        near = [p + "x", p[:-1], p.swapcase(), p + "\x00", " " + p, p + p, p.encode("utf-8") + b"\x00", ""]
    else:
        near = [p + b"x", p[:-1], p + b"\x00", b"\x00" + p, p + p, bytes(b ^ 1 for b in p), b"", ""]
    out, seen = [], {_b(p)}
    for q in list(first) + near + [s for _, s in pool if len(s) < 64]:
        if _b(q) not in seen:
            seen.add(_b(q))
            out.append(q)
    return out


def _digest_lookalikes(rng, alg):
    """(kind, plaintext string, other secrets that must be refused) - strings a careless loader could mistake for a
    stored 'salt:digest' pair; every one of them is a PLAINTEXT and has to be hashed on load"""
    import hashlib as H
    ds = ALGS[alg]
    rb = lambda n: bytes(rng.getrandbits(8) for _ in range(n))  # noqa: E731
    b64 = lambda b: base64.b64encode(b).decode()  # noqa: E731
    out = []
    for nx in (0, 1, ds, ds + 1):
        x, y = rb(nx), rb(ds)
        out.append(("b64:b64-digest-size-salt-%s" % {0: "0", 1: "1", ds: "digest-size", ds + 1: "digest-size+1"}[nx],
                    b64(x) + ":" + b64(y), [y, x + y, b64(y)]))
    for ny in (ds - 1, ds + 1, 3):
        x, y = rb(ds), rb(ny)
        out.append(("b64:b64-digest-length-%s" % {ds - 1: "minus-1", ds + 1: "plus-1", 3: "3"}[ny],
                    b64(x) + ":" + b64(y), [y, b64(y)]))
    out.append(("colon-alone", ":", ["", "::", b""]))
    out.append(("a-colon-b", "a:b", ["a", "b", "ab", "a:b:"]))
    out.append(("two-colons", "a:b:c", ["a:b", "b:c", "a"]))
    x, y, z = rb(ds), rb(ds), rb(ds)
    out.append(("two-colons-b64", b64(x) + ":" + b64(y) + ":" + b64(z), [b64(x) + ":" + b64(y), y, z]))
    other = "the other secret %d" % rng.randrange(10 ** 6)
    salt = rb(ds)
    dg = H.new(alg, salt + other.encode()).digest()
    out.append(("str-of-digest-of-another-secret", b64(salt) + ":" + b64(dg), [other, other.encode(), dg]))
    return out


def gen_cases(rng, tier):
    for alg in ALGS:
        for kind, text, refused in _digest_lookalikes(rng, alg):
            for fmt in FORMATS:
                yield {"kind": "handwritten", "alg": alg, "secret": _enc(text), "fmt": fmt,
                       "others": [_enc(q) for q in refused + [text + " ", text[:-1], text.lower() + "x"]],
                       "class": "plaintext-looks-like-digest:" + kind}
    pool = _secrets(rng, tier)
    norm = _norm_secrets()
    variants = {name: v for name, _, v in norm}
    pool = pool + [(name, text) for name, text, _ in norm]
    for alg in ALGS:
        for variant, fmt in (("yaml-double-quoted", "yaml"), ("xml-self-closing", "xml"), ("json-spaced", "json")):
            yield {"kind": "handwritten", "alg": alg, "secret": _enc(""), "others": [_enc("x"), _enc(" "), _enc(b"\x00")],
                   "fmt": fmt, "class": "str-empty", "variant": variant}
        for name, p in pool:
            others = [_enc(q) for q in _others(p, pool, variants.get(name, ()))]
            for fmt in FORMATS:
                yield {"kind": "assign", "alg": alg, "secret": _enc(p), "others": others, "fmt": fmt, "class": name}
            if isinstance(p, str):
                for fmt in FORMATS:
                    if fmt == "xml" and "\x00" in p:
                        continue            # XML 1.0 cannot carry a NUL character: no such file can be written
                    yield {"kind": "handwritten", "alg": alg, "secret": _enc(p), "others": others[:10], "fmt": fmt,
                           "class": name}
            if isinstance(p, str):
                yield {"kind": "default", "alg": alg, "secret": _enc(p), "others": others[:10], "as": "plaintext",
                       "class": name}
            yield {"kind": "default", "alg": alg, "secret": _enc(p), "others": others[:10], "as": "digest",
                   "class": name}


def rac(tier: str, seed: int) -> dict:
    rec = Recorder(PID, rule="one case per (kind, algorithm, secret, format): assign+save/load, hand-written "
                   "plaintext file, default (plaintext / DigestValue); each evaluates the clauses at the root and in "
                   "sub-configurations of depth 1 and 2 and challenges with ~25 different secrets",
                   bound="6 algorithms x %d secrets (str: empty, 1 char, ascii, unicode, 2480 chars, with ':', "
                   "base64 look-alike, spaces, NUL; 7 base strings (combining accents, U+FB01 ligature, full-width letters, "
                   "superscript digits, Ohm/Angstrom signs, Hangul, stacked marks) in each distinct spelling raw/NFC/"
                   "NFD/NFKC/NFKD, challenged with all other spellings; bytes: empty, NUL, ascii, non-UTF-8, 3072 bytes; seeded random) "
                   "x 5 formats; hand-written files for every str secret x 5 formats built without the library (no NUL in XML), the empty "
                   "string also as yaml \"\", xml self-closing element and spaced json; absence "
                   "clauses evaluated for secrets >= 6 bytes; per algorithm 12 hand-written STRINGS that look like a stored digest "
                   "(b64(x):b64(y) with len(y) = digest size and len(x) in 0/1/ds/ds+1, other lengths, ':', 'a:b', two "
                   "colons, str() of the DigestValue of another secret) x 5 formats" % ((18 if tier == "quick" else 38) + len(_norm_secrets())),
                   tier=tier, seed=seed)
    with sandbox() as tmp:
        n = 0
        for case in gen_cases(rec.rng, tier):
            if tier != "quick" and rec.out_of_time():
                break
            n += 1
            fs = check_case(tmp, case)
            small = len(case["secret"]["v"]) < 80
            rec.case(key=(case["kind"], case["alg"], case["class"], case.get("fmt") or case.get("as"),
                          case.get("variant")),
                     nontrivial=True,
                     sample=dict(case, others=case["others"][:3]) if small and n % 173 == 1 else None)
            for obl, wk, what in fs:
                rec.violation(obligation=obl, what="[%s] %s" % (case["alg"], what), replay=case, witness_key=wk)
    return rec.result(exhaustive=False)


def replay(case: dict) -> dict:
    with sandbox() as tmp:
        fs = check_case(tmp, case)
    return {"fails": bool(fs), "expected": "no C09 clause fails for this %s case" % case["kind"],
            "observed": [{"obligation": o, "witness_key": k, "what": w} for o, k, w in fs]}
