"""C03 - bounded run-time contract driver: secrets are stored only encrypted and decrypt with the configuration's
key file; every configuration uses the key file of its nearest ancestor that names one.

Cases (JSON dicts) executed by `check_case` against the REAL library, each in an emptied sandbox directory:

  saveload  shape x key-file assignment x build mode x method x format x plaintext
            shape   where the SecureField sits: root, nested schemas (depth 1..3, and all depths at once), config type,
                    schema inside a config type, ListField(Schema) items, schema inside a list item,
                    ListField(ConfigType) items, list inside a nested schema, config type inside a nested schema
            assign  which configurations name a key file: none (default), root, a sub-configuration
                    (`cfg.a._key_filename = p`), root+sub, the config type (make_type(key_filename=p)), root+type
            build   how the first configuration gets its plaintext: 'attr' (attribute assignment / Config objects)
                    or 'tree' (load_tree of a hand-written plaintext tree)
            phase 1 save: output parsed WITHOUT the configuration classes; at every secret location there is exactly
                    {'method': concrete, 'ciphertext': strict base64}; the plaintext occurs nowhere; the ciphertext
                    decrypts - with an independent XOR / AES-256-CBC pipeline - under the bytes of the EXPECTED key
                    file; no other key file was opened or created (builtins.open is wrapped, directory is diffed)
            phase 2 load into a NEW configuration object with the same assignment: every location holds the
                    plaintext again; no other key file was opened or created
  classkey  config types made with make_type(..., key_filename=K1) as sub-configuration / nested / list items; instance
            renamed to K2, parent naming K3; then save, loads / load / load_tree / map assignment into the
            SAME configuration (which rebuilds the sub-configuration), save again, load into a fresh configuration
            given the same names: only the key file of the nearest ancestor that names one is used (instance name
            wins over class-level name).
            NOT enumerated (scoped out): "class-level K1 with the instance set to None". After a rebuild the new
            config-type instance names K1 again by its class declaration; the property speaks about the nearest
            ancestor that names one in the state as it stands and gives no rule that UN-naming a class-level key
            file on one instance has to survive the instance being replaced (the library has no marker for it).
  rekey     histories: the key file named by the root / a sub-configuration is changed (or unset) after the tree has
            (or has not) been used; the next save must use the key file now named by the nearest ancestor
"""
import base64
import builtins
import json
import os
import pickle

from pyvc.raclib import Recorder, sandbox

PID = "C03"
FORMATS = ["json", "yaml", "bson", "pickle", "xml"]
METHODS = ["aes", "xor", "best"]

O_PLAIN = "fields.secure_field:SecureField.to_basic/post:C03.no-plaintext-serialised"
O_SHAPE = "fields.secure_field:SecureField.to_basic/post:C03.method-and-ciphertext"
O_KEY = "core:Config._keyfile/post:C03.nearest-ancestor-key-file"
O_TOUCH = "core:Config._keyfile/post:C03.no-other-key-file-touched"
O_LOAD = "core:Config.load_tree/post:C03.secret-restored"

_REAL_OPEN = builtins.open

PLACE = {"root": "root", "n1": "nested-schema", "n2": "nested-schema", "n3": "nested-schema",
         "n123": "nested-schema", "type": "config-type", "type-inner": "schema-in-config-type",
         "list": "list-item", "list-inner": "schema-in-list-item", "list-type": "list-config-type-item",
         "nested-list": "list-in-nested-schema", "nested-type": "config-type-in-nested-schema",
         "seclist": "list-of-secure-field", "nested-seclist": "list-of-secure-field-in-nested-schema",
         "secdict": "dict-of-secure-field", "nested-secdict": "dict-of-secure-field-in-nested-schema"}
# shapes whose secrets are ITEMS of a container field: the owning configuration is loc[:-2]
CONTAINER = {"seclist", "nested-seclist", "secdict", "nested-secdict"}
SUB_PATH = {"n1": ("a",), "n2": ("a",), "n3": ("a", "b"), "n123": ("a",), "nested-list": ("a",),
            "nested-type": ("a",), "nested-seclist": ("a",), "nested-secdict": ("a",)}
ASSIGNS = {"root": ["default", "root"],
           "n1": ["default", "root", "sub", "root+sub"], "n2": ["default", "root", "sub", "root+sub"],
           "n3": ["default", "root", "sub", "root+sub"], "n123": ["default", "root", "sub", "root+sub"],
           "type": ["default", "root", "type", "root+type"], "type-inner": ["default", "root", "type", "root+type"],
           "list-type": ["default", "root", "type", "root+type"],
           "nested-type": ["default", "root", "type", "root+type", "sub"],
           "list": ["default", "root"], "list-inner": ["default", "root"],
           "nested-list": ["default", "root", "sub"],
           "seclist": ["default", "root"], "secdict": ["default", "root"],
           "nested-seclist": ["default", "root", "sub"], "nested-secdict": ["default", "root", "sub"]}
LOCS = {"root": [("s",)], "n1": [("a", "s")], "n2": [("a", "b", "s")], "n3": [("a", "b", "c", "s")],
        "n123": [("s",), ("a", "s"), ("a", "b", "s"), ("a", "b", "c", "s")],
        "type": [("t", "s")], "type-inner": [("t", "inner", "s")],
        "list": [("l", 0, "s"), ("l", 1, "s")], "list-inner": [("l", 0, "inner", "s")],
        "list-type": [("lt", 0, "s"), ("lt", 1, "s")], "nested-list": [("a", "l", 0, "s")],
        "nested-type": [("a", "t", "s")],
        "seclist": [("sl", 0), ("sl", 1), ("sl", 2)], "nested-seclist": [("a", "sl", 0), ("a", "sl", 1)],
        "secdict": [("sd", "k0"), ("sd", "k1")], "nested-secdict": [("a", "b", "sd", "k0"), ("a", "b", "sd", "k1")]}
TYPE_PREFIX = {"type": ("t",), "type-inner": ("t",), "nested-type": ("a", "t")}      # list-type: the items


# ---------------------------------------------------------------------------------------------------------------
# independent crypto
def _xor(data, key):
    return bytes(b ^ key[i % len(key)] for i, b in enumerate(data))


def _aes_dec(key, blob):
    from cryptography.hazmat.primitives import padding
    from cryptography.hazmat.primitives.ciphers import Cipher, algorithms, modes
    if len(blob) < 32 or len(blob) % 16 or len(key) != 32:
        return None
    d = Cipher(algorithms.AES(key), modes.CBC(blob[:16])).decryptor()
    padded = d.update(blob[16:]) + d.finalize()
    u = padding.PKCS7(128).unpadder()
    try:
        return u.update(padded) + u.finalize()
    except ValueError:
        return None


def _indep_decrypt(method, raw, key):
    if key is None or len(key) != 32:
        return None
    return _xor(raw, key) if method == "xor" else _aes_dec(key, raw)


# ---------------------------------------------------------------------------------------------------------------
class Watch:
    """records every open() of a path below the sandbox; restored on exit"""

    def __init__(self, tmp):
        self.tmp = os.path.abspath(tmp)
        self.log = []

    def hook(self, file, mode="r", *a, **k):
        try:
            p = os.path.abspath(os.fspath(file))
        except TypeError:
            p = None
        if p and p.startswith(self.tmp + os.sep):
            self.log.append((p, mode))
        return _REAL_OPEN(file, mode, *a, **k)

    def __enter__(self):
        self.old = builtins.open
        builtins.open = self.hook
        return self

    def __exit__(self, *a):
        builtins.open = self.old
        return False

    def take(self, exclude=()):
        out = sorted({os.path.basename(p) for p, _ in self.log if p not in exclude})
        self.log = []
        return out


def _clean(tmp):
    for n in os.listdir(tmp):
        p = os.path.join(tmp, n)
        if os.path.isfile(p):
            os.remove(p)


def _read(path):
    try:
        with _REAL_OPEN(path, "rb") as fp:
            return fp.read()
    except FileNotFoundError:
        return None


def _call(fn, *a, **k):
    try:
        return fn(*a, **k), None
    except Exception as e:  # noqa: BLE001 - an observation about the library, classified by the caller
        return None, e


def _exc(e):
    c = e.__cause__
    return "%s(%s)%s" % (type(e).__name__, str(e)[:70], " <- %s" % type(c).__name__ if c is not None else "")


def _get(obj, path):
    for seg in path:
        obj = obj[seg] if isinstance(seg, int) or isinstance(obj, (dict, list)) else getattr(obj, seg)
    return obj


def _tree_get(tree, path):
    for seg in path:
        tree = tree[seg]
    return tree


def _leaks(obj, needle):
    if isinstance(obj, bytes):
        return needle in obj
    if isinstance(obj, str):
        return needle in obj.encode("utf-8", "surrogatepass")
    if isinstance(obj, dict):
        return any(_leaks(k, needle) or _leaks(v, needle) for k, v in obj.items())
    if isinstance(obj, (list, tuple)):
        return any(_leaks(x, needle) for x in obj)
    return False


def _parse(fmt, content, cfg):
    """serialised bytes -> basic tree, without the configuration classes (xml: the library's own formatter)"""
    if fmt == "json":
        return json.loads(content.decode("utf-8"))
    if fmt == "yaml":
        import yaml
        return yaml.safe_load(content.decode("utf-8"))
    if fmt == "pickle":
        return pickle.loads(content)
    if fmt == "bson":
        import bson
        return bson.loads(content)
    from cincoconfig.core import ConfigFormat
    return ConfigFormat.get("xml").loads(cfg, content)


# ---------------------------------------------------------------------------------------------------------------
class Env:
    """schema + key-file layout of one case"""

    def __init__(self, tmp, shape, assign, method, keyfiles):
        from cincoconfig.core import Config
        self.tmp, self.shape, self.assign, self.method = tmp, shape, set(assign.split("+")), method
        self.paths = {"root": os.path.join(tmp, "root.key"), "sub": os.path.join(tmp, "sub.key"),
                      "type": os.path.join(tmp, "type.key"), "other": os.path.join(tmp, "other.key"),
                      "default": Config.DEFAULT_CINCOKEY_FILEPATH}
        for name, hexkey in (keyfiles or {}).items():
            if hexkey is not None:
                with _REAL_OPEN(self.paths[name], "wb") as fp:
                    fp.write(bytes.fromhex(hexkey))
        self.locs = LOCS[shape]
        self.schema = self._schema()

    def _schema(self):
        from cincoconfig import DictField, ListField, Schema, SecureField, StringField, make_type
        m = self.method
        s = Schema()
        s.name = StringField(default="app")
        sh = self.shape
        tkey = self.paths["type"] if "type" in self.assign else None
        self.T = self.item = None
        if sh == "root":
            s.s = SecureField(method=m)
        elif sh == "n1":
            s.a.s = SecureField(method=m)
        elif sh == "n2":
            s.a.b.s = SecureField(method=m)
        elif sh == "n3":
            s.a.b.c.s = SecureField(method=m)
        elif sh == "n123":
            s.s = SecureField(method=m)
            s.a.s = SecureField(method=m)
            s.a.b.s = SecureField(method=m)
            s.a.b.c.s = SecureField(method=m)
        elif sh in ("type", "type-inner", "list-type", "nested-type"):
            ts = Schema()
            ts.label = StringField(default="t")
            if sh == "type-inner":
                ts.inner.s = SecureField(method=m)
            else:
                ts.s = SecureField(method=m)
            self.T = make_type(ts, "SecretType", module=__name__, key_filename=tkey)
            if sh == "list-type":
                s.lt = ListField(self.T)
            elif sh == "nested-type":
                s.a.t = self.T
            else:
                s.t = self.T
        elif sh in ("list", "list-inner", "nested-list"):
            it = Schema()
            it.label = StringField(default="i")
            if sh == "list-inner":
                it.inner.s = SecureField(method=m)
            else:
                it.s = SecureField(method=m)
            self.item = it
            if sh == "nested-list":
                s.a.l = ListField(it)
            else:
                s.l = ListField(it)
        elif sh == "seclist":
            s.sl = ListField(SecureField(method=m))
        elif sh == "nested-seclist":
            s.a.sl = ListField(SecureField(method=m))
        elif sh == "secdict":
            s.sd = DictField(value_field=SecureField(method=m))
        elif sh == "nested-secdict":
            s.a.b.sd = DictField(value_field=SecureField(method=m))
        else:
            raise ValueError(sh)
        return s

    def new_config(self):
        """a NEW configuration object with the case's key-file assignment applied"""
        cfg = self.schema(key_filename=self.paths["root"]) if "root" in self.assign else self.schema()
        if "sub" in self.assign:
            _get(cfg, SUB_PATH[self.shape])._key_filename = self.paths["sub"]
        return cfg

    def expected(self, loc, assign=None):
        """name of the key file the configuration owning `loc` has to use: nearest ancestor that names one"""
        assign = self.assign if assign is None else assign
        owner = loc[:-2] if self.shape in CONTAINER else loc[:-1]
        for n in range(len(owner), -1, -1):
            pre = owner[:n]
            if n < len(owner) and isinstance(owner[n], int):
                continue                                     # `pre` is the list, not a configuration
            if "type" in assign and (TYPE_PREFIX.get(self.shape) == pre or
                                     (self.shape == "list-type" and len(pre) == 2)):
                return "type"
            if "sub" in assign and SUB_PATH.get(self.shape) == pre:
                return "sub"
            if "root" in assign and pre == ():
                return "root"
        return "default"

    def populate(self, cfg, plains, build):
        if build == "tree":
            tree = {}
            for loc, p in zip(self.locs, plains):
                node = tree
                for i, seg in enumerate(loc[:-1]):
                    nxt = loc[i + 1]
                    if isinstance(seg, int):
                        while len(node) <= seg:
                            node.append({})
                        node = node[seg]
                    else:
                        node = node.setdefault(seg, [] if isinstance(nxt, int) else {})
                if isinstance(loc[-1], int):
                    while len(node) <= loc[-1]:
                        node.append(None)
                node[loc[-1]] = p
            cfg.load_tree(tree)
            # the sub-configuration objects were replaced by load_tree: name the sub key file again
            if "sub" in self.assign:
                _get(cfg, SUB_PATH[self.shape])._key_filename = self.paths["sub"]
            return
        sh = self.shape
        if sh in ("list", "list-inner", "nested-list"):
            items = []
            for loc, p in zip(self.locs, plains):
                item = self.item()
                if sh == "list-inner":
                    item.inner.s = p
                else:
                    item.s = p
                items.append(item)
            if sh == "nested-list":
                cfg.a.l = items
            else:
                cfg.l = items
        elif sh == "list-type":
            cfg.lt = [self.T(s=p) for p in plains]
        elif sh in CONTAINER:
            field_path = self.locs[0][:-1]
            if sh.endswith("seclist"):
                cfg[".".join(field_path)] = list(plains)
            else:
                cfg[".".join(field_path)] = {loc[-1]: p for loc, p in zip(self.locs, plains)}
        else:
            for loc, p in zip(self.locs, plains):
                cfg[".".join(loc)] = p

    def key_files_present(self):
        return sorted(n for n in os.listdir(self.tmp) if n.endswith(".key") or n == ".cincokey")

    def name_of(self, basename):
        for k, p in self.paths.items():
            if os.path.basename(p) == basename:
                return k
        return basename

    def who_decrypts(self, method, raw, plain):
        out = []
        for k, p in sorted(self.paths.items()):
            if _indep_decrypt(method, raw, _read(p)) == plain:
                out.append(k)
        return out


def _check_saved(env, tree, plains, bad, wk, expected_of):
    """clauses on a parsed serialised tree; returns True when every location is encrypted under its expected file"""
    ok = True
    for loc, p in zip(env.locs, plains):
        pb = p.encode("utf-8")
        where = ".".join(str(x) for x in loc)
        node, e = _call(_tree_get, tree, loc)
        want_method = "xor" if env.method == "xor" else "aes"
        if e is not None or not isinstance(node, dict) or set(node) != {"method", "ciphertext"} or \
                node.get("method") != want_method or not isinstance(node.get("ciphertext"), str):
            bad(O_SHAPE, wk, "%s: serialised value is %r, expected {'method': %r, 'ciphertext': <base64>}"
                % (where, node if e is None else _exc(e), want_method))
            ok = False
            continue
        raw, e = _call(base64.b64decode, node["ciphertext"], validate=True)
        if e is not None:
            bad(O_SHAPE, wk + "|b64", "%s: ciphertext is not strict base64" % where)
            ok = False
            continue
        exp = expected_of(loc)
        got = _indep_decrypt(node["method"], raw, _read(env.paths[exp]))
        if got != pb:
            used = env.who_decrypts(node["method"], raw, pb)
            bad(O_KEY, wk, "%s: ciphertext does not decrypt under the expected key file <%s> (decrypts under: %s; "
                "key files present: %s)" % (where, exp, used or "none", env.key_files_present()))
            ok = False
    return ok


def check_case(tmp, case):
    fails = []
    _clean(tmp)
    shape, assign, method = case["shape"], case["assign"], case["method"]
    place = PLACE[shape]
    env = Env(tmp, shape, assign, method, case.get("keyfiles"))
    if case.get("nbytes"):
        plains = [exact_plain(case["nbytes"], i, case["multibyte"]) for i in range(len(env.locs))]
    else:
        plains = ["%s#%d" % (case["plain"], i) for i in range(len(env.locs))]
    # a plaintext of a few bytes occurs in any output by chance: absence is evaluated from 6 bytes on (the
    # structural clause - exactly {'method', 'ciphertext'} at the location - is evaluated for every length)
    searchable = [p for p in plains if len(p.encode("utf-8")) >= 6]
    lensfx = "|bytes=%d|%s" % (case["nbytes"], "utf8-multibyte" if case["multibyte"] else "ascii") \
        if case.get("nbytes") else ""

    def bad(obl, wk, what):
        fails.append((obl, wk, what))

    def touched_ok(w, phase, wk, expect_names, before, exclude=()):
        """key files opened since the last take() and key files that appeared since `before` must be expected ones"""
        seen = [env.name_of(b) for b in w.take(exclude)]
        extra = sorted(set(seen) - set(expect_names))
        present = [env.name_of(b) for b in env.key_files_present()]
        created_extra = sorted(set(present) - set(expect_names) - set(before))
        if extra or created_extra:
            bad(O_TOUCH, wk, "%s: key files opened %s / created %s, expected only %s"
                % (phase, extra or "-", created_extra or "-", sorted(expect_names)))
            return False
        return True

    def present_now():
        return [env.name_of(b) for b in env.key_files_present()]

    def klass(phase, locs_failing=None):
        """stable id of the failing input class: phase + where the secret sits (+ whether the key file is named by
        a sub-configuration, which load replaces by a new object)"""
        sub = any(env.expected(loc) == "sub" for loc in env.locs)
        return "%s|%s%s%s" % (phase, place, "|sub-config-names-key-file" if sub else "", lensfx)

    if case["kind"] == "saveload":
        fmt, build = case["fmt"], case["build"]
        exp_names = {env.expected(loc) for loc in env.locs}
        cfile = os.path.join(tmp, "config." + fmt)
        with Watch(tmp) as w:
            # ---- phase 1: build + save
            cfg1 = env.new_config()
            env.populate(cfg1, plains, build)
            w.take()                        # building a configuration from plaintext needs no key file at all
            wk1 = klass("save-built-from-%s" % build)
            before = present_now()
            _, e = _call(cfg1.save, cfile, fmt)
            if e is not None:
                bad(O_SHAPE, wk1 + "|raised", "save(%s) raised %s" % (fmt, _exc(e)))
                return fails
            content = _read(cfile)
            t_ok = touched_ok(w, "save", wk1, exp_names, before, exclude=(cfile,))
            for p in searchable:
                pb = p.encode("utf-8")
                if pb in content or json.dumps(p)[1:-1].encode() in content:
                    bad(O_PLAIN, "%s|%s" % (place, fmt), "plaintext occurs in the %s output" % fmt)
            tree = _parse(fmt, content, cfg1)
            for p in searchable:
                if _leaks(tree, p.encode("utf-8")):
                    bad(O_PLAIN, "%s|%s|parsed" % (place, fmt), "plaintext occurs in the parsed %s output" % fmt)
            s_ok = _check_saved(env, tree, plains, bad, wk1, env.expected)
            if not (s_ok and t_ok):
                return fails                # the file is not what phase 2 presupposes
            # ---- phase 2: load into a NEW configuration object (new KeyFile objects, new sessions)
            wk2 = klass("load")
            cfg2 = env.new_config()
            w.take()
            before = present_now()
            _, e = _call(cfg2.load, cfile, fmt)
            l_ok = touched_ok(w, "load", wk2, exp_names, before, exclude=(cfile,))
            if e is not None:
                bad(O_LOAD, wk2, "load(%s) of the file just saved raised %s" % (fmt, _exc(e)))
                return fails
            for loc, p in zip(env.locs, plains):
                v, e = _call(_get, cfg2, loc)
                if e is not None or v != p or type(v) is not str:
                    bad(O_LOAD, wk2, "%s after load is %s, expected the whole plaintext (%d bytes)"
                        % (".".join(map(str, loc)), _exc(e) if e is not None else repr(v)[:60],
                           len(p.encode("utf-8"))))
                    l_ok = False
            if not l_ok:
                return fails
            # the loaded configuration must save under the same key files again
            w.take()
            out3, e = _call(cfg2.dumps, fmt)
            wk3 = klass("save-after-load")
            before = present_now()
            if e is not None:
                bad(O_SHAPE, wk3 + "|raised", "dumps after load raised %s" % _exc(e))
            else:
                touched_ok(w, "save after load", wk3, exp_names, before)
                _check_saved(env, _parse(fmt, out3, cfg2), plains, bad, wk3, env.expected)
    elif case["kind"] == "rekey":
        mode, used = case["mode"], case["used"]
        fmt = case["fmt"]
        with Watch(tmp) as w:
            cfg = env.new_config()
            env.populate(cfg, plains, "attr")
            w.take()
            wk = "key-file-of-%s-changed|%s" % ("root" if mode.startswith("root") else "sub-config",
                                                "tree-used-before" if used else "tree-not-used-before")
            if used:
                out, e = _call(cfg.dumps, fmt)
                if e is not None or not _check_saved(env, _parse(fmt, out, cfg), plains, bad,
                                                     klass("rekey-setup"), env.expected):
                    return fails
                w.take()
            if mode == "root->other":
                cfg._key_filename = env.paths["other"]
                new_assign = (env.assign - {"root"}) | {"other"}
            elif mode == "root->unset":
                cfg._key_filename = None
                new_assign = env.assign - {"root"}
            elif mode == "sub-set":
                _get(cfg, SUB_PATH[shape])._key_filename = env.paths["sub"]
                new_assign = env.assign | {"sub"}
            elif mode == "sub-unset":
                _get(cfg, SUB_PATH[shape])._key_filename = None
                new_assign = env.assign - {"sub"}
            else:
                raise ValueError(mode)

            def expected_now(loc):
                if "other" in new_assign:
                    r = env.expected(loc, (new_assign - {"other"}) | {"root"})
                    return "other" if r == "root" else r
                return env.expected(loc, new_assign)

            exp_names = {expected_now(loc) for loc in env.locs}
            before = present_now()
            out, e = _call(cfg.dumps, fmt)
            if e is not None:
                bad(O_KEY, wk + "|raised", "dumps after changing the key file raised %s" % _exc(e))
                return fails
            touched_ok(w, "save after key-file change", wk, exp_names, before)
            _check_saved(env, _parse(fmt, out, cfg), plains, bad, wk, expected_now)
    elif case["kind"] == "classkey":
        # the config type names key file K1 at CLASS level (make_type(..., key_filename=K1) -> <type>); the instance
        # may be renamed (<sub> = K2, or None = inherit) and the parent may name <root>; the sub-configuration is
        # then rebuilt by loading / assigning a map into the SAME configuration; the names must persist
        names, op, fmt = case["names"], case["op"], case["fmt"]
        tpath = {"type": ("t",), "nested-type": ("a", "t"), "list-type": None}[shape]
        if "instance-K2" in names:
            exp = "sub"
        elif "instance-None" in names:
            exp = "root" if "parent" in names else "default"
        else:
            exp = "type"
        exp_names = {exp}
        wk = "class-level-key-file:%s/%s" % (names, op)

        def make():
            cfg = env.new_config()                  # root named iff 'root' in assign
            if tpath is not None:
                if "instance-K2" in names:
                    _get(cfg, tpath)._key_filename = env.paths["sub"]
                elif "instance-None" in names:
                    _get(cfg, tpath)._key_filename = None
            return cfg

        def values_ok(cfg, phase, want):
            ok = True
            for loc, p in zip(env.locs, want):
                v, e = _call(_get, cfg, loc)
                if e is not None or v != p:
                    bad(O_LOAD, wk, "%s: %s is %s, expected the plaintext" % (
                        phase, ".".join(map(str, loc)), _exc(e) if e is not None else repr(v)[:50]))
                    ok = False
            return ok

        with Watch(tmp) as w:
            cfg = make()
            env.populate(cfg, plains, "attr")
            w.take()
            before = present_now()
            doc1, e = _call(cfg.dumps, fmt)
            if e is not None:
                bad(O_SHAPE, wk + "|raised", "first save raised %s" % _exc(e))
                return fails
            ok = touched_ok(w, "first save", wk, exp_names, before)
            tree1 = _parse(fmt, doc1, cfg)
            if not (_check_saved(env, tree1, plains, bad, wk, lambda loc: exp) and ok):
                return fails
            # ---- rebuild the sub-configuration inside the SAME configuration
            want = plains
            before = present_now()
            if op == "save":
                e = None
            elif op == "loads-same":
                _, e = _call(cfg.loads, doc1, fmt)
            elif op == "load-file-same":
                cfile = os.path.join(tmp, "config." + fmt)
                with _REAL_OPEN(cfile, "wb") as fp:
                    fp.write(doc1)
                _, e = _call(cfg.load, cfile, fmt)
                w.log = [x for x in w.log if x[0] != cfile]
            elif op == "load_tree-encrypted":
                _, e = _call(cfg.load_tree, tree1)
            elif op == "load_tree-plain":
                want = [p + "~2" for p in plains]
                pt = {}
                for loc, p in zip(env.locs, want):
                    node = pt
                    for i, seg in enumerate(loc[:-1]):
                        if isinstance(seg, int):
                            while len(node) <= seg:
                                node.append({})
                            node = node[seg]
                        else:
                            node = node.setdefault(seg, [] if isinstance(loc[i + 1], int) else {})
                    node[loc[-1]] = p
                _, e = _call(cfg.load_tree, pt)
            elif op in ("assign-map-plain", "assign-map-encrypted"):
                # assignment of a map (list of maps) to the sub-configuration field itself
                fpath = env.locs[0][:1] if shape == "list-type" else tpath
                if op == "assign-map-plain":
                    want = [p + "~3" for p in plains]
                    val = [{"s": p} for p in want] if shape == "list-type" else {"s": want[0]}
                else:
                    val = _tree_get(tree1, fpath)
                _, e = _call(cfg.__setitem__, ".".join(fpath), val)
            else:
                raise ValueError(op)
            if e is not None:
                touched_ok(w, op, wk, exp_names, before)
                bad(O_LOAD, wk, "%s into the same configuration raised %s" % (op, _exc(e)))
                return fails
            ok = touched_ok(w, op, wk, exp_names, before)
            if not (values_ok(cfg, "after " + op, want) and ok):
                return fails
            # ---- save again: still the same key file
            before = present_now()
            doc2, e = _call(cfg.dumps, fmt)
            if e is not None:
                bad(O_SHAPE, wk + "|raised", "save after %s raised %s" % (op, _exc(e)))
                return fails
            ok = touched_ok(w, "save after " + op, wk, exp_names, before)
            if not (_check_saved(env, _parse(fmt, doc2, cfg), want, bad, wk, lambda loc: exp) and ok):
                return fails
            # ---- fresh configuration given the same names
            cfg2 = make()
            w.take()
            before = present_now()
            _, e = _call(cfg2.loads, doc2, fmt)
            touched_ok(w, "load into a fresh configuration", wk, exp_names, before)
            if e is not None:
                bad(O_LOAD, wk, "fresh configuration with the same names: loads raised %s" % _exc(e))
                return fails
            values_ok(cfg2, "fresh configuration", want)
    else:
        raise ValueError(case["kind"])
    return fails


# ---------------------------------------------------------------------------------------------------------------
PLAINS = ["hunter2-sekrit", "pässwörd ☃ \U0001f511", "x", "correct horse battery staple, " * 10]
LENGTHS = [1, 15, 16, 17, 31, 32, 33, 48, 64, 100]


def exact_plain(nbytes, index, multibyte):
    """a secret of exactly `nbytes` UTF-8 bytes that starts with the location index; multibyte: 2-, 3- and 4-byte
    code points (needs nbytes >= 3)"""
    head = str(index)
    if not multibyte:
        fill = "abcdefghijklmnopqrstuvwxyzABCDEFGHIJKLMNOPQRSTUVWXYZ"
        return (head + fill * 3)[:nbytes]
    out, left, i = head, nbytes - 1, 0
    units = ["\u00e9", "\u2603", "\U0001f511", "\u00df", "\u5bc6"]          # 2, 3, 4, 2, 3 bytes
    while left > 0:
        u = units[i % len(units)]
        n = len(u.encode("utf-8"))
        if n > left:
            u = {1: "z", 2: "\u00e4", 3: "\u20ac"}[left]
            n = left
        out += u
        left -= n
        i += 1
    assert len(out.encode("utf-8")) == nbytes
    return out


def gen_cases(rng, tier):
    rk = lambda: bytes(rng.getrandbits(8) for _ in range(32)).hex()  # noqa: E731
    n = 0
    for shape in LOCS:
        for assign in ASSIGNS[shape]:
            for build in ("attr", "tree"):
                for method in METHODS:
                    for fmt in FORMATS:
                        plains = PLAINS if tier != "quick" else [PLAINS[n % 4], PLAINS[(n + 2) % 4]]
                        for plain in plains:
                            n += 1
                            # half of the cases start from existing key files, half let the library create them
                            pre = n % 2 == 0
                            kf = {k: (rk() if pre else None) for k in ("root", "sub", "type", "default")}
                            yield {"kind": "saveload", "shape": shape, "assign": assign, "build": build,
                                   "method": method, "fmt": fmt, "plain": plain, "keyfiles": kf}
    # ---- exact plaintext lengths around the AES block / key size, at every placement, new session round trip
    for shape in LOCS:
        for nbytes in LENGTHS:
            for multibyte in (False, True):
                if multibyte and nbytes < 3:
                    continue
                for method in METHODS:
                    n += 1
                    kf = {k: (rk() if n % 2 == 0 else None) for k in ("root", "sub", "type", "default")}
                    yield {"kind": "saveload", "shape": shape, "assign": "root", "build": "attr" if n % 3 else "tree",
                           "method": method, "fmt": FORMATS[n % 5], "plain": "", "nbytes": nbytes,
                           "multibyte": multibyte, "keyfiles": kf}
    # ---- class-level key files (make_type(..., key_filename=K1)), instance renaming, rebuilding in place
    # the namings "+instance-None" (class-level name un-named on one instance) are scoped out: see module docstring
    ck_names = {"type": ["class-K1", "class-K1+instance-K2", "class-K1+parent-K3", "class-K1+instance-K2+parent-K3"],
                "list-type": ["class-K1", "class-K1+parent-K3"]}
    ck_names["nested-type"] = ck_names["type"]
    ck_ops = ["save", "loads-same", "load-file-same", "load_tree-encrypted", "load_tree-plain", "assign-map-plain",
              "assign-map-encrypted"]
    for shape in ("type", "nested-type", "list-type"):
        for names in ck_names[shape]:
            for op in ck_ops:
                for method in METHODS:
                    for fmt in (FORMATS if tier != "quick" else [FORMATS[n % 5], FORMATS[(n + 2) % 5]]):
                        n += 1
                        kf = {k: (rk() if n % 2 == 0 else None) for k in ("root", "sub", "type", "default")}
                        yield {"kind": "classkey", "shape": shape, "assign": "root+type" if "parent" in names else "type",
                               "names": names, "op": op, "method": method, "fmt": fmt, "plain": PLAINS[n % 2],
                               "keyfiles": kf}
    rekeys = [("root", "root", "root->other"), ("root", "root", "root->unset"),
              ("n1", "root", "root->other"), ("n1", "root", "root->unset"),
              ("n2", "root", "root->other"), ("n3", "root", "root->other"), ("n123", "root", "root->other"),
              ("n2", "root", "sub-set"), ("n3", "default", "sub-set"), ("n2", "root+sub", "sub-unset"),
              ("n3", "sub", "sub-unset"),
              ("type", "root", "root->other"), ("type", "root", "root->unset"), ("type-inner", "root", "root->other"),
              ("type", "root+type", "root->other"),
              ("list", "root", "root->other"), ("list-inner", "root", "root->other"),
              ("list-type", "root", "root->other"), ("nested-list", "root", "root->other"),
              ("nested-list", "root", "sub-set"), ("nested-type", "root", "root->other")]
    for shape, assign, mode in rekeys:
        for used in (True, False):
            for method in METHODS:
                for fmt in (FORMATS if tier != "quick" else ["json", "pickle"]):
                    n += 1
                    pre = n % 2 == 0
                    kf = {k: (rk() if pre else None) for k in ("root", "sub", "type", "default", "other")}
                    yield {"kind": "rekey", "shape": shape, "assign": assign, "mode": mode, "used": used,
                           "method": method, "fmt": fmt, "plain": PLAINS[n % 2], "keyfiles": kf}


def rac(tier: str, seed: int) -> dict:
    rec = Recorder(PID, rule="one case per (shape, key-file assignment, build mode, method, format[, plaintext]) "
                   "save+load, and per (shape, assignment, key-file change, used before?, method, format) history; "
                   "every case checks all secret locations of its shape against an independent decryption under the "
                   "expected key file and against the log of opened/created key files",
                   bound="16 shapes (root; nested depth 1,2,3, all depths; config type; schema in config type; "
                   "list-of-schema items; schema in list item; list-of-config-type items; list in nested schema; "
                   "config type in nested schema; ListField(SecureField) and DictField(value_field=SecureField) at "
                   "the root and nested) x 2-5 key-file assignments (default/root/sub/root+sub/type/"
                   "root+type) x build {attr, tree} x methods aes/xor/best x 5 formats; plaintexts ascii/unicode/"
                   "1 char/300 chars (2 of the 4 per combination in quick, rotating); key files pre-existing or created by the library "
                   "(alternating); exact secret lengths 1,15,16,17,31,32,33,48,64,100 bytes (ASCII and 2/3/4-byte UTF-8) x 16 "
                   "shapes x 3 methods (root key file, format and build mode rotating); class-level key files: 3 shapes x namings {class-K1, +instance-K2, +parent-K3, "
                   "+instance-K2+parent-K3; list items: class-K1, +parent-K3} x 7 in-place rebuild histories x 3 methods "
                   "x 2 formats (un-naming the class-level key file on one instance - instance set to None - is scoped "
                   "out: the property gives no rule that it survives the instance being rebuilt); 21 key-file-change histories x used/not used x 3 methods x %s formats"
                   % ("2" if tier == "quick" else "5"), tier=tier, seed=seed)
    with sandbox() as tmp:
        n = 0
        for case in gen_cases(rec.rng, tier):
            if tier != "quick" and rec.out_of_time():
                break
            n += 1
            fs = check_case(tmp, case)
            key = tuple(case[k] for k in ("kind", "shape", "assign", "method", "fmt")) + \
                (case.get("build"), case.get("mode"), case.get("used"), case["plain"][:8], case.get("nbytes"),
                 case.get("multibyte"), case.get("names"), case.get("op"))
            rec.case(key=key, nontrivial=True,
                     sample=dict(case, keyfiles="...") if n % 397 == 1 else None)
            for obl, wk, what in fs:
                rec.violation(obligation=obl, what="[%s %s %s] %s" % (case["shape"], method_fmt(case), case["assign"],
                                                                       what), replay=case, witness_key=wk)
    return rec.result(exhaustive=False)


def method_fmt(case):
    return "%s/%s" % (case["method"], case["fmt"])


def replay(case: dict) -> dict:
    with sandbox() as tmp:
        fs = check_case(tmp, case)
    return {"fails": bool(fs), "expected": "no C03 clause fails for this %s case" % case["kind"],
            "observed": [{"obligation": o, "witness_key": k, "what": w} for o, k, w in fs]}
