"""C07 - bounded run-time contract driver: key files are used verbatim, created once, rejected if malformed,
never retained.

All properly nested operation sequences over one key-file path are executed against the REAL
cincoconfig.encryption.KeyFile next to a small reference model (content of the file, nesting depth, key of the
open session).  After every step the clauses of the property are evaluated on the real object / real file.
Enumeration is a depth-first walk that undoes a step by restoring the object's __dict__ and the file, every
failure found that way is re-executed from scratch (fresh sandbox, fresh object) before it is reported.
"""
import builtins
import copy
import errno
import os

from pyvc.raclib import Recorder, sandbox

PID = "C07"

# external states of the key file ("nodir" = file absent and its directory unwritable)
KINDS = ["absent", "valid", "other", "empty", "short31", "long33", "nodir"]
EXT_OPS = ["ext:" + k for k in KINDS]

O_VERBATIM = "encryption:KeyFile.__enter__/post:C07.verbatim"
O_CREATED = "encryption:KeyFile.__enter__/post:C07.created-once"
O_REJECT = "encryption:KeyFile.__enter__/raise:C07.malformed-rejected-every-attempt"
O_UNCREATABLE = "encryption:KeyFile.__enter__/raise:C07.uncreatable-file-raises"
O_FAILED_STATE = "encryption:KeyFile.__enter__/raise:C07.no-key-retained"
O_NESTED = "encryption:KeyFile.__enter__/post:C07.nested-share-key"
O_EXIT = "encryption:KeyFile.__exit__/post:C07.key-cleared-at-zero"
O_EXIT_KEEP = "encryption:KeyFile.__exit__/post:C07.key-kept-while-open"
O_CLOSED_ENC = "encryption:KeyFile.encrypt/raise:C07.only-while-open"
O_CLOSED_DEC = "encryption:KeyFile.decrypt/raise:C07.only-while-open"
O_ENC_KEY = "encryption:KeyFile.encrypt/post:C07.uses-session-key"
O_DEC_KEY = "encryption:KeyFile.decrypt/post:C07.uses-session-key"
O_FILE = "encryption:KeyFile/inv:C07.key-file-never-modified"
O_NOKEY = "encryption:KeyFile/inv:C07.closed-holds-no-key"
O_NEW = "encryption:KeyFile.__init__/post:C07.init"

SOFT = {O_FAILED_STATE, O_NOKEY, O_CLOSED_ENC, O_CLOSED_DEC}

PROBE = bytes(range(64, 64 + 40))          # 40 > 32 bytes: shows the whole key and its repetition
_REAL_OPEN = builtins.open


def _xor(data, key):
    return bytes(b ^ key[i % len(key)] for i, b in enumerate(data))


def _aes():
    try:
        from cryptography.hazmat.primitives import padding
        from cryptography.hazmat.primitives.ciphers import Cipher, algorithms, modes
    except ImportError:
        return None
    return padding, Cipher, algorithms, modes


def _aes_enc(key, iv, text):
    padding, Cipher, algorithms, modes = _aes()
    p = padding.PKCS7(128).padder()
    padded = p.update(text) + p.finalize()
    e = Cipher(algorithms.AES(key), modes.CBC(iv)).encryptor()
    return iv + e.update(padded) + e.finalize()


def _aes_dec(key, blob):
    padding, Cipher, algorithms, modes = _aes()
    d = Cipher(algorithms.AES(key), modes.CBC(blob[:16])).decryptor()
    padded = d.update(blob[16:]) + d.finalize()
    u = padding.PKCS7(128).unpadder()
    return u.update(padded) + u.finalize()


def _contains_bytes(v, depth=0):
    """any non-empty bytes-like object reachable from an attribute value"""
    if isinstance(v, (bytes, bytearray, memoryview)):
        return len(v) > 0
    if depth < 3 and isinstance(v, (list, tuple, set, frozenset)):
        return any(_contains_bytes(x, depth + 1) for x in v)
    if depth < 3 and isinstance(v, dict):
        return any(_contains_bytes(x, depth + 1) for x in list(v.keys()) + list(v.values()))
    return False


def almost_valid(k):
    """name -> content of key files that are ALMOST a valid key k.  Only the SIZE decides: exactly 32 bytes is a key
    and is used verbatim (whatever the bytes are), every other size is malformed"""
    import base64
    tails = {"lf": b"\n", "crlf": b"\r\n", "3lf": b"\n\n\n", "space": b" ", "nul": b"\x00", "tab": b"\t"}
    out = {}
    for n, t in tails.items():
        out["key+" + n] = k + t
    for n, t in tails.items():
        out[n + "+key"] = t + k
    out["whitespace+key+whitespace"] = b" \n" + k + b"\n "
    out["crlf+key+crlf"] = b"\r\n" + k + b"\r\n"
    out["valid32-ends-in-crlf"] = k[:30] + b"\r\n"
    out["valid32-ends-in-lf"] = k[:31] + b"\n"
    out["valid32-ends-in-spaces"] = k[:28] + b"    "
    out["valid32-ends-in-nul"] = k[:31] + b"\x00"
    out["valid32-starts-with-newline"] = b"\n" + k[:31]
    out["valid32-all-spaces"] = b" " * 32
    out["valid32-all-whitespace-mix"] = b" \t\r\n" * 8
    out["valid32-all-nul"] = bytes(32)
    out["key-twice-64"] = k + k
    out["key+1-byte-33"] = k + b"\x5a"
    out["hex-text-64"] = k.hex().encode()
    out["base64-text-44"] = base64.b64encode(k)
    return out


def _forms(key):
    """the spellings of a key that count as key material"""
    import base64
    return {"raw": key, "hex": key.hex().encode(), "HEX": key.hex().upper().encode(),
            "base64": base64.b64encode(key).rstrip(b"="), "urlsafe-base64": base64.urlsafe_b64encode(key).rstrip(b"=")}


def find_key_material(root, keys, maxdepth=6):
    """walk every object reachable from `root` (instance __dict__ / __slots__, dict keys and values, list / tuple / set
    items, bound-method __self__, functools.partial parts, closure cells and defaults of functions; NOT modules,
    classes, function globals) and return [(where, form)] for each bytes / bytearray / memoryview / str / sequence of
    small ints that equals or contains one of `keys` (raw, hex or base64)"""
    import functools
    import types
    needles = [(form, n) for k in keys for form, n in _forms(k).items()]
    hits, seen = [], set()

    def scan(data, where):
        for form, n in needles:
            if n and n in data:
                hits.append((where, form))
                return

    def visit(o, where, d):
        if isinstance(o, (bytes, bytearray)):
            return scan(bytes(o), where)
        if isinstance(o, memoryview):
            return scan(o.tobytes(), where)
        if isinstance(o, str):
            return scan(o.encode("latin-1", "backslashreplace"), where)
        if o is None or isinstance(o, (bool, int, float, complex, types.ModuleType, type)):
            return None
        if id(o) in seen or d > maxdepth:
            return None
        seen.add(id(o))
        if isinstance(o, dict):
            for k, v in list(o.items()):
                visit(k, where + "{key}", d + 1)
                visit(v, "%s[%s]" % (where, k if isinstance(k, (str, int)) else type(k).__name__), d + 1)
        elif isinstance(o, (list, tuple, set, frozenset)) or type(o).__name__ in ("deque", "array"):
            items = list(o)
            if items and all(isinstance(x, int) and not isinstance(x, bool) and 0 <= x < 256 for x in items):
                scan(bytes(items), where + "<ints>")
            for x in items:
                visit(x, where + "[]", d + 1)
        elif isinstance(o, types.MethodType):
            visit(o.__self__, where + ".__self__", d + 1)
            visit(o.__func__, where + ".__func__", d + 1)
        elif isinstance(o, types.FunctionType):
            for c in o.__closure__ or ():
                try:
                    visit(c.cell_contents, where + "<closure>", d + 1)
                except ValueError:
                    pass
            visit(o.__defaults__, where + "<defaults>", d + 1)
            visit(o.__kwdefaults__, where + "<kwdefaults>", d + 1)
        elif isinstance(o, functools.partial):
            visit(o.func, where + ".func", d + 1)
            visit(o.args, where + ".args", d + 1)
            visit(o.keywords, where + ".keywords", d + 1)
        else:
            attrs = dict(getattr(o, "__dict__", None) or {})
            for cls in type(o).__mro__:
                for name in getattr(cls, "__slots__", ()) or ():
                    if isinstance(name, str) and hasattr(o, name):
                        attrs.setdefault(name, getattr(o, name))
            for name, v in attrs.items():
                visit(v, "%s.%s" % (where, name) if where else name, d + 1)

    visit(root, "", 0)
    return hits


class World:
    """the real object + real file, and the reference model beside them"""

    def __init__(self, tmp, k1, k2):
        import cincoconfig.encryption as enc
        self.enc = enc
        self.dir = os.path.join(tmp, "kd")
        os.makedirs(self.dir, exist_ok=True)
        self.path = os.path.join(self.dir, "app.key")
        self.k1, self.k2 = k1, k2
        self.extra = almost_valid(k1)
        self.almost = None         # name of the almost-valid kind this history is about (witness keys, lean op set)
        self.opens = []            # (mode) of every open() of the key path made by the library in the current step
        self.reset("absent")

    # ---- model + environment -------------------------------------------------------------------------------
    def reset(self, kind):
        self.obj = self.enc.KeyFile(self.path)
        self.depth = 0
        self.skey = None
        self.used = False          # object has been opened (successfully or not) before
        self.failed = False        # object has had a failed open
        self.made = []             # (key, method, ciphertext, plaintext) produced by the library so far
        self.created = []          # keys the library generated along this history
        self.set_disk(kind)

    def content_of(self, kind):
        if kind in self.extra:
            return self.extra[kind]
        return {"absent": None, "nodir": None, "valid": self.k1, "other": self.k2, "empty": b"",
                "short31": self.k1[:31], "long33": self.k1 + b"\x07"}[kind]

    def set_disk(self, kind):
        self.kind = kind
        self.ro = kind == "nodir"
        self.write_disk(self.content_of(kind))

    def write_disk(self, content):
        self.disk = content
        if content is None:
            if os.path.exists(self.path):
                os.remove(self.path)
        else:
            with _REAL_OPEN(self.path, "wb") as fp:
                fp.write(content)
        self.sig = self.stat_sig()

    def stat_sig(self):
        try:
            st = os.stat(self.path)
        except FileNotFoundError:
            return None
        return (st.st_ino, st.st_size, st.st_mtime_ns)

    def disk_now(self):
        """content of the key file; the file is only re-read when its stat signature moved or the library opened
        it for writing in this step (every open() of the path is logged by the hook)"""
        sig = self.stat_sig()
        if sig == self.sig and not any(c in m for m in self.opens for c in "wax+"):
            return self.disk
        self.sig = sig
        return self.read_disk()

    def read_disk(self):
        try:
            with _REAL_OPEN(self.path, "rb") as fp:
                return fp.read()
        except FileNotFoundError:
            return None

    def save(self):
        try:        # deep: a (mutated) implementation may keep mutable state, e.g. a provider cache, in the instance
            d = copy.deepcopy(self.obj.__dict__)
        except Exception:  # noqa: BLE001 - undeepcopyable state: candidates are re-run from scratch anyway
            d = dict(self.obj.__dict__)
        return (self.obj, d, self.depth, self.skey, self.used, self.failed, len(self.made),
                self.kind, self.ro, self.disk, len(self.created))

    def restore(self, st):
        obj, d, self.depth, self.skey, self.used, self.failed, n, kind, ro, disk, nc = st
        self.obj = obj
        obj.__dict__.clear()
        obj.__dict__.update(d)
        del self.made[n:]
        del self.created[nc:]
        if disk != self.disk:
            self.write_disk(disk)
        self.kind, self.ro, self.disk = kind, ro, disk

    def open_hook(self, file, mode="r", *a, **k):
        try:
            same = os.path.abspath(os.fspath(file)) == self.path
        except TypeError:
            same = False
        if same:
            self.opens.append(mode)
            if self.ro and any(c in mode for c in "wax+"):
                raise PermissionError(errno.EACCES, "Permission denied (injected: unwritable directory)", self.path)
        return _REAL_OPEN(file, mode, *a, **k)

    # ---- classification of the failing input (stable witness keys) -------------------------------------------
    def ctx(self):
        o = "after-failed-open" if self.failed else ("reused-object" if self.used else "fresh-object")
        cls = {"absent": "absent", "nodir": "uncreatable", "valid": "valid", "other": "valid",
               "created": "valid"}.get(self.kind, "valid" if self.disk is not None and len(self.disk) == 32
                                       else "malformed")
        return "file=%s|depth=%s|%s" % (cls, min(self.depth, 2), o)

    # ---- one step ----------------------------------------------------------------------------------------
    def step(self, op):
        """execute op on the real object, return list of (obligation, witness_key, what)"""
        fails = []
        ctx = self.ctx()

        def bad(obl, what, extra=""):
            fails.append((obl, "%s|%s%s" % (op.split(":")[0], ctx, extra), what))

        self.opens = []
        EncErr = self.enc.EncryptionError
        if op == "enter":
            before = self.disk
            exc = res = None
            try:
                res = self.obj.__enter__()
            except Exception as e:  # observation of the library's behaviour, classified below
                exc = e
            if self.depth > 0:
                if exc is not None:
                    bad(O_NESTED, "nested open raised %s" % type(exc).__name__)
                else:
                    self.depth += 1
                    if res is not self.obj:
                        bad(O_NESTED, "nested __enter__ did not return the key file object")
                    if self.opens:
                        bad(O_NESTED, "nested open re-read/re-wrote the key file (open modes %r)" % self.opens,
                            "|reopen")
            elif before is not None and len(before) == 32:
                self.used = True
                if exc is not None:
                    self.failed = True
                    bad(O_VERBATIM, "valid 32-byte key file rejected with %s" % type(exc).__name__)
                else:
                    self.depth, self.skey = 1, before
                    if any(c in m for m in self.opens for c in "wax+"):
                        bad(O_VERBATIM, "existing valid key file opened for writing (%r)" % self.opens, "|write")
            elif before is None and not self.ro:
                self.used = True
                now = self.read_disk()
                self.sig = self.stat_sig()
                if exc is not None:
                    self.failed = True
                    bad(O_CREATED, "missing key file in a writable directory: open raised %s" % type(exc).__name__)
                elif now is None or len(now) != 32:
                    bad(O_CREATED, "missing key file not created with 32 bytes (file now %s)"
                        % ("absent" if now is None else "%d bytes" % len(now)))
                    self.depth = 1
                else:
                    self.depth, self.skey, self.disk, self.kind = 1, now, now, "created"
                    self.created.append(now)
                    if sum(1 for m in self.opens if any(c in m for c in "wax+")) != 1:
                        bad(O_CREATED, "key file written %r times during creation" % self.opens, "|writes")
            elif before is None:
                self.used = True
                if exc is None:
                    bad(O_UNCREATABLE, "missing key file in an unwritable directory: open succeeded")
                    self.depth = 1
                else:
                    self.failed = True
                    if not isinstance(exc, (OSError, EncErr)):
                        bad(O_UNCREATABLE, "expected OSError/EncryptionError, got %s" % type(exc).__name__, "|class")
            else:
                self.used = True
                if exc is None:
                    bad(O_REJECT, "key file of %d bytes accepted (expected EncryptionError)" % len(before),
                        "|" + self.kind)
                    self.depth = 1
                else:
                    self.failed = True
                    if not isinstance(exc, EncErr):
                        bad(O_REJECT, "key file of %d bytes: expected EncryptionError, got %s"
                            % (len(before), type(exc).__name__), "|%s|class" % self.kind)
            if exc is not None and self.depth == 0 and getattr(self.obj, "_KeyFile__key", None):
                bad(O_FAILED_STATE, "after a failed open the object keeps %d key bytes"
                    % len(self.obj._KeyFile__key))
        elif op in ("exit", "exit-exc"):
            if op == "exit":
                res = self.obj.__exit__(None, None, None)
            else:                       # the with-block is left by an exception
                err = ValueError("raised inside the key context")
                res = self.obj.__exit__(ValueError, err, None)
            self.depth -= 1
            if res:
                bad(O_EXIT, "__exit__ returned a true value (would swallow exceptions)", "|result")
            if self.depth == 0:
                self.skey = None
        elif op == "enc":
            for method in ("xor", "aes", "best"):
                if method != "xor" and _aes() is None:
                    continue
                try:
                    sv = self.obj.encrypt(PROBE, method=method)
                except Exception as e:
                    if self.depth > 0:
                        bad(O_ENC_KEY, "encrypt(%s) inside an open context raised %s" % (method, type(e).__name__),
                            "|" + method)
                    elif not isinstance(e, TypeError):
                        bad(O_CLOSED_ENC, "encrypt outside a context raised %s, expected TypeError"
                            % type(e).__name__, "|class")
                    continue
                if self.depth == 0:
                    bad(O_CLOSED_ENC, "encrypt(%s) succeeded outside any open context" % method)
                    continue
                if sv.method == "xor":
                    ok = _xor(sv.ciphertext, PROBE)[:32] == self.skey and sv.ciphertext == _xor(PROBE, self.skey)
                else:
                    try:
                        ok = _aes_dec(self.skey, sv.ciphertext) == PROBE
                    except ValueError:
                        ok = False
                if not ok:
                    bad(O_ENC_KEY, "%s ciphertext is not under the key of the open session" % sv.method,
                        "|" + method)
                else:
                    self.made.append((self.skey, sv.method, sv.ciphertext, PROBE))
        elif op == "dec":
            SV = self.enc.SecureValue
            key = self.skey if self.depth > 0 else self.k1
            cands = [("xor", _xor(PROBE, key), PROBE, "indep")]
            if _aes() is not None:
                cands.append(("aes", _aes_enc(key, bytes(range(16)), PROBE), PROBE, "indep"))
                cands.append(("best", _aes_enc(key, bytes(range(16, 32)), PROBE), PROBE, "indep"))
            cands += [(m, c, p, "earlier") for k, m, c, p in self.made if k == key][-2:]
            for method, ct, pt, src in cands:
                try:
                    got = self.obj.decrypt(SV(method, ct))
                except Exception as e:
                    if self.depth > 0:
                        bad(O_DEC_KEY, "decrypt(%s, %s ciphertext of this key) raised %s"
                            % (method, src, type(e).__name__), "|%s|%s" % (method, src))
                    elif not isinstance(e, TypeError):
                        bad(O_CLOSED_DEC, "decrypt outside a context raised %s, expected TypeError"
                            % type(e).__name__, "|class")
                    continue
                if self.depth == 0:
                    bad(O_CLOSED_DEC, "decrypt(%s) succeeded outside any open context" % method)
                elif got != pt:
                    bad(O_DEC_KEY, "decrypt(%s, %s ciphertext under the session key) != plaintext" % (method, src),
                        "|%s|%s" % (method, src))
        elif op == "new":
            self.obj = self.enc.KeyFile(self.path)
            self.used = self.failed = False
            if self.opens:
                bad(O_NEW, "constructing a KeyFile touched the file (%r)" % self.opens)
            if self.obj.filename != self.path:
                bad(O_NEW, "filename not stored verbatim")
        elif op.startswith("ext:"):
            self.set_disk(op[4:])
        else:
            raise ValueError(op)

        # ---- clauses evaluated after every step ----
        opens_in_step = list(self.opens)
        now = self.disk_now()
        if now != self.disk:
            bad(O_FILE, "key file changed by the library: model %s, disk %s"
                % (_show(self.disk), _show(now)))
            self.disk = now        # keep the model in step with the real file so that restore() repairs it
        if self.depth == 0:
            held = [k for k, v in vars(self.obj).items() if _contains_bytes(v)]
            if held:
                bad(O_EXIT if op.startswith("exit") else O_NOKEY,
                    "no context open but the object holds key material in %s" % sorted(held))
            # "never retained" on the whole object graph: no key this object has loaded (nor the malformed content
            # it has refused) may be reachable from it once no context is open
            material = [self.k1[:31], self.k2] + self.created
            if self.almost:
                material += [self.extra[self.almost]]
            for where, form in find_key_material(self.obj, material):
                fails.append((O_EXIT, "key-reachable-after-close:" + where,
                              "after %s (no context open) key material (%s) is reachable from the KeyFile at %s"
                              % (op, form, where)))
            try:
                self.obj.encrypt(PROBE, method="xor")
                bad(O_CLOSED_ENC, "encrypt succeeded although no context is open", "|probe")
            except TypeError:
                pass
            except Exception as e:
                bad(O_CLOSED_ENC, "encrypt with no open context raised %s, expected TypeError" % type(e).__name__,
                    "|probe-class")
            try:
                self.obj.decrypt(self.enc.SecureValue("xor", PROBE))
                bad(O_CLOSED_DEC, "decrypt succeeded although no context is open", "|probe")
            except TypeError:
                pass
            except Exception as e:
                bad(O_CLOSED_DEC, "decrypt with no open context raised %s, expected TypeError" % type(e).__name__,
                    "|probe-class")
        elif self.skey is not None:
            obl = {"enter": O_NESTED if self.depth > 1 else (O_CREATED if self.kind == "created" and
                                                               opens_in_step else O_VERBATIM),
                   "exit": O_EXIT_KEEP, "exit-exc": O_EXIT_KEEP}.get(op, O_ENC_KEY)
            try:
                ct = self.obj.encrypt(PROBE, method="xor").ciphertext
            except Exception as e:
                bad(obl, "context open but encrypt raised %s" % type(e).__name__, "|probe")
            else:
                if _xor(ct, PROBE)[:32] != self.skey or len(ct) != len(PROBE):
                    bad(obl, "key in use (recovered from XOR ciphertext) differs from the key of the session: "
                        "%s vs %s" % (_show(_xor(ct, PROBE)[:32]), _show(self.skey)), "|probe")
        self.opens = []
        if self.almost:
            fails = [(o, "almost-valid-key-file:" + self.almost, "%s {%s}" % (t, k)) for o, k, t in fails]
        return fails


def _show(b):
    return "absent" if b is None else "%dB:%s" % (len(b), b[:6].hex())


def _allowed(world, prev, first, last=False):
    if world.almost:
        # histories about one almost-valid kind K: the file alternates between K and a valid key ("repair"); enc/dec
        # outside a context are left to the probe that follows every step
        if world.depth > 0:
            ops = ["enter", "exit", "exit-exc", "enc", "dec"]
        else:
            ops = ["enter", "new"]
            if not first and not last and not (prev or "").startswith("ext:"):
                ops.append("ext:valid" if world.kind == world.almost else "ext:" + world.almost)
        return [o for o in ops if not (o == prev and o in ("enc", "dec", "new"))]
    if world.depth > 0:
        ops = ["enter", "exit", "exit-exc", "enc", "dec"]
    else:
        ops = ["enter", "enc", "dec", "new"]
        # an external change as the final step of a maximal sequence is never observed by the library: skipped
        if not first and not last and not (prev or "").startswith("ext:"):
            ops += [e for e in EXT_OPS if e[4:] != world.kind]
    return [o for o in ops if not (o == prev and o in ("enc", "dec", "new"))]


class _Patched:
    """builtins.open replaced by the world's hook for the duration of a run (restored in __exit__)"""

    def __init__(self, world):
        self.world = world

    def __enter__(self):
        self.old = builtins.open
        builtins.open = self.world.open_hook
        return self

    def __exit__(self, *a):
        builtins.open = self.old
        return False


def run_sequence(tmp, init, ops, k1, k2, almost=None):
    """fresh linear execution; returns [(step_index, obligation, witness_key, what)]"""
    w = World(tmp, k1, k2)
    out = []
    with _Patched(w):
        w.almost = almost
        w.reset(init)
        for i, op in enumerate(ops):
            if op in ("exit", "exit-exc") and w.depth == 0:
                raise ValueError("sequence is not properly nested at step %d" % i)
            fs = w.step(op)
            out += [(i, o, k, t) for o, k, t in fs]
            if not all(o in SOFT for o, _, _ in fs):
                break
    return out


def rac(tier: str, seed: int) -> dict:
    maxlen = 5 if tier == "quick" else 6
    rec = Recorder(PID, rule="every properly nested sequence over {enter, exit, exit by exception, enc, dec, new KeyFile(path), "
                   "ext:<file state>} from every initial file state is one case (key = initial state + op tuple); "
                   "non-trivial when it contains a library call (enter/exit/enc/dec); pruned only: ext directly "
                   "after ext / as first op / to the current state, repeated enc,enc / dec,dec / new,new, "
                   "ext and new inside an open context, ext as the last step of a maximal-length sequence (unobservable)",
                   bound="7 file states (absent, valid 32B, other valid key, empty, 31B, 33B, absent in unwritable "
                   "dir [injected EACCES on write-open, process is root]) x sequences of length <= %d; 3 methods; "
                   "clauses evaluated after every step, plus XOR probe of the key in use; whenever no context is open "
                   "the object graph of the KeyFile (depth <= 6) is searched for every key it has loaded (raw / hex / "
                   "base64 / int sequence); plus %d ALMOST-VALID key-file kinds (key + / preceded by / wrapped in LF, CRLF, "
                   "3 LF, space, NUL, tab; 32-byte files ending in or made of whitespace / NUL [valid: used verbatim]; "
                   "key twice; key + 1 byte; hex and base64 text of a key), each with all sequences of length <= %d over "
                   "{enter, exit, exit by exception, enc, dec, new, repair to a valid key / back} from the kind and from "
                   "a valid key" % (maxlen, len(almost_valid(bytes(32))), maxlen),
                   tier=tier, seed=seed)
    k1 = bytes(rec.rng.getrandbits(8) for _ in range(32))
    k2 = bytes(rec.rng.getrandbits(8) for _ in range(32))
    found = {}          # (obligation, wkey) -> (init, ops, what, almost kind or None)
    complete = True

    with sandbox() as tmp:
        w = World(tmp, k1, k2)
        with _Patched(w):
            def walk(init, ops):
                nonlocal complete
                if len(ops) >= maxlen:
                    return
                if tier != "quick" and rec.out_of_time():
                    complete = False
                    return
                prev = ops[-1] if ops else None
                for op in _allowed(w, prev, not ops, len(ops) == maxlen - 1):
                    st = w.save()
                    fs = w.step(op)
                    seq = ops + (op,)
                    rec.case(key=(w.almost, init, seq), nontrivial=any(o in ("enter", "exit", "exit-exc", "enc", "dec") for o in seq),
                             sample={"init": init, "ops": list(seq)} if len(seq) == maxlen and
                             seq.count("enter") >= 2 and rec.evaluations % 997 == 0 else None)
                    for obl, wk, what in fs:
                        old = found.get((obl, wk))
                        if old is None or len(old[1]) > len(seq):
                            found[(obl, wk)] = (init, seq, what, w.almost)
                    # a failed clause normally means model and object have diverged: stop this branch; failures
                    # that only concern what a closed object holds / refuses leave the model valid: go on, so
                    # that e.g. the SECOND open of a malformed file is still required to raise
                    if all(o in SOFT for o, _, _ in fs):
                        walk(init, seq)
                    w.restore(st)

            for init in KINDS:
                w.reset(init)
                walk(init, ())
            # ---- key files that are almost valid: one family of histories per kind (start malformed / start valid)
            for kind in w.extra:
                w.almost = kind
                for init in (kind, "valid"):
                    w.reset(init)
                    walk(init, ())
            w.almost = None

    # every candidate is re-executed from scratch (fresh sandbox, object, file) before it is reported
    for (obl, wk), (init, seq, what, almost) in sorted(found.items()):
        case = {"init": init, "ops": list(seq), "k1": k1.hex(), "k2": k2.hex(), "obligation": obl,
                "witness_key": wk, "almost": almost}
        r = replay(case)
        if r["fails"]:
            rec.violation(obligation=obl, what="%s  [init=%s ops=%s]" % (what, init, ",".join(seq)),
                          replay=case, witness_key=wk)
    return rec.result(exhaustive=complete)


def replay(case: dict) -> dict:
    k1, k2 = bytes.fromhex(case["k1"]), bytes.fromhex(case["k2"])
    with sandbox() as tmp:
        fs = run_sequence(tmp, case["init"], case["ops"], k1, k2, case.get("almost"))
    want = (case.get("obligation"), case.get("witness_key"))
    hit = [f for f in fs if want[0] is None or (f[1], f[2]) == want]
    return {"fails": bool(hit),
            "expected": "no clause of C07 fails along init=%s ops=%s" % (case["init"], case["ops"]),
            "observed": [{"step": i, "obligation": o, "witness_key": k, "what": t} for i, o, k, t in (hit or fs)]}
