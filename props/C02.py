"""C02 - claim and bounded driver; statement in properties.jsonl, design in DESIGN.md section 7."""
from props.meta import META as _M

META = _M["C02"]

try:
    from props.C02_rac import rac, replay   # bounded run-time contract driver (stand-in + replay harness)
except ImportError:   # pragma: no cover
    pass
