"""C17 bounded run-time contract driver.

"Typed list/dict values behave like built-in list/dict of validated items."

Differential testing of the REAL ListProxy / DictProxy (obtained from a real configuration) against a plain
list / dict that holds the *normalised* forms of what was put in.  The normal form ``nrm`` is an independent
reference (property text + field docstrings).  After every operation the contents, order, length, the return
value and the raised/not-raised outcome are compared; after every step a fixed battery of queries is compared;
results of copy() and + must be typed proxies of the same field that still validate.

A replay dict is self-contained:
  {"kind": "list"|"dict", "field": <name in LIST_FIELDS / DICT_FIELDS>, "init": [...], "ops": [...],
   "obligation": ..., "witness_key": ...}
"""
import contextlib
import itertools
import json
import os
import signal
import threading

from pyvc.raclib import Recorder, sandbox, strict_eq

PID = "C17"
TRUE_VALUES = ("t", "true", "1", "on", "yes", "y")
FALSE_VALUES = ("f", "false", "0", "off", "no", "n")


class _Index:
    """an index object that is neither int nor slice (operator.index protocol, accepted by the built-in list)"""

    def __init__(self, i):
        self.i = i

    def __index__(self):
        return self.i


# --------------------------------------------------------------------------------------------- field table

def _fields():
    """name -> (spec, raw pool, an unacceptable value, spec of a *different* field whose values are acceptable
    raw inputs, raw values held by that other container)"""
    return {
        "Int": ({"t": "Int"}, [1, "2", 3.0, 0, "1"], "x", {"t": "String"}, ["4", "5"]),
        "String/upper": ({"t": "String", "case": "upper"}, ["a", "B", "cd", "A"], 5, {"t": "String"}, ["x", "Y"]),
        "Bool": ({"t": "Bool"}, [True, "no", 0, "Y"], "maybe", {"t": "Int"}, [0, 1]),
        "Bytes": ({"t": "Bytes"}, ["ab", {"$b": "6364"}, "", "ab"], 5, {"t": "String"}, ["x", "y"]),
        "List<Int>": ({"t": "List", "item": {"t": "Int"}}, [[1, "2"], {"$t": [3]}, [], [1, 2]], ["x"],
                      {"t": "List", "item": {"t": "String"}}, [["7"], []]),
    }


LIST_FIELDS = ("Int", "String/upper", "Bool", "Bytes", "List<Int>")
DICT_FIELDS = {
    # name -> (key field name or None, value field name or None, raw keys)
    "String/upper->Int": ("String/upper", "Int", ["a", "B", "c", "A"]),
    "->String/upper": (None, "String/upper", ["a", 1, "b", "a"]),
    "String/upper->": ("String/upper", None, ["a", "B", "c", "A"]),
    "->List<Int>": (None, "List<Int>", ["a", "b", "c", "a"]),
    "->Bool": (None, "Bool", ["a", "b", "c", "a"]),
}


def build_field(spec):
    import cincoconfig as cc
    t = spec["t"]
    if t == "Int":
        return cc.IntField()
    if t == "String":
        return cc.StringField(transform_case=spec.get("case"))
    if t == "Bool":
        return cc.BoolField()
    if t == "Bytes":
        return cc.BytesField()
    if t == "List":
        return cc.ListField(build_field(spec["item"]))
    raise ValueError(t)


def nrm(spec, raw):
    """reference normal form of an acceptable raw value (plain data)"""
    if raw is None or spec is None:
        return plain(raw)
    t = spec["t"]
    if t == "Int":
        return int(raw)
    if t == "String":
        return raw.upper() if spec.get("case") == "upper" else raw.lower() if spec.get("case") == "lower" else raw
    if t == "Bool":
        if isinstance(raw, str):
            assert raw.lower() in TRUE_VALUES + FALSE_VALUES
            return raw.lower() in TRUE_VALUES
        return bool(raw)
    if t == "Bytes":
        return raw.encode() if isinstance(raw, str) else raw
    if t == "List":
        return [nrm(spec["item"], x) for x in raw]
    raise ValueError(t)


def plain(v):
    """plain image of a value: proxies become built-in list/dict, recursively"""
    if isinstance(v, list):
        return [plain(x) for x in v]
    if isinstance(v, tuple):
        return tuple(plain(x) for x in v)
    if isinstance(v, dict):
        return {k: plain(x) for k, x in v.items()}
    return v


def dec(j):
    if isinstance(j, list):
        return [dec(x) for x in j]
    if isinstance(j, dict):
        if "$b" in j:
            return bytes.fromhex(j["$b"])
        if "$t" in j:
            return tuple(dec(x) for x in j["$t"])
        if "$index" in j:
            return _Index(j["$index"])
        return {k: dec(v) for k, v in j.items()}
    return j


def mk_iterable(kind, items):
    if kind == "list":
        return list(items)
    if kind == "tuple":
        return tuple(items)
    if kind == "iter":
        return iter(list(items))
    if kind == "gen":
        return (x for x in list(items))
    raise ValueError(kind)


_SCHEMAS = {}
KIND_CLASS = {"list": "sequence", "tuple": "sequence", "iter": "iterator", "gen": "iterator",
              "same": "same-field-proxy", "diff": "other-field-proxy",
              # iterables that read the receiver itself, lazily, while the operation runs
              "self": "receiver-itself", "self-iter": "iterator-over-receiver", "self-reversed": "reversed-receiver",
              "self-gen": "generator-over-receiver", "self-gen-filter": "filtering-generator-over-receiver",
              "self-gen-map": "mapping-generator-over-receiver", "self-items": "items-view-of-receiver"}


class _Timeout(BaseException):
    """an operation on the proxy did not terminate in time: the case is left undecided, never reported"""


@contextlib.contextmanager
def _guard(seconds=0.5):
    """bound the run time of one operation whose iterable reads the receiver (a lazily consumed iterable over a
    growing container need not terminate); only available in the main thread"""
    if threading.current_thread() is not threading.main_thread() or not hasattr(signal, "setitimer"):
        yield
        return

    def on_alarm(signum, frame):
        raise _Timeout()
    old = signal.signal(signal.SIGALRM, on_alarm)
    signal.setitimer(signal.ITIMER_REAL, seconds)
    try:
        yield
    finally:
        signal.setitimer(signal.ITIMER_REAL, 0)
        signal.signal(signal.SIGALRM, old)


def raw_of(spec, v):
    """an acceptable raw (un-normalised) spelling of a normalised value: nrm(spec, raw_of(spec, v)) == v"""
    if v is None or spec is None:
        return v
    t = spec["t"]
    if t == "Int":
        return str(v)
    if t == "String":
        return v.lower() if spec.get("case") == "upper" else v
    if t == "Bool":
        return "yes" if v else "no"
    if t == "Bytes":
        return v.decode()
    if t == "List":
        return [raw_of(spec["item"], x) for x in v]
    raise ValueError(t)


def over(kind, c, f=None, limit=None):
    """a lazily evaluated iterable over the live container `c` (list side); f maps the items of the mapping kind"""
    if kind == "self":
        return c
    it = {"self-iter": lambda: iter(c), "self-reversed": lambda: reversed(c), "self-gen": lambda: (x for x in c),
          "self-gen-filter": lambda: (x for i, x in enumerate(c) if i % 2 == 0),
          "self-gen-map": lambda: (f(x) for x in c)}[kind]()
    return itertools.islice(it, limit) if limit else it


def same(a, b):
    """type-strict structural equality where a proxy counts as the built-in it derives from; dicts also have to
    agree on the key order"""
    if isinstance(a, list):
        return isinstance(b, list) and len(a) == len(b) and all(map(same, a, b))
    if isinstance(a, tuple):
        return isinstance(b, tuple) and len(a) == len(b) and all(map(same, a, b))
    if isinstance(a, dict):
        return isinstance(b, dict) and len(a) == len(b) and all(
            same(ka, kb) and same(va, vb) for (ka, va), (kb, vb) in zip(a.items(), b.items()))
    return type(a) is type(b) and a == b


def short(v):
    r = repr(v)
    return r if len(r) <= 70 else r[:67] + "..."


# --------------------------------------------------------------------------------------------- list side

class ListCase:
    """a real ListProxy `p` (field f of a real configuration) next to its model `m`"""

    def __init__(self, field, init):
        import cincoconfig as cc
        spec, pool, bad, dspec, draws = _fields()[field]
        self.spec, self.bad, self.dspec, self.pool = spec, dec(bad), dspec, pool
        schema = _SCHEMAS.get(("list", field))
        if schema is None:                                  # fields hold no per-configuration state: built once
            schema = _SCHEMAS[("list", field)] = cc.Schema()
            schema.f = cc.ListField(build_field(spec), default=lambda: [])
            schema.g = cc.ListField(build_field(dspec), default=lambda: [])
        self.schema = schema
        self.cfg = schema()
        self.cfg.f = dec(init)
        self.p = self.cfg.f
        self.m = [nrm(spec, x) for x in dec(init)]
        self.proxy_cls = cc.ListProxy

    def source(self, src):
        """-> (argument for the proxy, argument for the model) for an iterable source description"""
        kind = src["kind"]
        if kind.startswith("self"):                         # reads the receiver / the model itself, lazily
            spec = self.spec
            return (over(kind, self.p, lambda x: raw_of(spec, x), src.get("limit")),
                    over(kind, self.m, lambda x: nrm(spec, raw_of(spec, x)), src.get("limit")))
        raws = dec(src["a"])
        norm = [nrm(self.spec, x) for x in raws]
        if kind == "same":                                  # typed container of the same field (another configuration)
            other = self.schema()
            other.f = raws
            return other.f, norm
        if kind == "diff":                                  # typed container of a different field
            self.cfg.g = raws
            return self.cfg.g, norm
        return mk_iterable(kind, raws), mk_iterable(kind, norm)

    def apply(self, op):
        """-> (outcome on proxy, outcome on model); an outcome is ('ok', return value) or ('exc', class name)"""
        m = op["m"]
        p, mod, spec = self.p, self.m, self.spec

        def both(fp, fm):
            try:
                rm = ("ok", fm())
            except Exception as e:
                rm = ("exc", type(e).__name__)
            try:
                rp = ("ok", fp())
            except Exception as e:
                rp = ("exc", type(e).__name__)
            return rp, rm
        if m == "append":
            a = dec(op["a"])
            return both(lambda: p.append(a), lambda: mod.append(nrm(spec, a)))
        if m == "insert":
            a = dec(op["a"])
            return both(lambda: p.insert(op["i"], a), lambda: mod.insert(op["i"], nrm(spec, a)))
        if m == "setidx":
            a, i = dec(op["a"]), dec(op["i"])
            return both(lambda: p.__setitem__(i, a), lambda: mod.__setitem__(i, nrm(spec, a)))
        if m in ("extend", "iadd", "setslice", "add"):
            ap, am = self.source(op["src"])
            if op["src"]["kind"].startswith("self"):
                both = self._guarded(both)
            if m == "extend":
                return both(lambda: p.extend(ap), lambda: mod.extend(am))
            if m == "iadd":
                rp, rm = both(lambda: p.__iadd__(ap), lambda: mod.__iadd__(am))
                # the built-in returns the receiver itself: compare as "is receiver"
                return (rp[0], rp[1] is p) if rp[0] == "ok" else rp, (rm[0], rm[1] is mod) if rm[0] == "ok" else rm
            if m == "setslice":
                s = slice(*op["s"])
                return both(lambda: p.__setitem__(s, ap), lambda: mod.__setitem__(s, am))
            return both(lambda: p + ap, lambda: mod + list(am))
        if m == "mul":
            return both(lambda: p * op["n"], lambda: mod * op["n"])
        if m == "imul":
            rp, rm = both(lambda: p.__imul__(op["n"]), lambda: mod.__imul__(op["n"]))
            return (rp[0], rp[1] is p) if rp[0] == "ok" else rp, (rm[0], rm[1] is mod) if rm[0] == "ok" else rm
        if m == "copy":
            return both(lambda: p.copy(), lambda: mod.copy())
        if m == "pop":
            if "i" in op:
                return both(lambda: p.pop(op["i"]), lambda: mod.pop(op["i"]))
            return both(lambda: p.pop(), lambda: mod.pop())
        if m == "remove":
            x = mod[op["k"]] if -len(mod) <= op["k"] < len(mod) else nrm(spec, dec(self.pool[0]))
            return both(lambda: p.remove(x), lambda: mod.remove(x))
        if m == "delidx":
            return both(lambda: p.__delitem__(op["i"]), lambda: mod.__delitem__(op["i"]))
        if m == "delslice":
            s = slice(*op["s"])
            return both(lambda: p.__delitem__(s), lambda: mod.__delitem__(s))
        if m == "sort":
            return both(lambda: p.sort(reverse=op.get("reverse", False)),
                        lambda: mod.sort(reverse=op.get("reverse", False)))
        if m in ("reverse", "clear"):
            return both(getattr(p, m), getattr(mod, m))
        raise ValueError(m)

    @staticmethod
    def _guarded(both):
        def run(fp, fm):
            with _guard():
                return both(fp, fm)
        return run

    def queries(self):
        """[(query name, value on proxy, value on model)]"""
        p, mod = self.p, self.m

        def q(f, x):
            try:
                return ("ok", f(x))
            except Exception as e:
                return ("exc", type(e).__name__)
        probe = mod[0] if mod else nrm(self.spec, dec(self.pool[0]))
        qs = [("__len__", len), ("__iter__", lambda x: [y for y in x]), ("__reversed__", lambda x: list(reversed(x))),
              ("__bool__", bool), ("__getitem__", lambda x: x[0]), ("__getitem__", lambda x: x[-1]),
              ("__getitem__", lambda x: x[0:2]), ("__getitem__", lambda x: x[::2]),
              ("index", lambda x: x.index(probe)), ("count", lambda x: x.count(probe)),
              ("__contains__", lambda x: probe in x), ("__eq__", lambda x: x == list(mod)),
              ("__ne__", lambda x: x != list(mod)), ("__mul__", lambda x: x * 2),
              ("__eq__", lambda x: list(mod) == x)]
        return [(n, q(f, p), q(f, mod)) for n, f in qs]

    def typed_result(self, r):
        """is `r` (result of copy / +) a proxy of the same field that still validates? -> problem text or None"""
        if not isinstance(r, self.proxy_cls):
            return "result is a %s, not a ListProxy" % type(r).__name__
        if r is self.p:
            return "result is the receiver itself"
        if r.list_field is not self.p.list_field:
            return "result is bound to another field"
        n = len(r)
        try:
            r.append(self.bad)
        except Exception:
            pass
        else:
            return "result accepted the unacceptable item %r" % (self.bad,)
        if len(r) != n:
            return "rejected append changed the result"
        raw = dec(self.pool[1])
        r.append(raw)
        got = plain(r[-1])
        r.pop()
        if not strict_eq(got, nrm(self.spec, raw)):
            return "result stored %r for %r (normal form %r)" % (got, raw, nrm(self.spec, raw))
        return None


def list_ops(field, level):
    """operation pool for a list of the given item field; level 0 full, 1 reduced (for length-3 sequences)"""
    spec, pool, bad, dspec, draws = _fields()[field]
    r0, r1, r2 = pool[0], pool[1], pool[2]
    ops = []
    if level == 0:
        for a in (r1, r2):
            ops.append({"m": "append", "a": a})
        for i in (0, 1, -1, 7):
            ops.append({"m": "insert", "i": i, "a": r1})
        for i in (0, -1, 7, {"$index": 0}):
            ops.append({"m": "setidx", "i": i, "a": r1})
        for kind in ("list", "tuple", "iter", "gen", "same", "diff"):
            for raws in ([], [r1, r2]) if kind in ("list", "gen", "same") else ([r1, r2],):
                a = draws if kind == "diff" and raws else raws
                src = {"kind": kind, "a": a}
                ops.append({"m": "extend", "src": src})
                ops.append({"m": "iadd", "src": src})
                if raws:
                    ops.append({"m": "setslice", "s": [0, 1], "src": src})
                    ops.append({"m": "setslice", "s": [1, 1], "src": src})
                    ops.append({"m": "setslice", "s": [None, None, 2], "src": {"kind": kind, "a": a[:1]}})
                else:
                    ops.append({"m": "setslice", "s": [0, 1], "src": src})
                if kind in ("list", "same", "diff"):
                    ops.append({"m": "add", "src": src})
        ops += list_self_ops(0)
        ops += [{"m": "mul", "n": 2}, {"m": "mul", "n": 0}, {"m": "imul", "n": 2}, {"m": "copy"}, {"m": "pop"},
                {"m": "pop", "i": 0}, {"m": "remove", "k": 0}, {"m": "remove", "k": 9}, {"m": "delidx", "i": 0},
                {"m": "delidx", "i": 7}, {"m": "delslice", "s": [0, 2]}, {"m": "sort"},
                {"m": "sort", "reverse": True}, {"m": "reverse"}, {"m": "clear"}]
        return ops
    return [{"m": "append", "a": r1}, {"m": "insert", "i": 1, "a": r2}, {"m": "setidx", "i": 0, "a": r1},
            {"m": "extend", "src": {"kind": "gen", "a": [r1, r2]}},
            {"m": "extend", "src": {"kind": "same", "a": [r1, r2]}},
            {"m": "iadd", "src": {"kind": "diff", "a": draws}},
            {"m": "iadd", "src": {"kind": "tuple", "a": [r2]}},
            {"m": "setslice", "s": [0, 1], "src": {"kind": "list", "a": [r1, r2]}},
            {"m": "setslice", "s": [1, 2], "src": {"kind": "tuple", "a": []}},
            {"m": "add", "src": {"kind": "list", "a": [r1]}}, {"m": "copy"}, {"m": "imul", "n": 2},
            {"m": "pop"}, {"m": "remove", "k": 0}, {"m": "delidx", "i": 0}, {"m": "sort"}, {"m": "reverse"},
            {"m": "clear"}] + list_self_ops(1)


SELF_KINDS = ("self", "self-iter", "self-reversed", "self-gen", "self-gen-filter", "self-gen-map")
LAZY_LIMIT = 5                                              # an iterator over a list that grows never ends by itself


def list_self_ops(level):
    """operations whose argument reads the receiver itself while it is being changed"""
    def src(kind, bounded):
        return {"kind": kind, "limit": LAZY_LIMIT} if bounded and kind not in ("self", "self-reversed") \
            else {"kind": kind}
    if level:
        return [{"m": "extend", "src": src("self-gen-map", True)},
                {"m": "setslice", "s": [None, None], "src": src("self-gen-filter", False)}]
    ops = []
    for kind in SELF_KINDS:
        ops.append({"m": "extend", "src": src(kind, True)})
        ops.append({"m": "iadd", "src": src(kind, True)})
        ops.append({"m": "setslice", "s": [None, None], "src": src(kind, False)})
        if kind in ("self", "self-gen", "self-reversed", "self-gen-map"):
            ops.append({"m": "add", "src": src(kind, False)})
    for kind in ("self", "self-reversed", "self-gen-map"):
        ops.append({"m": "setslice", "s": [0, 1], "src": src(kind, False)})
        ops.append({"m": "setslice", "s": [1, 1], "src": src(kind, False)})
    ops.append({"m": "setslice", "s": [1, None], "src": src("self-gen", False)})
    return ops


def list_method(op):
    return {"setidx": "__setitem__", "setslice": "__setitem__", "iadd": "__iadd__", "add": "__add__",
            "mul": "__mul__", "imul": "__imul__", "delidx": "__delitem__", "delslice": "__delitem__"}.get(op["m"],
                                                                                                         op["m"])


def list_argclass(op):
    m = op["m"]
    if m == "setidx":
        return "index-not-int-or-slice" if isinstance(op["i"], dict) else "int-index"
    if m == "setslice":
        k = KIND_CLASS[op["src"]["kind"]]
        return "slice-from-" + ("non-list-tuple-iterable" if k == "iterator" else k)
    if "src" in op:
        return KIND_CLASS[op["src"]["kind"]]
    return "item" if "a" in op else "-"


# --------------------------------------------------------------------------------------------- dict side

class DictCase:
    def __init__(self, field, init):
        import cincoconfig as cc
        kname, vname, keys = DICT_FIELDS[field]
        F = _fields()
        self.kspec = F[kname][0] if kname else None
        self.vspec = F[vname][0] if vname else None
        self.kbad = dec(F[kname][2]) if kname else None
        self.vbad = dec(F[vname][2]) if vname else None
        self.keys = keys
        self.vals = F[vname][1] if vname else [1, "v", [1], 1]
        # a dict field of *different* key/value fields whose contents are acceptable raw inputs here
        new = ("dict", field) not in _SCHEMAS
        dk = build_field(F[kname][3]) if kname and new else None
        dv = build_field(F[vname][3]) if vname and new else None
        self.dvals = F[vname][4] if vname else [2, "w"]
        schema = _SCHEMAS.get(("dict", field))
        if schema is None:
            schema = _SCHEMAS[("dict", field)] = cc.Schema()
            schema.f = cc.DictField(build_field(self.kspec) if kname else None,
                                    build_field(self.vspec) if vname else None, default=lambda: {})
            schema.g = cc.DictField(dk or cc.StringField(), dv, default=lambda: {})
        self.schema = schema
        self.cfg = schema()
        pairs = [tuple(x) for x in dec(init)]
        self.cfg.f = dict(pairs)
        self.p = self.cfg.f
        self.m = {}
        for k, v in pairs:
            self.m[self.nk(k)] = self.nv(v)
        self.proxy_cls = cc.DictProxy

    def nk(self, k):
        return nrm(self.kspec, k)

    def nv(self, v):
        return nrm(self.vspec, v)

    def source(self, src):
        kind = src["kind"]
        if kind.startswith("self"):                         # reads the receiver / the model itself, lazily
            def respell(kv):
                return raw_of(self.kspec, kv[0]), raw_of(self.vspec, kv[1])

            def renorm(kv):
                return self.nk(raw_of(self.kspec, kv[0])), self.nv(raw_of(self.vspec, kv[1]))
            make = {"self": lambda c, f: c, "self-items": lambda c, f: c.items(),
                    "self-gen": lambda c, f: ((k, v) for k, v in c.items()),
                    "self-gen-map": lambda c, f: (f(kv) for kv in c.items())}[kind]
            return make(self.p, respell), make(self.m, renorm)
        pairs = [tuple(x) for x in dec(src["a"])]
        norm = [(self.nk(k), self.nv(v)) for k, v in pairs]
        if kind == "map":
            return dict(pairs), dict(norm)
        if kind == "same":
            other = self.schema()
            other.f = dict(pairs)
            return other.f, dict(norm)
        if kind == "own":                                   # same field, same configuration
            own = self.p.copy()
            for k, v in pairs:
                own[k] = v
            am = dict(self.m)
            am.update(norm)
            return own, am
        if kind == "diff":
            self.cfg.g = dict(pairs)
            return self.cfg.g, dict(norm)
        return mk_iterable(kind, pairs), mk_iterable(kind, norm)

    def apply(self, op):
        m = op["m"]
        p, mod = self.p, self.m

        def both(fp, fm):
            try:
                rm = ("ok", fm())
            except Exception as e:
                rm = ("exc", type(e).__name__)
            try:
                rp = ("ok", fp())
            except Exception as e:
                rp = ("exc", type(e).__name__)
            return rp, rm
        if m == "setitem":
            k, v = dec(op["k"]), dec(op["v"])
            return both(lambda: p.__setitem__(k, v), lambda: mod.__setitem__(self.nk(k), self.nv(v)))
        if m == "setdefault":
            k = dec(op["k"])
            if "v" in op:
                v = dec(op["v"])
                return both(lambda: p.setdefault(k, v), lambda: mod.setdefault(self.nk(k), self.nv(v)))
            return both(lambda: p.setdefault(k), lambda: mod.setdefault(self.nk(k)))
        if m in ("update", "ior"):
            kw = {k: dec(v) for k, v in op.get("kw", {}).items()}
            nkw = {self.nk(k): self.nv(v) for k, v in kw.items()}
            if "src" in op:
                ap, am = self.source(op["src"])
                if op["src"]["kind"].startswith("self"):
                    both = ListCase._guarded(both)
                if m == "update":
                    def fm():
                        mod.update(am)
                        mod.update(nkw)                     # keyword keys are normalised too (not expressible as **)
                    return both(lambda: p.update(ap, **kw), fm)
                rp, rm = both(lambda: p.__ior__(ap), lambda: mod.__ior__(am))
                return ((rp[0], rp[1] is p) if rp[0] == "ok" else rp,
                        (rm[0], rm[1] is mod) if rm[0] == "ok" else rm)
            return both(lambda: p.update(**kw), lambda: mod.update(nkw))
        if m == "pop":
            k = self.nk(dec(op["k"]))
            if "d" in op:
                return both(lambda: p.pop(k, op["d"]), lambda: mod.pop(k, op["d"]))
            return both(lambda: p.pop(k), lambda: mod.pop(k))
        if m == "popitem":
            return both(p.popitem, mod.popitem)
        if m == "delitem":
            k = self.nk(dec(op["k"]))
            return both(lambda: p.__delitem__(k), lambda: mod.__delitem__(k))
        if m == "clear":
            return both(p.clear, mod.clear)
        if m == "copy":
            return both(p.copy, mod.copy)
        raise ValueError(m)

    def queries(self):
        p, mod = self.p, self.m

        def q(f, x):
            try:
                return ("ok", f(x))
            except Exception as e:
                return ("exc", type(e).__name__)
        probe = next(iter(mod)) if mod else self.nk(dec(self.keys[0]))
        unset = next((k for k, v in mod.items() if v is None), probe)      # a present key holding None, if any
        qs = [("get", lambda x: x.get(unset, 0)), ("__getitem__", lambda x: x[unset]),
              ("__contains__", lambda x: unset in x), ("setdefault", lambda x: dict(x).setdefault(unset, 0)),
              ("__len__", len), ("__iter__", lambda x: [k for k in x]), ("keys", lambda x: list(x.keys())),
              ("values", lambda x: list(x.values())), ("items", lambda x: list(x.items())), ("__bool__", bool),
              ("__getitem__", lambda x: x[probe]), ("get", lambda x: x.get(probe)),
              ("get", lambda x: x.get("nosuchkey", 0)), ("__contains__", lambda x: probe in x),
              ("__eq__", lambda x: x == dict(mod)), ("__ne__", lambda x: x != dict(mod)),
              ("__eq__", lambda x: dict(mod) == x), ("__reversed__", lambda x: list(reversed(x))),
              ("__or__", lambda x: list((x | {}).items()))]
        return [(n, q(f, p), q(f, mod)) for n, f in qs]

    def typed_result(self, r):
        if not isinstance(r, self.proxy_cls):
            return "result is a %s, not a DictProxy" % type(r).__name__
        if r is self.p:
            return "result is the receiver itself"
        if r.dict_field is not self.p.dict_field:
            return "result is bound to another field"
        n = len(r)
        k0, v0 = dec(self.keys[1]), dec(self.vals[1])
        for k, v in ([(self.kbad, v0)] if self.kspec else []) + ([(k0, self.vbad)] if self.vspec else []):
            try:
                r[k] = v
            except Exception:
                pass
            else:
                return "result accepted the unacceptable entry %r: %r" % (k, v)
        if len(r) != n:
            return "rejected assignment changed the result"
        had = self.nk(k0) in r
        old = r.get(self.nk(k0))
        r[k0] = v0
        got = (self.nk(k0) in r, plain(r.get(self.nk(k0))))
        if had:
            dict.__setitem__(r, self.nk(k0), old)
        else:
            del r[self.nk(k0)]
        if not strict_eq(got, (True, self.nv(v0))):
            return "result stored %r for %r: %r" % (got, k0, v0)
        return None


def dict_ops(field, level):
    kname, vname, keys = DICT_FIELDS[field]
    F = _fields()
    vals = F[vname][1] if vname else [1, "v", [1], 1]
    dvals = F[vname][4] if vname else [2, "w"]
    k0, k1, k2 = keys[0], keys[1], keys[2]
    v0, v1, v2 = vals[0], vals[1], vals[2]
    pairs = [[k1, v1], [k2, v2]]
    dpairs = [[k if isinstance(k, str) else "z", v] for k, v in zip([k1, k2], dvals)]
    kwk = [k for k in (k1, k2) if isinstance(k, str)]
    if level == 0:
        ops = [{"m": "setitem", "k": k1, "v": v1}, {"m": "setitem", "k": k0, "v": v2},
               {"m": "setdefault", "k": k1, "v": v1}, {"m": "setdefault", "k": k0, "v": v2},
               {"m": "setdefault", "k": k1}, {"m": "setdefault", "k": k0}]
        for kind in ("map", "list", "tuple", "iter", "gen", "same", "own", "diff"):
            for a in ([], pairs) if kind in ("map", "iter", "same") else (pairs,):
                a = dpairs if kind == "diff" and a else a
                src = {"kind": kind, "a": a}
                ops.append({"m": "update", "src": src})
                ops.append({"m": "ior", "src": src})
        ops += dict_extra_ops(field, 0)
        ops += [{"m": "update", "kw": {kwk[0]: v1}}, {"m": "update", "kw": {}},
                {"m": "update", "src": {"kind": "map", "a": [[k2, v2]]}, "kw": {kwk[0]: v1}},
                {"m": "update", "src": {"kind": "gen", "a": [[k2, v2]]}, "kw": {kwk[0]: v0, kwk[-1]: v1}},
                {"m": "pop", "k": k0}, {"m": "pop", "k": k2}, {"m": "pop", "k": k2, "d": 0}, {"m": "popitem"},
                {"m": "delitem", "k": k0}, {"m": "delitem", "k": k2}, {"m": "clear"}, {"m": "copy"}]
        return ops
    return [{"m": "setitem", "k": k1, "v": v1}, {"m": "setdefault", "k": k2, "v": v2},
            {"m": "update", "src": {"kind": "map", "a": pairs}},
            {"m": "update", "src": {"kind": "iter", "a": pairs}, "kw": {kwk[0]: v0}},
            {"m": "update", "src": {"kind": "diff", "a": dpairs}}, {"m": "update", "src": {"kind": "own", "a": pairs}},
            {"m": "update", "kw": {kwk[0]: v1}}, {"m": "ior", "src": {"kind": "map", "a": [[k0, v0]]}},
            {"m": "ior", "src": {"kind": "same", "a": pairs}},
            {"m": "pop", "k": k0}, {"m": "popitem"}, {"m": "delitem", "k": k1}, {"m": "copy"}, {"m": "clear"}] + \
        dict_extra_ops(field, 1)


def dict_extra_ops(field, level):
    """(1) arguments that read the receiver itself, (2) None values / keys that hold None, (3) update() with
    positional and keyword arguments whose keys overlap (also only after key normalisation)"""
    kname, vname, keys = DICT_FIELDS[field]
    F = _fields()
    vals = F[vname][1] if vname else [1, "v", [1], 1]
    k0, k1, k2 = keys[0], keys[1], keys[2]
    v0, v1, v2 = vals[0], vals[1], vals[2]
    ko = [k for k in (k1, k2, k0) if isinstance(k, str)][0]                 # a key usable as a keyword
    alias = ko.lower() if kname and ko.lower() != ko else ko                # equal to `ko` after normalisation
    if level:
        return [{"m": "update", "src": {"kind": "self-gen-map"}}, {"m": "setitem", "k": k0, "v": None},
                {"m": "setdefault", "k": k0, "v": v1},
                {"m": "update", "src": {"kind": "map", "a": [[ko, v1], [k0, v2]]}, "kw": {alias: v0}}]
    ops = []
    for kind in ("self", "self-items", "self-gen", "self-gen-map"):
        ops.append({"m": "update", "src": {"kind": kind}})
        ops.append({"m": "ior", "src": {"kind": kind}})
    ops.append({"m": "update", "src": {"kind": "self-items"}, "kw": {alias: v0}})
    ops += [{"m": "setitem", "k": k0, "v": None}, {"m": "setitem", "k": k1, "v": None},
            {"m": "setdefault", "k": k2, "v": None}, {"m": "setdefault", "k": k0, "v": None},
            {"m": "update", "src": {"kind": "map", "a": [[k0, None], [k1, v1]]}},
            {"m": "update", "src": {"kind": "gen", "a": [[k1, None]]}},
            {"m": "update", "kw": {ko: None}}, {"m": "ior", "src": {"kind": "map", "a": [[k0, None]]}}]
    for kind in ("map", "list", "gen"):
        ops.append({"m": "update", "src": {"kind": kind, "a": [[ko, v1], [k0, v2]]}, "kw": {ko: v0}})
        if alias != ko:
            ops.append({"m": "update", "src": {"kind": kind, "a": [[ko, v1], [k0, v2]]}, "kw": {alias: v0}})
    ops.append({"m": "update", "src": {"kind": "map", "a": [[ko, v1]]}, "kw": {ko: None}})
    return ops


def dict_method(op):
    return {"setitem": "__setitem__", "ior": "__ior__", "delitem": "__delitem__"}.get(op["m"], op["m"])


def dict_argclass(op):
    m = op["m"]
    if m == "setdefault":
        return "key-and-default" if "v" in op else "key-only"
    if m == "ior" and not op["src"]["kind"].startswith("self"):
        return "argument-needing-normalisation"
    if m in ("update", "ior"):
        if "src" not in op:
            return "keywords" if op.get("kw") else "no-arguments"
        k = op["src"]["kind"]
        c = {"map": "mapping", "list": "pairs-sequence", "tuple": "pairs-sequence", "iter": "pairs-iterator",
             "gen": "pairs-iterator", "same": "same-field-proxy", "own": "same-config-proxy",
             "diff": "other-field-proxy"}.get(k) or KIND_CLASS[k]
        return c + ("+keywords" if op.get("kw") else "")
    return "item" if "v" in op else "-"


# --------------------------------------------------------------------------------------------- one case

# --------------------------------------------------------------------------------------------- reflected / mixed

# distinct, acceptable and already normalised items for the plain (left) operand, per item field
LEFT_ITEMS = {"Int": [101, 102, 103], "String/upper": ["L1", "L2", "L3"], "Bool": [False, True],
              "Bytes": [{"$b": "6c31"}, {"$b": "6c32"}, {"$b": "6c33"}], "List<Int>": [[101], [102, 103], []]}


def _plus_eq(left, x):
    left0 = left
    left += x
    return [type(left) is type(left0), left is left0, left]


def _ior(left, x):
    left0 = left
    left |= x
    return [type(left) is dict, left is left0, left]


def _call(f, left, x):
    f(left, x)
    return [type(left).__name__, left]


# expression name -> (proxy method it exercises, function(fresh plain left operand, proxy or built-in))
LIST_EXPRS = {
    "list+proxy": ("__radd__", lambda L, x: L + x),
    "tuple+proxy": ("__radd__", lambda L, x: tuple(L) + x),                # TypeError with the built-in
    "list+=proxy": ("__iter__", _plus_eq),
    "sum([proxy,proxy],list)": ("__radd__", lambda L, x: sum([x, x.copy()], L)),
    "[*list,*proxy]": ("__iter__", lambda L, x: [*L, *x]),
    "list.extend(proxy)": ("__iter__", lambda L, x: _call(lambda a, b: a.extend(b), L, x)),
    "list[1:1]=proxy": ("__iter__", lambda L, x: _call(lambda a, b: a.__setitem__(slice(1, 1), b), L, x)),
    "list(proxy)": ("__iter__", lambda L, x: [type(list(x)).__name__, list(x)]),
    "tuple(proxy)": ("__iter__", lambda L, x: tuple(x)),
    "sorted(proxy)": ("__iter__", lambda L, x: sorted(x)),
    "reversed(proxy)": ("__reversed__", lambda L, x: list(reversed(x))),
    "proxy==list": ("__eq__", lambda L, x: [x == L, x != L, x == plain(x), x == [*plain(x), *L]]),
    "list==proxy": ("__eq__", lambda L, x: [L == x, L != x, plain(x) == x, [*L, *plain(x)] == x]),
    "2*proxy": ("__rmul__", lambda L, x: 2 * x),
    "0*proxy": ("__rmul__", lambda L, x: 0 * x),
    "proxy*2": ("__mul__", lambda L, x: x * 2),
    "proxy*0": ("__mul__", lambda L, x: x * 0),
    "list+proxy+list": ("__radd__", lambda L, x: L + x + L),
}
DICT_EXPRS = {
    "dict|proxy": ("__ror__", lambda D, x: D | x),
    "proxy|dict": ("__or__", lambda D, x: x | D),
    "dict|=proxy": ("__iter__", _ior),
    "{**dict,**proxy}": ("keys", lambda D, x: {**D, **x}),
    "{**proxy,**dict}": ("keys", lambda D, x: {**x, **D}),
    "dict(proxy)": ("keys", lambda D, x: [type(dict(x)).__name__, dict(x)]),
    "dict(proxy,**dict)": ("keys", lambda D, x: dict(x, **{k: v for k, v in D.items() if isinstance(k, str)})),
    "dict.update(proxy)": ("keys", lambda D, x: _call(lambda a, b: a.update(b), D, x)),
    "proxy==dict": ("__eq__", lambda D, x: [x == D, x != D, x == plain(x), x == {**plain(x), **D}]),
    "dict==proxy": ("__eq__", lambda D, x: [D == x, D != x, plain(x) == x]),
}


def run_reflected(case):
    """the proxy as right operand / argument of a built-in: the same expression on the built-in list / dict of the
    normalised items must give the same value (contents, order, length; the proxy counts as its built-in base, so
    whether a result is typed is not asserted) or the same TypeError; the proxy itself must stay as it was"""
    is_list = case["kind"] == "reflected-list"
    c = (ListCase if is_list else DictCase)(case["field"], case["init"])
    meth, f = (LIST_EXPRS if is_list else DICT_EXPRS)[case["expr"]]
    cls = "fields.list_field:ListProxy" if is_list else "fields.dict_field:DictProxy"
    wk = "reflected:" + case["expr"]

    def left():
        v = dec(case["left"])
        return list(v) if is_list else {k: x for k, x in (tuple(kv) for kv in v)}

    def run(x):
        try:
            return ("ok", f(left(), x))
        except Exception as e:
            return ("exc", type(e).__name__)
    rm, rp = run(c.m), run(c.p)
    fails = []
    if rm[0] == "exc" or rp[0] == "exc":
        if rm != rp:
            fails.append({"obligation": "%s.%s/raise:C17.reflected-raises-as-builtin" % (cls, meth), "witness_key": wk,
                          "what": "%s with left operand %s and %s: built-in %s, proxy %s" % (
                              case["expr"], short(left()), short(c.m), _oc(rm), _oc(rp))})
    elif not same(rp[1], rm[1]):
        fails.append({"obligation": "%s.%s/post:C17.reflected-as-builtin" % (cls, meth), "witness_key": wk,
                      "what": "%s with left operand %s and %s: built-in gives %s, proxy gives %s" % (
                          case["expr"], short(left()), short(c.m), short(rm[1]), short(plain(rp[1])))})
    if not same(c.p, c.m):
        fails.append({"obligation": "%s.%s/post:C17.reflected-leaves-proxy-unchanged" % (cls, meth),
                      "witness_key": wk, "what": "%s changed the proxy from %s to %s" % (
                          case["expr"], short(c.m), short(plain(c.p)))})
    for x in fails:
        x["step"] = 0
    return fails, 1


def reflected_cases():
    F = _fields()
    for field in LIST_FIELDS:
        pool, items = F[field][1], LEFT_ITEMS[field]
        for n_left in range(len(items) + 1):
            for n_proxy in range(4):
                for expr in LIST_EXPRS:
                    yield {"kind": "reflected-list", "field": field, "init": pool[:n_proxy], "left": items[:n_left],
                           "expr": expr, "ops": []}
    for field, (kname, vname, keys) in DICT_FIELDS.items():
        vals = F[vname][1] if vname else [1, "v", [1], 1]
        lvals = LEFT_ITEMS[vname] if vname else [7, "l", [8]]
        c = DictCase(field, [])
        # distinct left keys; the first one is a key the populated proxies also hold (after normalisation)
        lkeys = [c.nk(dec(keys[0])), "L2", "L3"]
        init = [[keys[0], vals[0]], [keys[1], vals[1]], [keys[2], vals[2]]]
        for n_left in range(min(len(lvals), 3) + 1):
            for n_proxy in range(4):
                for expr in DICT_EXPRS:
                    yield {"kind": "reflected-dict", "field": field, "init": init[:n_proxy],
                           "left": [[lkeys[i], lvals[i]] for i in range(n_left)], "expr": expr, "ops": []}


# --------------------------------------------------------------------------------------------- held items

_TMP = [None]                                               # the sandbox directory of the running rac() / replay()
_SEQ = [0]
HELD_RAWS = {"String/strip-X+upper": ["xax", "xbx", "xcx", "xdx", "xex"],
             "String+suffix-validator": ["a", "b", "c", "d", "e"],
             "Int+counting-validator": ["1", 2.0, 3, "4", 5],
             "Filename/not-exists-then-created": ["n1", "n2", "n3", "n4", "n5"],
             "Filename/startdir": ["r1", "s/../r2", "r3", "r4", "s/../r5"]}
HELD_DICTS = {"String/strip-X+upper->String+suffix-validator": ("String/strip-X+upper", "String+suffix-validator"),
              "->Filename/not-exists-then-created": (None, "Filename/not-exists-then-created"),
              "String/strip-X+upper->": ("String/strip-X+upper", None),
              "->Int+counting-validator": (None, "Int+counting-validator")}


def held_field(name, calls, base):
    """a field whose normalisation is not idempotent or depends on outside state; every pass through its validation
    chain is counted in calls[0].  -> (field, once: the reference single-pass normal form, after: state change)"""
    import cincoconfig as cc

    def count(cfg, value):
        calls[0] += 1
        return value

    def suffix(cfg, value):
        calls[0] += 1
        return value + "!"
    if name == "String/strip-X+upper":                      # 'xax' -> 'XAX'; a second pass would give 'A'
        return cc.StringField(transform_strip="X", transform_case="upper", validator=count), \
            (lambda r: r.strip("X").upper()), None
    if name == "String+suffix-validator":
        return cc.StringField(validator=suffix), (lambda r: r + "!"), None
    if name == "Int+counting-validator":
        return cc.IntField(validator=count), int, None

    def resolve(r):
        return os.path.abspath(os.path.join(base, r))
    if name == "Filename/not-exists-then-created":          # valid when stored; a second pass would be rejected

        def create(values):
            for v in values:
                with open(v, "w") as f:
                    f.write("x")
        return cc.FilenameField(exists=False, startdir=base, validator=count), resolve, create
    if name == "Filename/startdir":
        return cc.FilenameField(startdir=base, validator=count), resolve, None
    raise ValueError(name)


LIST_HELD_OPS = {   # op -> (method, f(cfg, p, extra raws) -> result list, number of new items, held items expected at)
    "copy": ("copy", lambda cfg, p, e: p.copy(), 0),
    "copy().copy()": ("copy", lambda cfg, p, e: p.copy().copy(), 0),
    "proxy+list": ("__add__", lambda cfg, p, e: p + list(e), 2),
    "proxy+own-copy": ("__add__", lambda cfg, p, e: p + p.copy(), 0),
    "list+proxy": ("__radd__", lambda cfg, p, e: list(e) + p, 2),
    "proxy*2": ("__mul__", lambda cfg, p, e: p * 2, 0),
    "proxy[:]": ("__getitem__", lambda cfg, p, e: p[:], 0),
    "extend(own-copy)": ("extend", lambda cfg, p, e: (p.extend(p.copy()), p)[1], 0),
    "+=(own-copy)": ("__iadd__", lambda cfg, p, e: p.__iadd__(p.copy()), 0),
    "extend(self)": ("extend", lambda cfg, p, e: (p.extend(p), p)[1], 0),
    "cfg.f=cfg.f": ("ListField._validate", lambda cfg, p, e: (setattr(cfg, "f", cfg.f), cfg.f)[1], 0),
    "cfg.f=cfg.f.copy()": ("ListField._validate", lambda cfg, p, e: (setattr(cfg, "f", cfg.f.copy()), cfg.f)[1], 0),
}
DICT_HELD_OPS = {
    "copy": ("copy", lambda cfg, p, e: p.copy(), 0),
    "proxy|dict": ("__or__", lambda cfg, p, e: p | dict(e), 2),
    "proxy|own-copy": ("__or__", lambda cfg, p, e: p | p.copy(), 0),
    "update(own-copy)": ("update", lambda cfg, p, e: (p.update(p.copy()), p)[1], 0),
    "|=(own-copy)": ("__ior__", lambda cfg, p, e: p.__ior__(p.copy()), 0),
    "update(self)": ("update", lambda cfg, p, e: (p.update(p), p)[1], 0),
    "cfg.f=cfg.f": ("DictField._validate", lambda cfg, p, e: (setattr(cfg, "f", cfg.f), cfg.f)[1], 0),
    "cfg.f=cfg.f.copy()": ("DictField._validate", lambda cfg, p, e: (setattr(cfg, "f", cfg.f.copy()), cfg.f)[1], 0),
}
HELD_SHAPE = {"copy": 1, "copy().copy()": 1, "proxy+list": "prefix", "proxy+own-copy": 2, "list+proxy": "suffix",
              "proxy*2": 2, "proxy[:]": 1, "extend(own-copy)": 2, "+=(own-copy)": 2, "extend(self)": 2,
              "cfg.f=cfg.f": 1, "cfg.f=cfg.f.copy()": 1, "proxy|dict": "prefix", "proxy|own-copy": 1,
              "update(own-copy)": 1, "|=(own-copy)": 1, "update(self)": 1}


def run_held(case):
    """copies and concatenations of a proxy whose item normalisation is not idempotent / has state: the result is
    what the built-in gives over the items the proxy HOLDS; held items are not passed through validation again"""
    import cincoconfig as cc
    is_list = case["kind"] == "held-list"
    _SEQ[0] += 1
    base = os.path.join(_TMP[0], "held", str(_SEQ[0]))
    os.makedirs(os.path.join(base, "s"))
    calls = [0]
    n, opname = case["n"], case["op"]
    schema = cc.Schema()
    if is_list:
        field, once, after = held_field(case["field"], calls, base)
        schema.f = cc.ListField(field, default=lambda: [])
        raws = HELD_RAWS[case["field"]]
        cfg = schema()
        cfg.f = list(raws[:n])
        held = list(cfg.f)
        want0 = [once(r) for r in raws[:n]]
        extra = raws[3:5]
        if after:
            after(held)
        meth, f, new = LIST_HELD_OPS[opname]
        cls = "fields.list_field:ListProxy"
    else:
        kname, vname = HELD_DICTS[case["field"]]
        kf, konce, _ = held_field(kname, calls, base) if kname else (None, lambda r: r, None)
        vf, vonce, after = held_field(vname, calls, base) if vname else (None, lambda r: r, None)
        schema.f = cc.DictField(kf, vf, default=lambda: {})
        kraws = HELD_RAWS[kname] if kname else ["k1", "k2", "k3", "k4", "k5"]
        vraws = HELD_RAWS[vname] if vname else [1, "v", [2], 4, "w"]
        cfg = schema()
        cfg.f = {kraws[i]: vraws[i] for i in range(n)}
        held = list(cfg.f.items())
        want0 = [(konce(kraws[i]), vonce(vraws[i])) for i in range(n)]
        extra = [(kraws[i], vraws[i]) for i in (3, 4)]
        if after:
            after([v for _, v in held])
        meth, f, new = DICT_HELD_OPS[opname]
        cls = "fields.dict_field:DictProxy"
    ob = "%s.%s" % (cls, meth) if "Field." not in meth else "fields.%s:%s" % (
        "list_field" if is_list else "dict_field", meth)
    wk = "non-idempotent-items:%s/%s" % (opname, case["field"])
    fails = []
    if not same(held, want0):                               # precondition of the scenario, not the clause under test
        return [{"obligation": ob + "/pre:C17.held-items-normalised-once", "witness_key": wk, "step": 0,
                 "what": "storing %s gave %s, one pass of the normal form gives %s" % (
                     short(raws[:n] if is_list else extra), short(held), short(want0))}], 1
    before = calls[0]
    try:
        res = f(cfg, cfg.f, extra)
    except Exception as e:
        return [{"obligation": ob + "/raise:C17.held-items-taken-as-they-are", "witness_key": wk, "step": 0,
                 "what": "%s on a proxy holding %s raises %s: %s" % (opname, short(held), type(e).__name__,
                                                                     short(str(e)))}], 1
    got = list(res) if is_list else list(res.items())
    shape = HELD_SHAPE[opname]
    if shape == "prefix":
        ok = same(got[:len(held)], held) and len(got) == len(held) + len(extra)
        want = "%s + %d new" % (short(held), len(extra))
    elif shape == "suffix":
        ok = same(got[len(got) - len(held):], held) and len(got) == len(held) + len(extra)
        want = "%d new + %s" % (len(extra), short(held))
    else:
        ok = same(got, held * shape if is_list else held)
        want = short(held * shape if is_list else held)
    if not ok:
        fails.append({"obligation": ob + "/post:C17.held-items-kept", "witness_key": wk,
                      "what": "%s on a proxy holding %s: expected %s, got %s" % (opname, short(held), want,
                                                                                 short(got))})
    grown = calls[0] - before
    allowed = new * (1 if is_list else 2)
    if grown > allowed:
        fails.append({"obligation": ob + "/post:C17.held-items-not-revalidated", "witness_key": wk,
                      "what": "%s on a proxy holding %d items ran the item validator %d times (at most %d new items)"
                              % (opname, len(held), grown, allowed)})
    for x in fails:
        x["step"] = 0
    return fails, 1


def held_cases():
    for field in HELD_RAWS:
        for n in range(4):
            for op in LIST_HELD_OPS:
                yield {"kind": "held-list", "field": field, "n": n, "op": op, "init": [], "ops": []}
    for field in HELD_DICTS:
        for n in range(4):
            for op in DICT_HELD_OPS:
                yield {"kind": "held-dict", "field": field, "n": n, "op": op, "init": [], "ops": []}


def run_case(case):
    """-> (failures, steps run).  A failure: {"obligation", "witness_key", "what", "step"}; stops at the first
    failing step (the two sides have diverged)."""
    if case["kind"].startswith("reflected"):
        return run_reflected(case)
    if case["kind"].startswith("held"):
        return run_held(case)
    is_list = case["kind"] == "list"
    c = (ListCase if is_list else DictCase)(case["field"], case["init"])
    cls = "fields.list_field:ListProxy" if is_list else "fields.dict_field:DictProxy"
    method = list_method if is_list else dict_method
    argclass = list_argclass if is_list else dict_argclass
    last = len(case["ops"]) - 1
    fails = _compare_state(c, cls, "__init__", "initial-value", {"m": "init"}, queries=last < 0)
    if fails:
        for f in fails:
            f["step"] = -1
        return fails, 0
    for n, op in enumerate(case["ops"]):
        before = c.m.copy()
        ob, wk = "%s.%s" % (cls, method(op)), argclass(op)
        if not is_list and "k" in op and before.get(c.nk(dec(op["k"])), 0) is None:
            wk += "+present-key-holding-None"
        (rp, rm) = c.apply(op)
        fails = []
        if rm[0] == "exc":
            # the arguments are not acceptable to the built-in in this state (IndexError/KeyError/ValueError/
            # RuntimeError): the property is silent about the outcome.  If the built-in left its contents alone the
            # proxy's contents are still compared below; if it stopped half-way the case ends without a verdict.
            if not same(before, c.m):
                return [], n + 1
        elif rp[0] == "exc":
            fails.append({"obligation": ob + "/raise:C17.accepts-what-builtin-accepts", "witness_key": wk,
                          "what": "%s: built-in returns %s, proxy raises %s" % (json.dumps(op), short(rm[1]), rp[1])})
        else:
            if op["m"] in ("copy", "add"):
                problem = c.typed_result(rp[1])
                if problem:
                    fails.append({"obligation": ob + "/post:C17.result-typed-and-validating", "witness_key": wk,
                                  "what": "%s: %s" % (json.dumps(op), problem)})
            if not same(rp[1], rm[1]):
                fails.append({"obligation": ob + "/post:C17.return-as-builtin", "witness_key": wk,
                              "what": "%s: built-in returns %s, proxy returns %s" % (
                                  json.dumps(op), short(rm[1]), short(plain(rp[1])))})
            if op["m"] in ("copy", "add") and not fails:     # go on with the copy / the concatenation
                c.p, c.m = rp[1], rm[1]
        if not (fails and rp[0] == "exc"):
            fails += _compare_state(c, cls, method(op), wk, op, queries=n == last and not fails)
        if fails:
            for f in fails:
                f["step"] = n
            return fails, n + 1
    return [], len(case["ops"])


def _oc(r):
    return "raises %s" % r[1] if r[0] == "exc" else "returns %s" % short(plain(r[1]))


def _compare_state(c, cls, meth, wk, op, queries):
    """contents, order and length after every operation; the query battery once, at the end of the sequence
    (every proper prefix of a sequence is a case of its own)"""
    fails = []
    if not same(c.p, c.m):
        fails.append({"obligation": "%s.%s/post:C17.contents-as-builtin" % (cls, meth), "witness_key": wk,
                      "what": "after %s: built-in holds %s, proxy holds %s" % (json.dumps(op), short(c.m),
                                                                             short(plain(c.p)))})
        return fails
    for name, qp, qm in (c.queries() if queries else ()):
        agree = (qp[0] == qm[0]) and (qp[0] == "exc" and qp[1] == qm[1] or
                                     qp[0] == "ok" and same(qp[1], qm[1]))
        if not agree:
            fails.append({"obligation": "%s.%s/post:C17.query-as-builtin" % (cls, name), "witness_key": "query",
                          "what": "after %s: %s gives %s on the built-in, %s on the proxy" % (
                              json.dumps(op), name, _oc(qm), _oc(qp))})
            break
    return fails


# --------------------------------------------------------------------------------------------- enumeration

LEN3_LIST = ("Int", "String/upper", "List<Int>")           # quick tier: length-3 sequences for these fields only
LEN3_DICT = ("String/upper->Int", "->String/upper", "->Bool")


def pairs2(full, small, wide, main):
    """length-2 sequences: full x full for the main fields from the populated value, full x small + small x full for
    the other fields, small x small from the other initial values"""
    if not wide:
        return [(a, b) for a in small for b in small]
    if main:
        return [(a, b) for a in full for b in full]
    out = [(a, b) for a in full for b in small]
    return out + [(a, b) for a in small for b in full if a not in small or b not in small]


def cases(tier):
    F = _fields()
    yield from reflected_cases()
    yield from held_cases()
    for field in LIST_FIELDS:
        pool = F[field][1]
        full, small = list_ops(field, 0), list_ops(field, 1)
        inits = [[], [pool[0], pool[1], pool[3]]]
        for init in inits:
            yield {"kind": "list", "field": field, "init": init, "ops": []}
            for a in full:
                yield {"kind": "list", "field": field, "init": init, "ops": [a]}
            for a, b in pairs2(full, small, bool(init), tier != "quick" or field in LEN3_LIST):
                yield {"kind": "list", "field": field, "init": init, "ops": [a, b]}
        for a in small if tier != "quick" or field in LEN3_LIST else ():
            for b in small:
                for c in small:
                    yield {"kind": "list", "field": field, "init": inits[1], "ops": [a, b, c]}
    for field in DICT_FIELDS:
        kname, vname, keys = DICT_FIELDS[field]
        vals = F[vname][1] if vname else [1, "v", [1], 1]
        full, small = dict_ops(field, 0), dict_ops(field, 1)
        inits = [[], [[keys[0], vals[0]], [keys[2], vals[1]]], [[keys[0], None], [keys[2], vals[1]], [keys[1], None]]]
        for init in inits:
            wide = init == inits[1]
            yield {"kind": "dict", "field": field, "init": init, "ops": []}
            for a in full:
                yield {"kind": "dict", "field": field, "init": init, "ops": [a]}
            for a, b in pairs2(full, small, wide, tier != "quick" or field in LEN3_DICT):
                yield {"kind": "dict", "field": field, "init": init, "ops": [a, b]}
        for a in small if tier != "quick" or field in LEN3_DICT else ():
            for b in small:
                for c in small:
                    yield {"kind": "dict", "field": field, "init": inits[1 + (field == "->Bool")], "ops": [a, b, c]}


def random_case(rng):
    F = _fields()
    if rng.random() < 0.5:
        field = LIST_FIELDS[rng.randrange(len(LIST_FIELDS))]
        pool, ops = F[field][1], list_ops(field, 0)
        init = [pool[rng.randrange(len(pool))] for _ in range(rng.randrange(4))]
        return {"kind": "list", "field": field, "init": init, "ops": [ops[rng.randrange(len(ops))] for _ in range(5)]}
    names = list(DICT_FIELDS)
    field = names[rng.randrange(len(names))]
    kname, vname, keys = DICT_FIELDS[field]
    vals = F[vname][1] if vname else [1, "v", [1], 1]
    ops = dict_ops(field, 0)
    init = [[keys[rng.randrange(len(keys))], vals[rng.randrange(len(vals))]] for _ in range(rng.randrange(3))]
    return {"kind": "dict", "field": field, "init": init, "ops": [ops[rng.randrange(len(ops))] for _ in range(5)]}


def rac(tier="quick", seed=0):
    rec = Recorder(
        PID,
        rule="differential: real ListProxy / DictProxy taken from a real configuration vs a built-in list / dict of the "
             "normalised items (independent normal form); item fields Int, String(upper), Bool, Bytes, nested "
             "List<Int>; dict fields with typed key, typed value or both; one case = (container kind, field, initial "
             "contents, operation sequence); after every operation the built-in accepts: return value (identity "
             "for += / *= / |=), contents + order + length; proxy must not raise; copy() and + results must be "
             "proxies of the same field that reject an unacceptable item and normalise an acceptable one; at the "
             "end of every sequence 15 (list) / 19 (dict) queries are compared (every prefix of a sequence is a case of its own); "
             "non-trivial = at least one operation ran (or the case checks an initial value)",
        bound="operations: append, insert, extend, +=, +, index and slice assignment (plain, empty, extended slices; "
              "index object with __index__), *, *=, copy, pop, remove, del index/slice, sort, reverse, clear; "
              "item assignment, update(mapping | pairs | keywords | both | nothing), setdefault(k[, d]), |=, pop, "
              "popitem, del, clear, copy; iterable kinds list, tuple, iterator, generator, proxy of the same field "
              "(other and same configuration), proxy of a different field, and iterables that read the receiver itself "
              "lazily (the receiver, iter(p), reversed(p), plain / filtering / re-spelling generators over p, for "
              "extend and += cut off after 5 items; p.items(), generators over p.items() and p for update and |=), "
              "modelled by the same iterable over the built-in; None values and keys that hold None (setdefault, "
              "update, get, in, []); update(positional, **keywords) with keys that overlap, also only after "
              "normalisation; reflected / mixed-operand expressions with the proxy as right operand or argument of a "
              "built-in (list + p, tuple + p, list += p, sum, [*l, *p], list.extend(p), l[1:1] = p, list/tuple/sorted/"
              "reversed(p), == both ways, n * p, p * n; dict | p, p | dict, dict |= p, {**d, **p}, dict(p), "
              "dict.update(p), ==) for plain operands of 0..3 distinct items and proxies of 0..3 items, against the "
              "same expression on the built-in (a TypeError must be a TypeError; result typedness not asserted); "
              "copies and concatenations of proxies holding 0..3 items of fields whose normalisation is not "
              "idempotent or has state (strip 'X' + upper, suffixing / counting validator, FilenameField(exists=False) "
              "after the files were created, FilenameField(startdir)): copy, + list, + own copy, list + p, * 2, [:], "
              "extend / += own copy, extend(self), cfg.f = cfg.f (.copy()); dict copy, | dict, | own copy, update / "
              "|= own copy, update(self), cfg.f = cfg.f (.copy()): held items are kept exactly and not validated "
              "again (validator call count); all sequences of length 1 from an empty "
              "and a populated value, of length 2 over the full pool from the populated value for three fields of each "
              "kind (full x reduced and reduced x full for the other two; reduced pool from the other initial "
              "values), of length 3 over a reduced pool of 20 (list) / 18 (dict) operations for three fields of each "
              "kind; an operation that does not end within 0.5 s leaves its case undecided (result key undecided), never a "
              "violation; thorough: all fields at length 3, + seeded "
              "random sequences of length 5 until the budget is used",
        tier=tier, seed=seed)
    steps = 0
    _SCHEMAS.clear()
    del UNDECIDED[:]
    NONTERMINATING.clear()
    with sandbox() as tmp:
        _TMP[0] = tmp
        for case in cases(tier):
            steps += _one(rec, case)
        if tier != "quick":
            while not rec.out_of_time():
                steps += _one(rec, random_case(rec.rng))
    res = rec.result(exhaustive=False)
    res["steps"] = steps
    res["undecided"] = list(UNDECIDED[:20])                 # cases in which an operation did not terminate in time
    res["undecided_count"] = len(UNDECIDED)
    return res


UNDECIDED = []
NONTERMINATING = {}                                         # (method, kind of self-reading iterable) -> timeouts seen


def _self_ops(case):
    return [(op["m"], op["src"]["kind"]) for op in case["ops"] if op.get("src", {}).get("kind", "").startswith("self")]


def _one(rec, case):
    try:
        if any(NONTERMINATING.get(sig, 0) >= 2 for sig in _self_ops(case)):
            raise _Timeout()                                # this operation form already ran into the time limit twice
        fails, n = run_case(case)
    except _Timeout:                                        # never a violation: listed as undecided in the result
        if len(_self_ops(case)) == 1 or len(case["ops"]) == 1:
            for sig in _self_ops(case):
                NONTERMINATING[sig] = NONTERMINATING.get(sig, 0) + 1
        UNDECIDED.append(case)
        fails, n = [], 0
    rec.case(key=json.dumps(case, sort_keys=True), nontrivial=n > 0 or not case["ops"],
             sample=case if len(case["ops"]) == 3 and rec.evaluations % 1499 == 0 else None)
    for f in fails:
        if any(v["obligation"] == f["obligation"] and v["witness_key"] == f["witness_key"] for v in rec.violations):
            continue
        rp = dict(case, ops=case["ops"][:f["step"] + 1], obligation=f["obligation"], witness_key=f["witness_key"])
        rp = _shrink(rp)
        again = replay(rp)                                  # reported only as a checked, reproducible fact
        if not again["fails"]:
            raise RuntimeError("C17 driver: violation not reproduced from scratch: %s" % json.dumps(rp))
        rec.violation(obligation=f["obligation"], what=again["observed"], replay=rp, witness_key=f["witness_key"])
    return n


def _shrink(rp):
    """drop leading operations / the initial contents while the same (obligation, witness) still fails"""
    best = rp
    if rp["kind"].startswith(("reflected", "held")):
        return rp
    for cand in (dict(rp, ops=rp["ops"][-1:]), dict(rp, ops=rp["ops"][-1:], init=[]), dict(rp, init=[])):
        if len(json.dumps(cand)) < len(json.dumps(best)) and _fails(cand):
            best = cand
    return best


def _fails(case):
    fails, _ = run_case(case)
    return [f for f in fails if f["obligation"] == case.get("obligation", f["obligation"])
            and f["witness_key"] == case.get("witness_key", f["witness_key"])]


def replay(case):
    """re-execute one replay dict on the current /repo"""
    with sandbox() as tmp:
        outer, _TMP[0] = _TMP[0], tmp
        try:
            hit = _fails(case)
            other = [] if hit else run_case(case)[0]
        finally:
            _TMP[0] = outer
    return {"fails": bool(hit), "expected": "the proxy behaves like the built-in holding the normalised items",
            "observed": hit[0]["what"] if hit else "no failure of %s (other failures: %s)" % (
                case.get("obligation"), [f["obligation"] for f in other])}
