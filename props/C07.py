"""C07 - key files: used verbatim, created once, rejected if malformed, never retained."""
META = {
    "level": "proof",
    "externals": ["os.path", "os.urandom", "open"],
    "trusted_base": [
        "file model: open(p,'rb') raises OSError iff p is absent or unreadable, else read() returns its bytes; "
        "open(p,'wb') raises OSError iff p is unwritable, else truncates; write appends",
        "os.urandom(32) returns 32 bytes (next draw of the random stream)",
        "os.path.expanduser is a deterministic function",
    ],
    "assumptions": [
        "single thread; no other process changes the key file between open() and read() of one __load_key call",
        "contexts are properly nested (requires refcount >= 1 on __exit__)",
    ],
    "explanation": "KeyFile methods verified against contracts with the ghost file system fs: path -> optional bytes; "
                   "session-level claims are lemmas over those contracts (props/lemmas/c07.py).",
}

try:
    from props.C07_rac import rac, replay   # bounded run-time contract driver (stand-in + replay harness)
except ImportError:   # pragma: no cover
    pass
