"""C18 bounded run-time contract driver: including files is a deep merge in the including scope, included values
win; IncludeField.combine_trees == reference merge and mutates neither input; load with includes == load of the single
merged tree (root scope, nested scopes, two includes in one scope); paths resolve against startdir, absolute paths work,
a missing file / a directory makes the load fail; all five formats.
"""
import copy
import hashlib
import itertools
import json
import os

from pyvc.raclib import Recorder, sandbox, strict_eq

PID = "C18"
FORMATS = ("json", "pickle", "xml", "yaml", "bson")


# ------------------------------------------------------------------------------------------------ reference (from the property)
def merge(base, child):
    """deep merge: keys of one side kept, included (child) values win, two maps merge recursively"""
    out = {}
    for k in base:
        if k not in child:
            out[k] = copy.deepcopy(base[k])
    for k in child:
        if k in base and isinstance(base[k], dict) and isinstance(child[k], dict):
            out[k] = merge(base[k], child[k])
        else:
            out[k] = copy.deepcopy(child[k])
    return out


def _canon(tree):
    return json.dumps(tree, sort_keys=True)


def _same_tree(a, b):
    """extensional equality of plain trees: same keys (order irrelevant), type-strict equal leaves"""
    return strict_eq(a, b)


# ------------------------------------------------------------------------------------------------ tree pools
def _trees(keys, leaves, depth):
    """all dicts over `keys` (each absent or present) whose values are leaves or, below depth, such dicts again"""
    vals = list(leaves)
    if depth > 1:
        vals = vals + _trees(keys, leaves, depth - 1)
    out = []
    for combo in itertools.product([None] + list(range(len(vals))), repeat=len(keys)):
        out.append({k: copy.deepcopy(vals[i]) for k, i in zip(keys, combo) if i is not None})
    return out


def _random_tree(rng, depth, keys=("a", "b", "c", "d"), leaves=(0, 1, "x", "", None, True, 1.5, [1, 2], [], [{"a": 1}])):
    out = {}
    for k in keys:
        r = rng.random()
        if r < 0.3:
            continue
        if r < 0.65 and depth > 1:
            out[k] = _random_tree(rng, depth - 1, keys, leaves)
        else:
            out[k] = copy.deepcopy(leaves[rng.randrange(len(leaves))])
    return out


def _check_combine(base, child):
    """-> list of (obligation, what, witness_key)"""
    import cincoconfig as cc
    fails = []
    field = cc.IncludeField()
    b0, c0 = copy.deepcopy(base), copy.deepcopy(child)
    got = field.combine_trees(base, child)
    want = merge(b0, c0)
    overlap = [k for k in b0 if k in c0]
    if any(isinstance(b0[k], dict) and isinstance(c0[k], dict) for k in overlap):
        cls = "map-map"
    elif any(isinstance(b0[k], dict) != isinstance(c0[k], dict) for k in overlap):
        cls = "map-nonmap-conflict"
    elif overlap:
        cls = "leaf-leaf"
    else:
        cls = "disjoint"
    if not _same_tree(got, want):
        fails.append(("fields.include_field:IncludeField.combine_trees/post:C18.equals-deep-merge",
                      "combine_trees(%r, %r) = %r, deep merge is %r" % (b0, c0, got, want), cls))
    if not _same_tree(base, b0) or list(base) != list(b0):
        fails.append(("fields.include_field:IncludeField.combine_trees/post:C18.base-not-mutated",
                      "combine_trees(%r, %r) left base as %r" % (b0, c0, base), cls))
    if not _same_tree(child, c0) or list(child) != list(c0):
        fails.append(("fields.include_field:IncludeField.combine_trees/post:C18.child-not-mutated",
                      "combine_trees(%r, %r) left child as %r" % (b0, c0, child), cls))
    return fails


# ------------------------------------------------------------------------------------------------ load == load of merged tree
def _schema(startdir):
    """include fields at the root (two: chain in one scope), in a nested schema and in a depth-3 schema"""
    import cincoconfig as cc
    s = cc.Schema()
    s.inc = cc.IncludeField(startdir=startdir)
    s.inc2 = cc.IncludeField(startdir=startdir)
    s.x = cc.IntField(default=0)
    s.y = cc.StringField(default="dy")
    s.l = cc.ListField(cc.IntField(), default=lambda: [9])
    s.free = cc.DictField(default=dict)
    s.tags = cc.ListField(default=list)  # untyped: the configuration holds the very list the loader produced
    s.sub.tags = cc.ListField(default=list)
    s.sub.inc = cc.IncludeField(startdir=startdir)
    s.sub.inc2 = cc.IncludeField(startdir=startdir)
    s.sub.p = cc.IntField(default=0)
    s.sub.q = cc.StringField(default="dq")
    s.sub.free = cc.DictField(default=dict)
    s.sub.deep.inc = cc.IncludeField(startdir=startdir)
    s.sub.deep.r = cc.IntField(default=0)
    s.sub.deep.s = cc.StringField(default="ds")
    s.plain.u = cc.IntField(default=0)  # nested schema without include field
    s.plain.v = cc.StringField(default="dv")
    return s


SCOPES = {"root": (), "sub": ("sub",), "deep": ("sub", "deep")}

# scenario: main document + files; "includes": scope -> {include key: file name}; file trees are relative to their scope
SCENARIOS = [
    {"name": "root-one", "main": {"x": 1, "y": "main", "sub": {"p": 1}},
     "includes": {"root": {"inc": "r1"}}, "files": {"r1": {"x": 2, "sub": {"q": "from-r1"}, "plain": {"u": 5}}}},
    {"name": "root-overrides-all", "main": {"x": 1, "y": "main", "l": [1], "free": {"a": 1, "m": {"k": 1, "j": 1}}},
     "includes": {"root": {"inc": "r1"}},
     "files": {"r1": {"x": 2, "y": "inc", "l": [2, 3], "free": {"b": 2, "m": {"k": 2}}}}},
    {"name": "root-disjoint", "main": {"x": 1}, "includes": {"root": {"inc": "r1"}},
     "files": {"r1": {"y": "inc", "sub": {"p": 4, "deep": {"r": 5}}}}},
    {"name": "root-map-nonmap", "main": {"free": {"a": {"k": 1}, "b": 3}}, "includes": {"root": {"inc": "r1"}},
     "files": {"r1": {"free": {"a": 7, "b": {"z": 1}}}}},
    {"name": "root-chain-two", "main": {"x": 1, "y": "main", "sub": {"p": 1, "q": "main"}},
     "includes": {"root": {"inc": "r1", "inc2": "r2"}},
     "files": {"r1": {"x": 2, "y": "r1", "sub": {"p": 2}}, "r2": {"x": 3, "sub": {"q": "r2"}, "plain": {"v": "r2"}}}},
    {"name": "root-second-only", "main": {"x": 1}, "includes": {"root": {"inc2": "r2"}}, "files": {"r2": {"x": 3, "y": "r2"}}},
    {"name": "sub-one", "main": {"x": 1, "sub": {"p": 1, "q": "main"}}, "includes": {"sub": {"inc": "s1"}},
     "files": {"s1": {"p": 2, "deep": {"r": 8}, "free": {"a": 1}}}},
    {"name": "sub-chain-two", "main": {"sub": {"p": 1, "q": "main", "free": {"m": {"a": 1}}}},
     "includes": {"sub": {"inc": "s1", "inc2": "s2"}},
     "files": {"s1": {"p": 2, "q": "s1", "free": {"m": {"b": 2}}}, "s2": {"p": 3, "free": {"m": {"a": 9}, "n": 1}}}},
    {"name": "deep-one", "main": {"sub": {"deep": {"r": 1, "s": "main"}}}, "includes": {"deep": {"inc": "d1"}},
     "files": {"d1": {"r": 2}}},
    {"name": "all-scopes", "main": {"x": 1, "sub": {"p": 1, "deep": {"r": 1, "s": "main"}}},
     "includes": {"root": {"inc": "r1"}, "sub": {"inc": "s1"}, "deep": {"inc": "d1"}},
     "files": {"r1": {"x": 2, "y": "r1"}, "s1": {"p": 2, "q": "s1"}, "d1": {"r": 2}}},
    {"name": "root-and-sub-same-key-names", "main": {"x": 1, "free": {"a": 1}, "sub": {"p": 1, "free": {"a": 1}}},
     "includes": {"root": {"inc": "r1"}, "sub": {"inc": "s1"}},
     "files": {"r1": {"free": {"a": 2, "b": 2}}, "s1": {"free": {"a": 3, "c": 3}}}},
    {"name": "included-file-empty", "main": {"x": 1, "y": "main"}, "includes": {"root": {"inc": "r1"}}, "files": {"r1": {}}},
    {"name": "no-include-named", "main": {"x": 1, "sub": {"p": 2}}, "includes": {}, "files": {}},
]
PATH_MODES = ("relative", "relative-subdir", "absolute", "absolute-no-startdir")


def _scope_get(tree, scope):
    for k in SCOPES[scope]:
        tree = tree.setdefault(k, {})
    return tree


def _expected_tree(sc, filename_of):
    """the single tree of the property: each included file merged into the scope that names it, in declaration order"""
    tree = copy.deepcopy(sc["main"])
    for scope in ("root", "sub", "deep"):
        incs = sc["includes"].get(scope, {})
        if not incs:
            continue
        node = _scope_get(tree, scope)
        for key in ("inc", "inc2"):
            if key in incs:
                node[key] = filename_of(incs[key])
    for scope in ("root", "sub", "deep"):
        incs = sc["includes"].get(scope, {})
        for key in ("inc", "inc2"):
            if key not in incs:
                continue
            if scope == "root":
                tree = merge(tree, sc["files"][incs[key]])
            else:
                parent = _scope_get(tree, {"sub": "root", "deep": "sub"}[scope])
                last = SCOPES[scope][-1]
                parent[last] = merge(parent[last], sc["files"][incs[key]])
    return tree


def _dump(fmt, tree):
    import cincoconfig as cc
    return cc.ConfigFormat.get(fmt).dumps(None, tree)


def _observable(cfg):
    import cincoconfig as cc
    tree = cfg.to_tree()
    marks = sorted(p for p, _s, f in cc.get_all_fields(cfg) if not isinstance(f, cc.Schema) and cc.is_value_defined(cfg, p))
    return tree, marks


def _check_load(sc, fmt, mode, tmp, via):
    """load main document with includes == load_tree / loads of the merged tree"""
    import cincoconfig as cc
    fails = []
    base = os.path.join(tmp, "%s-%s-%s-%s" % (sc["name"], fmt, mode, via))
    incdir = os.path.join(base, "inc")
    os.makedirs(os.path.join(incdir, "nested"), exist_ok=True)
    startdir = None if mode == "absolute-no-startdir" else incdir

    def location(name):
        rel = os.path.join("nested", name + "." + fmt) if mode == "relative-subdir" else name + "." + fmt
        return rel, os.path.join(incdir, rel)

    def named(name):  # what the including document says
        rel, full = location(name)
        return rel if mode.startswith("relative") else full

    def resolved(name):  # what the field holds after validation
        return os.path.abspath(location(name)[1])

    for name, tree in sc["files"].items():
        with open(location(name)[1], "wb") as fp:
            fp.write(_dump(fmt, tree))
    main = copy.deepcopy(sc["main"])
    for scope, incs in sc["includes"].items():
        node = _scope_get(main, scope)
        for key, name in incs.items():
            node[key] = named(name)
    doc = _dump(fmt, main)
    schema = _schema(startdir)
    cfg = schema()
    try:
        if via == "loads":
            cfg.loads(doc, fmt)
        else:
            mainfile = os.path.join(base, "main." + fmt)
            with open(mainfile, "wb") as fp:
                fp.write(doc)
            cfg.load(mainfile, fmt)
    except Exception as exc:
        return [("core:Config.loads/post:C18.load-equals-load-of-merged-tree",
                 "scenario %s (%s, %s path): load raised %s: %s" % (sc["name"], fmt, mode, type(exc).__name__, exc),
                 "raises:%s" % sc["name"])]
    want_tree = _expected_tree(sc, named)
    ref = _schema(startdir)()
    ref.load_tree(copy.deepcopy(want_tree))
    ref2 = _schema(startdir)()
    ref2.loads(_dump(fmt, want_tree), fmt)  # the merged tree names the files too; merging a file twice is idempotent
    got, got_marks = _observable(cfg)
    want, want_marks = _observable(ref)
    want2, want2_marks = _observable(ref2)
    if not _same_tree(got, want2) or got_marks != want2_marks:
        fails.append(("core:Config.loads/post:C18.load-equals-load-of-merged-tree",
                      "scenario %s (%s, %s path, %s): differs from loads(document of the merged tree): %r vs %r"
                      % (sc["name"], fmt, mode, via, got, want2), sc["name"]))
    if not _same_tree(got, want) or got_marks != want_marks:
        diff = sorted(k for k in set(_flat(got)) | set(_flat(want)) if _flat(got).get(k, "<absent>") != _flat(want).get(k, "<absent>"))
        fails.append(("core:Config.loads/post:C18.load-equals-load-of-merged-tree",
                      "scenario %s (%s, %s path, %s): differs from load_tree(merged) at %r: loaded %r, merged %r; "
                      "user-defined %r vs %r" % (sc["name"], fmt, mode, via, diff, {k: _flat(got).get(k) for k in diff},
                                                 {k: _flat(want).get(k) for k in diff}, got_marks, want_marks),
                      sc["name"]))
    # the values themselves (independent of load_tree): every key of the merged tree is what the config holds
    flat_got = _flat(got)
    for path, val in _flat(want_tree).items():
        if path in ("inc", "inc2", "sub.inc", "sub.inc2", "sub.deep.inc"):
            val = resolved(os.path.splitext(os.path.basename(val))[0])
        if not strict_eq(flat_got.get(path, "<absent>"), val):
            fails.append(("core:Config.loads/post:C18.included-values-win",
                          "scenario %s (%s, %s path, %s): %s is %r, merged tree says %r"
                          % (sc["name"], fmt, mode, via, path, flat_got.get(path, "<absent>"), val), sc["name"]))
            break
    return fails


def _flat(tree, prefix=""):
    out = {}
    for k, v in tree.items():
        if isinstance(v, dict) and v:
            out.update(_flat(v, prefix + k + "."))
        else:
            out[prefix + k] = v
    return out


def _check_path(kind, fmt, tmp):
    """startdir resolution / failing loads.  kind: two-startdirs | missing | directory | missing-absolute |
    missing-in-sub | relative-not-in-other-dir"""
    import cincoconfig as cc
    fails = []
    base = os.path.join(tmp, "path-%s-%s" % (kind, fmt))
    dir_a, dir_b = os.path.join(base, "A"), os.path.join(base, "B")
    os.makedirs(dir_a, exist_ok=True)
    os.makedirs(dir_b, exist_ok=True)
    name = "f." + fmt
    with open(os.path.join(dir_a, name), "wb") as fp:
        fp.write(_dump(fmt, {"x": 11}))
    with open(os.path.join(dir_b, name), "wb") as fp:
        fp.write(_dump(fmt, {"x": 22}))
    with open(os.path.join(dir_a, "only_a." + fmt), "wb") as fp:
        fp.write(_dump(fmt, {"x": 33}))
    os.makedirs(os.path.join(dir_a, "adir." + fmt), exist_ok=True)

    def load(startdir, main):
        cfg = _schema(startdir)()
        before = cfg.to_tree()
        try:
            cfg.loads(_dump(fmt, main), fmt)
        except Exception as exc:
            return cfg, before, exc
        return cfg, before, None

    if kind == "two-startdirs":
        for d, want in ((dir_a, 11), (dir_b, 22)):
            cfg, _b, exc = load(d, {"inc": name, "x": 1})
            if exc is not None or cfg.x != want or cfg.inc != os.path.join(d, name):
                fails.append(("fields.include_field:IncludeField.include/post:C18.resolves-against-startdir",
                              "startdir %s, include %r: x = %r, inc = %r, raised %r; expected x = %d from %s"
                              % (d, name, getattr(cfg, "x", None), getattr(cfg, "inc", None), exc, want,
                                 os.path.join(d, name)), "two-startdirs"))
    else:
        main = {"missing": {"inc": "nope." + fmt, "x": 1},
                "missing-absolute": {"inc": os.path.join(dir_a, "nope." + fmt), "x": 1},
                "directory": {"inc": "adir." + fmt, "x": 1},
                "missing-in-sub": {"x": 1, "sub": {"inc": "nope." + fmt, "p": 1}},
                "relative-not-in-other-dir": {"inc": "only_a." + fmt, "x": 1}}[kind]
        startdir = dir_b if kind == "relative-not-in-other-dir" else dir_a
        cfg, before, exc = load(startdir, main)
        if exc is None:
            fails.append(("core:Config.loads/raise:C18.missing-include-fails",
                          "include path %r (%s) under startdir %s does not name an existing file, but the load succeeded "
                          "(x = %r)" % (main.get("inc") or main["sub"]["inc"], kind, startdir, cfg.x), kind))
    return fails


# ------------------------------------------------------------------------------------------------ chains across scopes
# scope structure of _schema(): include keys in declaration order, nested schemas
SCOPE_TREE = {"includes": ["inc", "inc2"],
              "subs": {"sub": {"includes": ["inc", "inc2"],
                               "subs": {"deep": {"includes": ["inc"], "subs": {}}}},
                       "plain": {"includes": [], "subs": {}}}}


def _resolve(scope, tree, file_tree):
    """the single merged tree of the property, scope by scope: merge the files this scope names (declaration order,
    included values win), then descend into every sub-schema key present in the MERGED tree"""
    tree = copy.deepcopy(tree)
    for key in scope["includes"]:
        if tree.get(key) is not None:
            tree = merge(tree, file_tree(tree[key]))
    for key, sub in scope["subs"].items():
        if isinstance(tree.get(key), dict):
            tree[key] = _resolve(sub, tree[key], file_tree)
    return tree


# "@name" stands for the path of file `name` as the including document spells it (relative / absolute)
CHAIN_SCENARIOS = [
    {"name": "root-file-names-sub-include", "main": {"inc": "@a", "x": 1},
     "files": {"a": {"y": "a", "sub": {"inc": "@s", "p": 1, "q": "a"}}, "s": {"p": 2, "free": {"k": 1}}}},
    {"name": "root-file-names-sub-include-main-has-sub", "main": {"inc": "@a", "x": 1, "sub": {"q": "main"}},
     "files": {"a": {"sub": {"inc": "@s", "p": 1}}, "s": {"p": 2, "q": "s"}}},
    {"name": "root-file-names-deep-include", "main": {"inc": "@a", "x": 1},
     "files": {"a": {"sub": {"p": 1, "deep": {"inc": "@d", "r": 1, "s": "a"}}}, "d": {"r": 2}}},
    {"name": "second-root-include-names-sub-include", "main": {"inc": "@a", "inc2": "@b", "x": 1},
     "files": {"a": {"x": 2, "sub": {"p": 1}}, "b": {"y": "b", "sub": {"inc": "@s", "q": "b"}}, "s": {"p": 3, "q": "s"}}},
    {"name": "second-root-include-names-deep-include", "main": {"inc": "@a", "inc2": "@b"},
     "files": {"a": {"x": 2}, "b": {"sub": {"deep": {"inc": "@d", "s": "b"}}}, "d": {"r": 4, "s": "d"}}},
    {"name": "sub-file-names-deep-include", "main": {"x": 1, "sub": {"inc": "@s", "p": 1}},
     "files": {"s": {"p": 2, "deep": {"inc": "@d", "r": 1}}, "d": {"r": 2, "s": "d"}}},
    {"name": "three-scopes-in-a-row", "main": {"inc": "@a"},
     "files": {"a": {"x": 2, "sub": {"inc": "@s", "p": 1}}, "s": {"p": 2, "deep": {"inc": "@d", "r": 1}},
               "d": {"r": 3, "s": "d"}}},
    {"name": "sub-file-names-second-sub-include", "main": {"sub": {"inc": "@s", "p": 1}},
     "files": {"s": {"inc2": "@t", "p": 2, "q": "s"}, "t": {"q": "t", "free": {"a": 1}}}},
    {"name": "root-file-contributes-plain-branch-and-sub-include", "main": {"inc": "@a", "plain": {"u": 1}},
     "files": {"a": {"plain": {"v": "a"}, "sub": {"inc": "@s"}}, "s": {"p": 7, "deep": {"r": 7}}}},
]


def _check_chain(sc, fmt, mode, via, tmp, schema_factory=None, scope=None, obligation=None, witness=None):
    """schema_factory(startdir) / scope: the schema and its scope structure (default: _schema / SCOPE_TREE)"""
    import cincoconfig as cc
    fails = []
    schema_factory = schema_factory or _schema
    scope = scope or SCOPE_TREE
    obligation = obligation or "core:Config._process_includes/post:C18.nested-include-contributed-by-included-file"
    witness = witness or ("chain:" + sc["name"])
    base = os.path.join(tmp, "chain-%s-%s-%s-%s" % (sc["name"].replace("/", "_").replace("@", "_"), fmt, mode, via))
    incdir = os.path.join(base, "inc")
    os.makedirs(incdir, exist_ok=True)

    def spelled(name):
        return name + "." + fmt if mode == "relative" else os.path.join(incdir, name + "." + fmt)

    def subst(tree):
        if isinstance(tree, dict):
            return {k: subst(v) for k, v in tree.items()}
        if isinstance(tree, str) and tree.startswith("@"):
            return spelled(tree[1:])
        return copy.deepcopy(tree)

    files = {name: subst(tree) for name, tree in sc["files"].items()}
    by_spelling = {spelled(name): tree for name, tree in files.items()}
    for name, tree in files.items():
        with open(os.path.join(incdir, name + "." + fmt), "wb") as fp:
            fp.write(_dump(fmt, tree))
    main = subst(sc["main"])
    doc = _dump(fmt, main)
    cfg = schema_factory(incdir)()
    try:
        if via == "loads":
            cfg.loads(doc, fmt)
        else:
            mainfile = os.path.join(base, "main." + fmt)
            with open(mainfile, "wb") as fp:
                fp.write(doc)
            cfg.load(mainfile, fmt)
    except Exception as exc:
        return [(obligation,
                 "scenario %s (%s, %s path, %s): load raised %s: %s" % (sc["name"], fmt, mode, via, type(exc).__name__, exc),
                 witness + ":raises")]
    want_tree = _resolve(scope, main, lambda spelling: by_spelling[spelling])
    ref = schema_factory(incdir)()
    ref.load_tree(copy.deepcopy(want_tree))
    got, got_marks = _observable(cfg)
    want, want_marks = _observable(ref)
    if not _same_tree(got, want) or got_marks != want_marks:
        fg, fw = _flat(got), _flat(want)
        diff = sorted(k for k in set(fg) | set(fw) if not strict_eq(fg.get(k, "<absent>"), fw.get(k, "<absent>")))
        fails.append((obligation,
                      "scenario %s (%s, %s path, %s): differs from load_tree(fully merged tree) at %r: loaded %r, merged %r; "
                      "user-defined %r vs %r" % (sc["name"], fmt, mode, via, diff, {k: fg.get(k, "<absent>") for k in diff},
                                                 {k: fw.get(k, "<absent>") for k in diff}, got_marks, want_marks),
                      witness))
    return fails


# ------------------------------------------------------------------------------------------------ declaration order
# shape: declaration order of the root scope's include fields (i1, i2, i3) and of the nested schema `sub`; declaration
# order inside `sub` of its include field `inc` and (depth 3) of the nested schema `deep`
ORDER_SHAPES = {}
for _name, _root in (("sub-before-2", ["sub", "i1", "i2"]), ("sub-after-2", ["i1", "i2", "sub"]),
                     ("sub-between-2", ["i1", "sub", "i2"]), ("sub-first-3", ["sub", "i1", "i2", "i3"]),
                     ("sub-second-3", ["i1", "sub", "i2", "i3"]), ("sub-third-3", ["i1", "i2", "sub", "i3"]),
                     ("sub-last-3", ["i1", "i2", "i3", "sub"])):
    ORDER_SHAPES[_name] = {"root": _root, "sub": ["inc"]}
for _name, _root in (("sub-before-2", ["sub", "i1", "i2"]), ("sub-after-2", ["i1", "i2", "sub"]),
                     ("sub-between-2", ["i1", "sub", "i2"])):
    ORDER_SHAPES[_name + "+deep-before-inc"] = {"root": _root, "sub": ["deep", "inc"]}
    ORDER_SHAPES[_name + "+deep-after-inc"] = {"root": _root, "sub": ["inc", "deep"]}


def _order_schema(shape, startdir):
    import cincoconfig as cc
    s = cc.Schema()
    s.x = cc.IntField(default=0)
    s.y = cc.StringField(default="dy")
    s.free = cc.DictField(default=dict)
    for tok in shape["root"]:
        if tok != "sub":
            setattr(s, tok, cc.IncludeField(startdir=startdir))
            continue
        sub = cc.Schema()
        s.sub = sub
        sub.p = cc.IntField(default=0)
        sub.q = cc.StringField(default="dq")
        sub.free = cc.DictField(default=dict)
        for tok2 in shape["sub"]:
            if tok2 == "inc":
                sub.inc = cc.IncludeField(startdir=startdir)
            else:
                deep = cc.Schema()
                sub.deep = deep
                deep.r = cc.IntField(default=0)
                deep.inc = cc.IncludeField(startdir=startdir)
                deep.s = cc.StringField(default="ds")
    s.z = cc.StringField(default="dz")
    return s


def _order_scope(shape):
    """scope structure for the reference: includes of a scope in declaration order; nested scopes (their position among
    the include fields plays no role in the rule)"""
    subs = {}
    if "deep" in shape["sub"]:
        subs["deep"] = {"includes": ["inc"], "subs": {}}
    return {"includes": [t for t in shape["root"] if t != "sub"],
            "subs": {"sub": {"includes": ["inc"], "subs": subs}}}


def _order_cases(shape):
    """-> [(case name, main, files)] for a shape; every include field of the root scope is given a file; the `carrier`
    is the root include whose file does the interesting thing, the others get filler files"""
    incs = [t for t in shape["root"] if t != "sub"]
    deep = "deep" in shape["sub"]
    out = []

    def fillers(carrier, main, files):
        for t in incs:
            if t != carrier:
                main[t] = "@fill_" + t
                files["fill_" + t] = {"free": {t: 1, "m": {t: [1]}}}
        return main, files

    for carrier in incs:
        # (a) the outer-included file itself names the nested scope's include file
        main, files = fillers(carrier, {carrier: "@a", "x": 1}, {
            "a": {"y": "a", "sub": {"inc": "@s", "p": 1, "q": "a"}}, "s": {"p": 2, "free": {"k": "s"}}})
        out.append(("outer-file-names-nested-include@" + carrier, main, files))
        # (b) outer-included file and nested-included file set the same keys of the nested scope
        main, files = fillers(carrier, {carrier: "@a", "sub": {"inc": "@s", "p": 0, "free": {"main": 1}}}, {
            "a": {"sub": {"p": 1, "q": "a", "free": {"k": "a", "m": {"a": 1, "both": "a"}}}},
            "s": {"p": 2, "free": {"k": "s", "m": {"b": 2, "both": "s"}}}})
        out.append(("outer-and-nested-file-set-same-keys@" + carrier, main, files))
        # (c) the outer-included file points the nested include at another file than the main document does
        main, files = fillers(carrier, {carrier: "@a", "sub": {"inc": "@s1", "p": 0}}, {
            "a": {"sub": {"inc": "@s2"}}, "s1": {"p": 1, "q": "s1", "free": {"s1": 1}},
            "s2": {"p": 2, "q": "s2", "free": {"s2": 1}}})
        out.append(("outer-file-redirects-nested-include@" + carrier, main, files))
        if deep:
            main, files = fillers(carrier, {carrier: "@a", "sub": {"inc": "@s"}}, {
                "a": {"sub": {"deep": {"inc": "@d", "r": 1, "s": "a"}}}, "s": {"p": 5, "deep": {"r": 5}},
                "d": {"r": 9}})
            out.append(("outer-file-names-depth3-include@" + carrier, main, files))
            main, files = fillers(carrier, {carrier: "@a", "sub": {"deep": {"inc": "@d1", "r": 0}}}, {
                "a": {"sub": {"inc": "@s", "deep": {"s": "a"}}}, "s": {"deep": {"inc": "@d2", "r": 1}},
                "d1": {"r": 7, "s": "d1"}, "d2": {"r": 8}})
            out.append(("outer-names-nested-which-redirects-depth3-include@" + carrier, main, files))
    # every include of the scope is applied, later ones on top of earlier ones
    main = {"x": 0, "y": "main", "free": {"main": 1}}
    files = {}
    for n, t in enumerate(incs):
        main[t] = "@f_" + t
        files["f_" + t] = {"x": n + 1, "free": {"last": t, t: n, "m": {t: n, "last": t}}}
    files["f_" + incs[0]]["y"] = "first"
    out.append(("all-includes-applied-in-order", main, files))
    # two root includes both contribute to the nested scope (and point its include at different files): the later wins
    main = {"sub": {"p": 0}}
    files = {"s_first": {"q": "s_first"}, "s_last": {"q": "s_last", "p": 9}}
    for n, t in enumerate(incs):
        main[t] = "@g_" + t
        files["g_" + t] = {"sub": {"free": {"by": t, t: n}}}
    files["g_" + incs[0]]["sub"]["inc"] = "@s_first"
    files["g_" + incs[-1]]["sub"]["inc"] = "@s_last"
    out.append(("first-and-last-include-point-nested-include-at-different-files", main, files))
    return out


def _check_order(shape_name, case_name, fmt, mode, via, tmp):
    shape = ORDER_SHAPES[shape_name]
    found = [c for c in _order_cases(shape) if c[0] == case_name]
    name, main, files = found[0]
    sc = {"name": "order-%s-%s" % (shape_name, case_name), "main": main, "files": files}
    return _check_chain(sc, fmt, mode, via, tmp, schema_factory=lambda d: _order_schema(shape, d),
                        scope=_order_scope(shape),
                        obligation="core:Config._process_includes/post:C18.scope-includes-merged-before-nested-scopes",
                        witness="include-order:%s/%s" % (shape_name, case_name))


# ------------------------------------------------------------------------------------------------ repeated loads
RELOAD = {
    "main": {"y": "main", "x": 1, "free": {"own": 1, "m": {"main": [0]}}, "sub": {"q": "main"}},
    "root_file": {"x": 2, "free": {"k": "v", "m": {"a": [1, 2], "d": {"e": "f"}}}, "tags": ["t1", {"n": 1}, [1, 2]]},
    "sub_file": {"p": 3, "free": {"k": "sv", "deep": {"l": ["a"]}}, "tags": ["s", {"n": 1}]},
}


def _mutate_loaded_values(cfg):
    """what an application may do with values it got from a configuration: change the mutable ones in place"""
    cfg.free["k"] = "changed"
    cfg.free["new"] = 1
    cfg.free["m"]["a"].append(99)
    cfg.free["m"]["d"]["e"] = "changed"
    cfg.free["m"]["main"].append(5)
    del cfg.free["own"]
    cfg.tags.append("x")
    cfg.tags[1]["n"] = 2
    cfg.tags[2].append(3)
    cfg.sub.free["k"] = "changed"
    cfg.sub.free["deep"]["l"].append("b")
    cfg.sub.tags.append("x")
    cfg.sub.tags[1]["n"] = 2
    cfg.sub.tags.pop(0)


def _check_reload(kind, fmt, mode, via, tmp):
    """kind: fresh-config-same-schema | fresh-config-new-schema (load A, mutate A's values, load B from the unchanged
    files: B == from-scratch reference) | load-twice | load-mutate-load (same configuration object, == one load)"""
    import cincoconfig as cc
    fails = []
    base = os.path.join(tmp, "reload-%s-%s-%s-%s" % (kind, fmt, mode, via))
    incdir = os.path.join(base, "inc")
    os.makedirs(incdir, exist_ok=True)
    names = {"root_file": "r." + fmt, "sub_file": "s." + fmt}
    for key, name in names.items():
        with open(os.path.join(incdir, name), "wb") as fp:
            fp.write(_dump(fmt, RELOAD[key]))
    main = copy.deepcopy(RELOAD["main"])
    main["inc"] = names["root_file"] if mode == "relative" else os.path.join(incdir, names["root_file"])
    main["sub"]["inc"] = names["sub_file"] if mode == "relative" else os.path.join(incdir, names["sub_file"])
    doc = _dump(fmt, main)
    mainfile = os.path.join(base, "main." + fmt)
    with open(mainfile, "wb") as fp:
        fp.write(doc)
    files_before = {n: open(os.path.join(incdir, n), "rb").read() for n in names.values()}

    def load(cfg):
        if via == "loads":
            cfg.loads(doc, fmt)
        else:
            cfg.load(mainfile, fmt)
        return cfg

    # the from-scratch reference: the merged tree of the property, loaded as a tree (no include machinery involved)
    want_tree = copy.deepcopy(RELOAD["main"])
    want_tree = merge(want_tree, RELOAD["root_file"])
    want_tree["sub"] = merge(want_tree["sub"], RELOAD["sub_file"])
    want_tree["inc"] = main["inc"]
    want_tree["sub"]["inc"] = main["sub"]["inc"]
    ref = _schema(incdir)()
    ref.load_tree(copy.deepcopy(want_tree))
    want, want_marks = _observable(ref)

    schema = _schema(incdir)
    try:
        a = load(schema())
        first, first_marks = copy.deepcopy(_observable(a))
        if kind.startswith("fresh-config"):
            _mutate_loaded_values(a)
            b = load((schema if kind == "fresh-config-same-schema" else _schema(incdir))())
            got, got_marks = _observable(b)
            obligation = "fields.include_field:IncludeField.include/post:C18.include-depends-only-on-files"
            label = "second configuration loaded after the first one's values were changed in place"
        else:
            if kind == "load-mutate-load":
                _mutate_loaded_values(a)
            load(a)
            got, got_marks = _observable(a)
            obligation = "core:Config.loads/post:C18.reload-equals-single-load"
            label = "same configuration loaded twice" + (" with its values changed in place in between"
                                                         if kind == "load-mutate-load" else "")
    except Exception as exc:
        return [("core:Config.loads/post:C18.load-equals-load-of-merged-tree",
                 "reload scenario %s (%s, %s, %s) raised %s: %s" % (kind, fmt, mode, via, type(exc).__name__, exc),
                 "raises:reload:%s" % kind)]
    if not _same_tree(first, want) or first_marks != want_marks:
        fails.append(("core:Config.loads/post:C18.load-equals-load-of-merged-tree",
                      "reload scenario (%s, %s, %s): first load gives %r, load_tree(merged) gives %r"
                      % (fmt, mode, via, first, want), "reload:first-load"))
    if not _same_tree(got, want) or got_marks != want_marks:
        fg, fw = _flat(got), _flat(want)
        diff = sorted(k for k in set(fg) | set(fw) if not strict_eq(fg.get(k, "<absent>"), fw.get(k, "<absent>")))
        fails.append((obligation, "%s (%s, %s path, %s): differs from the from-scratch load at %r: got %r, expected %r"
                      % (label, fmt, mode, via, diff, {k: fg.get(k, "<absent>") for k in diff},
                         {k: fw.get(k, "<absent>") for k in diff}), kind))
    files_after = {n: open(os.path.join(incdir, n), "rb").read() for n in names.values()}
    if files_after != files_before or open(mainfile, "rb").read() != doc:
        fails.append(("core:Config.loads/post:C18.loading-leaves-files-alone", "a configuration file changed on disk", kind))
    return fails


RELOAD_KINDS = ("fresh-config-same-schema", "fresh-config-new-schema", "load-twice", "load-mutate-load")


def _run(case, tmp):
    if case["check"] == "include-order":
        return _check_order(case["shape"], case["case"], case["format"], case["mode"], case["via"], tmp)
    if case["check"] == "chain-across-scopes":
        sc = [x for x in CHAIN_SCENARIOS if x["name"] == case["scenario"]][0]
        return _check_chain(sc, case["format"], case["mode"], case["via"], tmp)
    if case["check"] == "reload":
        return _check_reload(case["kind"], case["format"], case["mode"], case["via"], tmp)
    if case["check"] == "combine":
        return _check_combine(copy.deepcopy(case["base"]), copy.deepcopy(case["child"]))
    if case["check"] == "chain":
        import cincoconfig as cc
        f = cc.IncludeField()
        a, b, c = (copy.deepcopy(case[k]) for k in ("base", "child", "child2"))
        got = f.combine_trees(f.combine_trees(a, b), c)
        want = merge(merge(case["base"], case["child"]), case["child2"])
        fails = []
        if not _same_tree(got, want):
            fails.append(("fields.include_field:IncludeField.combine_trees/post:C18.equals-deep-merge",
                          "chain %r <- %r <- %r = %r, deep merge is %r" % (case["base"], case["child"], case["child2"],
                                                                            got, want), "chain"))
        if not (_same_tree(a, case["base"]) and _same_tree(b, case["child"]) and _same_tree(c, case["child2"])):
            fails.append(("fields.include_field:IncludeField.combine_trees/post:C18.base-not-mutated",
                          "chain of two merges mutated an input: %r %r %r" % (a, b, c), "chain"))
        return fails
    if case["check"] == "load":
        sc = [s for s in SCENARIOS if s["name"] == case["scenario"]][0]
        return _check_load(sc, case["format"], case["mode"], tmp, case["via"])
    if case["check"] == "path":
        return _check_path(case["kind"], case["format"], tmp)
    raise ValueError(case["check"])


def replay(case):
    with sandbox() as tmp:
        fails = _run(case, tmp)
    want = case.get("obligation")
    hit = [f for f in fails if want is None or f[0] == want]
    return {"fails": bool(hit), "expected": "no failed clause" + (" (%s)" % want if want else ""),
            "observed": [{"obligation": f[0], "what": f[1], "witness_key": f[2]} for f in fails][:10]}


def rac(tier="quick", seed=0):
    rec = Recorder(
        PID,
        rule="(a) ordered pair of plain trees -> combine_trees vs reference merge + both inputs unchanged; non-trivial iff "
             "both trees are non-empty; (b) seeded random deeper pairs and chains of two merges; (c) (scenario, format, "
             "path mode, load|loads) -> configuration after load with include files == after load_tree/loads of the merged "
             "tree (values and user-defined marks); (d) (path kind, format) -> startdir resolution / failing load; (f) (chain scenario, format, path mode, entry point) -> the including document "
             "names an include only at an enclosing scope and the INCLUDED file contributes a nested sub-configuration that "
             "names its own include: load == load_tree(tree resolved scope by scope: merge the scope's includes, then "
             "descend into every sub-schema key of the merged tree); (g) (declaration-order shape, case, format, path mode, entry point) -> schema whose "
             "nested schema is declared before / between / after the 2 or 3 include fields of its scope (depth 2 and 3); the "
             "file included by the carrier include names the nested include / sets keys the nested-included file also sets / "
             "points the nested include elsewhere; oracle = independent scope-by-scope reference (_resolve); (e) (reload kind, "
             "format, path mode, entry point) -> load with root + nested includes into A, change A's mutable values in "
             "place (untyped list/dict values and their nested items), load the unchanged files into a fresh B (same or "
             "new schema): B == load_tree(merged); same configuration loaded twice (with/without changes in between) == "
             "one load",
        bound="(a) all 144x144 pairs of trees over keys {a,b}, leaves {1,'x'}, depth <= 2 (overlapping/disjoint keys, "
              "map/non-map conflicts at 2 depths); (b) quick 1500 / thorough 40000 random pairs + chains, depth <= 4, 4 keys, "
              "10 leaf values incl. lists/None/empty; (c) 13 scenarios (root, nested, depth-3, two includes in one scope, "
              "all scopes at once) x 5 formats x 4 path modes x 2 entry points; (d) 6 path kinds x 5 formats; (f) 9 chain scenarios (root file names a sub / depth-3 include, second of two root "
              "includes names it, sub file names a deeper or a second sub include, three scopes in a row) x 5 formats x 2 "
              "path modes x 2 entry points; (g) 13 shapes (7 of depth 2 with 2-3 root includes, 6 of depth 3) x (3-5 cases per "
              "carrier include + 2 order cases) x 5 formats x {relative loads, absolute loads, relative load}; "
              "(e) 4 reload kinds x 5 formats x 2 path modes x 2 entry "
              "points, 14 in-place changes at depth <= 3",
        tier=tier, seed=seed)
    with sandbox() as tmp:
        pool = _trees(("a", "b"), (1, "x"), 2)
        for bi, base in enumerate(pool):
            for ci, child in enumerate(pool):
                case = {"check": "combine", "base": base, "child": child}
                fails = _check_combine(copy.deepcopy(base), copy.deepcopy(child))
                rec.case(key=("pair", bi, ci), nontrivial=bool(base) and bool(child),
                         sample=case if (bi * 144 + ci) % 9001 == 7 else None)
                for obligation, what, wk in fails:
                    rec.violation(obligation=obligation, what=what, replay=dict(case, obligation=obligation), witness_key=wk)
        for sc in SCENARIOS:
            for fmt in FORMATS:
                for mode in PATH_MODES:
                    for via in ("loads", "load"):
                        case = {"check": "load", "scenario": sc["name"], "format": fmt, "mode": mode, "via": via}
                        fails = _run(case, tmp)
                        rec.case(key=("load", sc["name"], fmt, mode, via), nontrivial=bool(sc["includes"]),
                                 sample=case if (fmt, mode, via) == ("yaml", "relative", "loads") and sc["name"] == "all-scopes" else None)
                        for obligation, what, wk in fails:
                            rec.violation(obligation=obligation, what=what, replay=dict(case, obligation=obligation),
                                          witness_key=wk)
        for sc in CHAIN_SCENARIOS:
            for fmt in FORMATS:
                for mode in ("relative", "absolute"):
                    for via in ("loads", "load"):
                        case = {"check": "chain-across-scopes", "scenario": sc["name"], "format": fmt, "mode": mode,
                                "via": via}
                        fails = _run(case, tmp)
                        rec.case(key=("chain", sc["name"], fmt, mode, via), nontrivial=True,
                                 sample=case if (sc["name"], fmt, mode, via) == ("three-scopes-in-a-row", "xml", "relative", "load") else None)
                        for obligation, what, wk in fails:
                            rec.violation(obligation=obligation, what=what, replay=dict(case, obligation=obligation),
                                          witness_key=wk)
        for shape_name, shape in ORDER_SHAPES.items():
            for case_name, _main, _files in _order_cases(shape):
                for fmt in FORMATS:
                    for mode, via in (("relative", "loads"), ("absolute", "loads"), ("relative", "load")):
                        case = {"check": "include-order", "shape": shape_name, "case": case_name, "format": fmt,
                                "mode": mode, "via": via}
                        fails = _run(case, tmp)
                        rec.case(key=("include-order", shape_name, case_name, fmt, mode, via), nontrivial=True,
                                 sample=case if (shape_name, fmt, mode) == ("sub-between-2", "yaml", "relative")
                                 and case_name.startswith("outer-file-redirects") and case_name.endswith("i2")
                                 and via == "loads" else None)
                        for obligation, what, wk in fails:
                            rec.violation(obligation=obligation, what=what, replay=dict(case, obligation=obligation),
                                          witness_key=wk)
        for kind in RELOAD_KINDS:
            for fmt in FORMATS:
                for mode in ("relative", "absolute"):
                    for via in ("loads", "load"):
                        case = {"check": "reload", "kind": kind, "format": fmt, "mode": mode, "via": via}
                        fails = _run(case, tmp)
                        rec.case(key=("reload", kind, fmt, mode, via), nontrivial=True,
                                 sample=case if (kind, fmt, mode, via) == (RELOAD_KINDS[0], "json", "relative", "loads") else None)
                        for obligation, what, wk in fails:
                            rec.violation(obligation=obligation, what=what, replay=dict(case, obligation=obligation),
                                          witness_key=wk)
        for kind in ("two-startdirs", "missing", "missing-absolute", "directory", "missing-in-sub",
                     "relative-not-in-other-dir"):
            for fmt in FORMATS:
                case = {"check": "path", "kind": kind, "format": fmt}
                fails = _run(case, tmp)
                rec.case(key=("path", kind, fmt), nontrivial=True, sample=case if fmt == "json" and kind == "missing" else None)
                for obligation, what, wk in fails:
                    rec.violation(obligation=obligation, what=what, replay=dict(case, obligation=obligation), witness_key=wk)
        n = 1500 if tier == "quick" else 40000
        for i in range(n):
            if tier != "quick" and rec.out_of_time():
                break
            base, child = _random_tree(rec.rng, 4), _random_tree(rec.rng, 4)
            if i % 3 == 0:
                case = {"check": "chain", "base": base, "child": child, "child2": _random_tree(rec.rng, 3)}
            else:
                case = {"check": "combine", "base": base, "child": child}
            fails = _run(case, tmp)
            rec.case(key=("random", hashlib.md5(_canon(case).encode()).hexdigest()), nontrivial=bool(base) and bool(child),
                     sample=case if i == 5 else None)
            for obligation, what, wk in fails:
                rec.violation(obligation=obligation, what=what, replay=dict(case, obligation=obligation), witness_key=wk)
    return rec.result(exhaustive=False)
