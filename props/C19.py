"""C19 - see properties.jsonl; META is filled in below."""
META = {"level": "proof", "trusted_base": [], "assumptions": [], "explanation": ""}

try:
    from props.C19_rac import rac, replay   # bounded run-time contract driver (stand-in + replay harness)
except ImportError:   # pragma: no cover
    pass
