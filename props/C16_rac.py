"""C16 bounded run-time contract driver: all ways of naming a field agree (get_all_fields / schema[path] /
_ref_path / item_ref_path / cfg[path] / `path in cfg` / cfg[path] = v), the generated argument parser offers exactly
one option per scalar field (on + off switch for booleans) with dest == path, and cmdline_args_override touches
exactly the options the user supplied and did not ignore (value AND user-defined mark of every other field kept).
"""
import contextlib
import copy
import hashlib
import io
import itertools
import json

from pyvc.raclib import Recorder, capture_stdout, sandbox

PID = "C16"
KEYS = ["alpha", "b_two", "Cx"]  # identifier keys: plain, with '_', with upper case (option names are lower-cased)

# kind -> (factory, scalar class, command-line text, expected stored value, alternative valid python value, invalid text)
def _kinds():
    import cincoconfig as cc
    return {
        "str": (lambda: cc.StringField(default="s"), "scalar", "new", "new", "alt", None),
        "int": (lambda: cc.IntField(default=1, min=0, max=100), "scalar", "42", 42, 7, "abc"),
        "float": (lambda: cc.FloatField(default=0.5), "scalar", "2.5", 2.5, 1.25, "abc"),
        "bool_f": (lambda: cc.BoolField(default=False), "bool", None, None, True, None),
        "bool_t": (lambda: cc.BoolField(default=True), "bool", None, None, False, None),
        "bool_n": (lambda: cc.BoolField(), "bool", None, None, True, None),
        "list": (lambda: cc.ListField(default=list), "none", None, None, [1, 2], None),
        "port": (lambda: cc.PortField(default=80), "scalar", "8080", 8080, 443, "0"),
        "host": (lambda: cc.HostnameField(default="localhost"), "scalar", "example.com", "example.com", "h2", "a b"),
        "dict": (lambda: cc.DictField(default=dict), "none", None, None, {"k": 1}, None),
        # list whose item type is a schema (only used by the schema-change histories; not part of KIND_ORDER)
        "slist": (lambda: cc.ListField(_item_schema(), default=list), "none", None, None, None, None),
    }


def _item_schema():
    import cincoconfig as cc
    item = cc.Schema()
    item.n = cc.IntField(default=1)
    item.opts.level = cc.IntField(default=0)  # a nested schema inside a list's item schema
    item.opts.more.flag = cc.BoolField(default=False)
    return item


KIND_ORDER = ["str", "bool_f", "int", "bool_n", "float", "list", "bool_t", "port", "host", "dict"]


# ------------------------------------------------------------------------------------------------ schema shapes
def _shapes(tier):
    """shapes without keys/kinds: 'L' leaf or list of children.  depth <= 3 (root/schema/schema/leaf), width <= 3"""
    s1 = [["L"] * w for w in (1, 2, 3)]
    child2 = ["L"] + s1
    s2 = [list(c) for w in (1, 2, 3) for c in itertools.product(child2, repeat=w)]  # 84 shapes, depth 2
    rep2 = [s2[i] for i in (1, 5, 9, 22, 40, 83)]  # representative depth-2 subtrees used below the root
    tails = [[], ["L"], [["L", "L"]], ["L", "L"], ["L", ["L", "L"]], [["L", "L"], "L"], [["L", "L"], ["L", "L"]]]
    s3 = [[sub] + list(t) for sub in rep2 for t in tails]
    s3 += [list(t) + [sub] for sub in rep2[:3] for t in tails[1:4]]
    if tier != "quick":
        s3 += [[a, b] for a in rep2 for b in rep2]
    return [["L"] * w for w in (1, 2, 3)] + [s for s in s2 if any(c != "L" for c in s)] + s3


def _assign(shape, offset):
    """give keys (by sibling position) and leaf kinds (rotating through KIND_ORDER from offset) -> desc"""
    counter = [offset]

    def walk(children):
        out = []
        for i, c in enumerate(children):
            if c == "L":
                out.append(["leaf", KEYS[i], KIND_ORDER[counter[0] % len(KIND_ORDER)]])
                counter[0] += 1
            else:
                out.append(["schema", KEYS[i], walk(c)])
        return out

    return walk(shape)


def _fill(schema, children):
    """declare `children` (desc nodes) on schema, top-down"""
    import cincoconfig as cc
    kinds = _kinds()
    for node in children:
        if node[0] == "leaf":
            setattr(schema, node[1], kinds[node[2]][0]())
        else:
            sub = cc.Schema()
            setattr(schema, node[1], sub)
            _fill(sub, node[2])
    return schema


def _build(desc):
    import cincoconfig as cc
    return _fill(cc.Schema(), desc)


def _paths(desc, prefix=""):
    """declaration-order list of (path, kind or None for nested schemas)"""
    out = []
    for node in desc:
        p = prefix + node[1]
        if node[0] == "leaf":
            out.append((p, node[2]))
        else:
            out.append((p, None))
            out.extend(_paths(node[2], p + "."))
    return out


def _chain_get(obj, path):
    for part in path.split("."):
        obj = getattr(obj, part)
    return obj


def _chain_set(cfg, path, value):
    head, _, last = path.rpartition(".")
    owner = _chain_get(cfg, head) if head else cfg
    return setattr(owner, last, value)


def _quiet_parse(parser, argv):
    """parse_args without argparse's usage text on the real stderr (a SystemExit still propagates)"""
    with contextlib.redirect_stderr(io.StringIO()):
        return parser.parse_args(argv)


def _opt(path):
    return "--" + path.replace(".", "-").replace("_", "-").lower()


def _off(path):
    return "--no-" + path.replace(".", "-").replace("_", "-").lower()


def _state(cfg, leaf_paths):
    import cincoconfig as cc
    st = {}
    for p, _k in leaf_paths:
        v = _chain_get(cfg, p)
        st[p] = (type(v).__name__, repr(v), cc.is_value_defined(cfg, p))
    return st


def _make_cfg(schema, desc, state):
    cfg = schema()
    if state == "dirty":
        kinds = _kinds()
        for p, k in _paths(desc):
            if k is not None:
                _chain_set(cfg, p, kinds[k][4])
    return cfg


# ------------------------------------------------------------------------------------------------ checks
def _nested_start_fails(root, desc, cfg=None):
    """enumeration started at ANY nested schema (or the sub-configuration of it) reports exactly the fields below it, in
    declaration order, each under its full reference path; root[path] is that field; owner and reference path agree"""
    import cincoconfig as cc
    fails = []
    everything = _paths(desc)
    for prefix, kind in everything:
        if kind is not None:
            continue
        depth = prefix.count(".") + 1
        wk = "nested-enumeration:depth%d" % depth
        want = [p for p, _k in everything if p.startswith(prefix + ".")]
        starts = [("schema.%s" % prefix, _chain_get(root, prefix))]
        if cfg is not None:
            starts.append(("config.%s" % prefix, _chain_get(cfg, prefix)))
        for label, start in starts:
            try:
                got = cc.get_all_fields(start)
            except Exception as exc:
                fails.append(("support:get_all_fields/post:C16.nested-start-reports-reference-paths",
                              "get_all_fields(%s) raised %s: %s" % (label, type(exc).__name__, exc), wk))
                continue
            if [g[0] for g in got] != want:
                fails.append(("support:get_all_fields/post:C16.nested-start-reports-reference-paths",
                              "get_all_fields(%s) reports %r, the fields below it have the reference paths %r"
                              % (label, [g[0] for g in got], want), wk))
                continue
            for path, owner, field in got:
                try:
                    looked = root[path]
                except Exception as exc:
                    looked = exc
                if looked is not field or _chain_get(root, path) is not field:
                    fails.append(("support:get_all_fields/post:C16.nested-start-reports-reference-paths",
                                  "get_all_fields(%s) reports %r for a field that is not root[%r]" % (label, path, path), wk))
                if field._ref_path != path or cc.item_ref_path(field) != path:
                    fails.append(("support:get_all_fields/post:C16.nested-start-reports-reference-paths",
                                  "get_all_fields(%s) reports %r for a field whose reference path is %r"
                                  % (label, path, field._ref_path), wk))
                if owner._fields.get(path.rpartition(".")[2]) is not field:
                    fails.append(("support:get_all_fields/post:C16.nested-start-reports-reference-paths",
                                  "get_all_fields(%s): owner schema reported for %r does not hold the field" % (label, path),
                                  wk))
    return fails


def _check_naming(desc, schema=None):
    """-> list of (obligation, what, witness_key).  schema: already built by some construction history whose final
    shape is desc (default: built top-down from desc)"""
    import cincoconfig as cc
    fails = []
    schema = _build(desc) if schema is None else schema
    expected = _paths(desc)
    got = cc.get_all_fields(schema)
    if [g[0] for g in got] != [p for p, _ in expected]:
        fails.append(("support:get_all_fields/post:C16.enumerates-all-paths",
                      "get_all_fields paths %r, declared %r" % ([g[0] for g in got], [p for p, _ in expected]),
                      "paths"))
        return fails
    n_before = len(cc.get_all_fields(schema))
    for (path, owner, field), (_, kind) in zip(got, expected):
        depth = path.count(".") + 1
        tag = "depth%d:%s" % (depth, "schema" if kind is None else "leaf")
        if _chain_get(schema, path) is not field:
            fails.append(("support:get_all_fields/post:C16.field-is-attribute-chain",
                          "get_all_fields reports a field for %r that is not schema.%s" % (path, path), tag))
        try:
            looked = schema[path]
        except Exception as exc:
            looked = exc
        if looked is not field:
            fails.append(("core:Schema.__getitem__/post:C16.resolves-enumerated-path",
                          "schema[%r] is %r, not the enumerated field" % (path, looked), tag))
        if owner._fields.get(path.rpartition(".")[2]) is not field:
            fails.append(("support:get_all_fields/post:C16.owner-schema",
                          "owner schema reported for %r does not hold the field under its last key" % path, tag))
        if field._ref_path != path:
            fails.append(("core:BaseField._ref_path/post:C16.equals-enumerated-path",
                          "field._ref_path %r != enumerated path %r" % (field._ref_path, path), tag))
        if cc.item_ref_path(field) != path:
            fails.append(("support:item_ref_path/post:C16.equals-enumerated-path",
                          "item_ref_path %r != enumerated path %r" % (cc.item_ref_path(field), path), tag))
    if len(cc.get_all_fields(schema)) != n_before:
        fails.append(("core:Schema.__getitem__/post:C16.lookup-creates-nothing",
                      "dotted lookups of declared paths added fields to the schema", "declared-paths"))
    # get_all_fields(config) == get_all_fields(schema)
    cfg = schema()
    got_cfg = cc.get_all_fields(cfg)
    if [(a, id(b), id(c)) for a, b, c in got_cfg] != [(a, id(b), id(c)) for a, b, c in got]:
        fails.append(("support:get_all_fields/post:C16.config-same-as-schema",
                      "get_all_fields(config) differs from get_all_fields(schema)", "config"))
    fails += _nested_start_fails(schema, desc, cfg)
    return fails


def _check_config_access(desc, state, schema=None):
    import cincoconfig as cc
    kinds = _kinds()
    fails = []
    schema = _build(desc) if schema is None else schema
    cfg = _make_cfg(schema, desc, state)
    for path, kind in _paths(desc):
        depth = path.count(".") + 1
        tag = "depth%d:%s:%s" % (depth, "schema" if kind is None else "leaf", state)
        chained = _chain_get(cfg, path)
        try:
            item = cfg[path]
        except Exception as exc:
            item = exc
        same = (item is chained) if kind is None else (type(item) is type(chained) and item == chained)
        if not same:
            fails.append(("core:Config.__getitem__/post:C16.equals-attribute-chain",
                          "cfg[%r] = %r but chained attribute access gives %r" % (path, item, chained), tag))
        try:
            member = path in cfg
        except Exception as exc:
            member = exc
        if member is not True:
            fails.append(("core:Config.__contains__/post:C16.declared-path-is-member",
                          "%r in cfg is %r" % (path, member), tag))
        if kind is None:
            continue
        # dotted assignment == chained setattr (value, returned value, marks; nothing else touched)
        leaves = [(p, k) for p, k in _paths(desc) if k is not None]
        for value in (kinds[kind][4], None):
            a = _make_cfg(schema, desc, state)
            b = _make_cfg(schema, desc, state)
            try:
                ra = a.__setitem__(path, value)
            except Exception as exc:
                ra = ("raised", type(exc).__name__)
            try:
                rb = b._set_value(path.rpartition(".")[2], value) if "." not in path else \
                    _chain_get(b, path.rpartition(".")[0])._set_value(path.rpartition(".")[2], value)
            except Exception as exc:
                rb = ("raised", type(exc).__name__)
            if repr(ra) != repr(rb) or _state(a, leaves) != _state(b, leaves):
                fails.append(("core:Config.__setitem__/post:C16.equals-attribute-chain-assignment",
                              "cfg[%r] = %r leaves %r (returned %r); chained assignment leaves %r (returned %r)"
                              % (path, value, _state(a, leaves), ra, _state(b, leaves), rb), tag))
            want = _state(_make_cfg(schema, desc, state), leaves)
            want[path] = (type(value).__name__, repr(value), True)
            if _state(a, leaves) != want:
                fails.append(("core:Config.__setitem__/post:C16.sets-exactly-that-field",
                              "cfg[%r] = %r: state %r, expected %r" % (path, value, _state(a, leaves), want), tag))
    return fails


def _expected_options(desc):
    kinds = _kinds()
    exp = {}
    for path, kind in _paths(desc):
        if kind is None:
            continue
        cls = kinds[kind][1]
        if cls == "scalar":
            exp[_opt(path)] = (path, "value")
        elif cls == "bool":
            exp[_opt(path)] = (path, "on")
            exp[_off(path)] = (path, "off")
    return exp


def _check_parser(desc, target, schema=None, source=None):
    """source: the very object (schema or configuration) to generate the parser from (default: by target)"""
    import cincoconfig as cc
    fails = []
    schema = _build(desc) if schema is None else schema
    src = source if source is not None else (schema if target == "schema" else schema())
    try:
        with capture_stdout():
            parser = cc.generate_argparse_parser(src, prog="rac", add_help=False)
    except Exception as exc:
        return [("support:generate_argparse_parser/raise:C16.total-on-collision-free-schemas",
                 "generate_argparse_parser raised %s: %s" % (type(exc).__name__, exc), type(exc).__name__)]
    exp = _expected_options(desc)
    offered = {}
    for action in parser._actions:
        for o in action.option_strings:
            offered.setdefault(o, []).append(action)
        if not action.option_strings:
            offered.setdefault("<positional %s>" % action.dest, []).append(action)
    missing = sorted(set(exp) - set(offered))
    extra = sorted(set(offered) - set(exp))
    if missing:
        fails.append(("support:generate_argparse_parser/post:C16.one-option-per-scalar-field",
                      "options missing: %r" % missing, "missing:" + exp[missing[0]][1]))
    if extra:
        fails.append(("support:generate_argparse_parser/post:C16.nothing-else-offered",
                      "unexpected options: %r" % extra, "extra"))
    for o, (path, mode) in exp.items():
        acts = offered.get(o, [])
        if len(acts) != 1:
            if acts:
                fails.append(("support:generate_argparse_parser/post:C16.one-option-per-scalar-field",
                              "option %s offered %d times" % (o, len(acts)), "duplicate:" + mode))
            continue
        act = acts[0]
        if act.dest != path or len(act.option_strings) != 1:
            fails.append(("support:generate_argparse_parser/post:C16.dest-is-path",
                          "option %s has dest %r / aliases %r, expected dest %r" % (o, act.dest, act.option_strings, path),
                          mode))
            continue
        argv = [o, "v"] if mode == "value" else [o]
        try:
            ns = _quiet_parse(parser, argv)
            got = getattr(ns, path, "<absent>")
        except SystemExit:
            got = "<parse error>"
        want = {"value": "v", "on": True, "off": False}[mode]
        if got != want or type(got) is not type(want):
            fails.append(("support:generate_argparse_parser/post:C16.option-stores-under-path",
                          "parse_args(%r).%s is %r, expected %r" % (argv, path, got, want), mode))
    try:
        ns = _quiet_parse(parser, [])
        dests = set(vars(ns))
    except SystemExit:
        dests = {"<parse error>"}
    want_dests = {p for p, _m in exp.values()}
    if dests != want_dests:
        fails.append(("support:generate_argparse_parser/post:C16.namespace-has-exactly-option-paths",
                      "namespace attributes %r, expected %r" % (sorted(dests), sorted(want_dests)), "namespace"))
    return fails


def _argv_of(supplied):
    argv = []
    for item in supplied:
        argv.extend(item[1])
    return argv


def _command_lines(desc, tier):
    """-> list of supplied-lists; supplied item = [path, argv tokens, expected ('value', v) | ('invalid',)]"""
    kinds = _kinds()
    singles, invalid = [], []
    for path, kind in _paths(desc):
        if kind is None:
            continue
        f, cls, text, stored, _alt, bad = kinds[kind]
        if cls == "scalar":
            singles.append([path, [_opt(path), text], ["value", stored]])
            if bad is not None:
                invalid.append([path, [_opt(path), bad], ["invalid"]])
        elif cls == "bool":
            singles.append([path, [_opt(path)], ["value", True]])
            singles.append([path, [_off(path)], ["value", False]])
    lines = [[]] + [[s] for s in singles]
    pairs = [[a, b] for a, b in itertools.combinations(singles, 2) if a[0] != b[0]]
    lines += pairs[:6] if tier == "quick" else pairs
    if len(singles) >= 3:
        distinct = []
        for s in singles:
            if s[0] not in [d[0] for d in distinct]:
                distinct.append(s)
        lines.append(distinct)  # every option at once
    lines += [[i] for i in invalid[:2]]
    return lines


def _ignore_lists(desc, supplied):
    leaves = [p for p, k in _paths(desc) if k is not None]
    sup = [s[0] for s in supplied]
    uns = [p for p in leaves if p not in sup]
    out = [None, []]
    if sup:
        out += [[sup[0]], sup[0]]
    if uns:
        out += [[uns[0]]]
    if len(sup) > 1:
        out.append(list(sup))
    return out


def _check_override(desc, supplied, ignore, state, pre=None):
    """pre: (schema, parser) already built from desc by the real library (driver run only; replay rebuilds)"""
    import cincoconfig as cc
    kinds = _kinds()
    fails = []
    leaves = [(p, k) for p, k in _paths(desc) if k is not None]
    kind_of = dict(leaves)
    if pre is None:
        schema = _build(desc)
        try:
            parser = cc.generate_argparse_parser(schema, prog="rac", add_help=False)
        except Exception as exc:
            return [("support:generate_argparse_parser/raise:C16.total-on-collision-free-schemas",
                     "generate_argparse_parser raised %s: %s" % (type(exc).__name__, exc), type(exc).__name__)]
    else:
        schema, parser = pre
    cfg = _make_cfg(schema, desc, state)
    before = _state(cfg, leaves)
    argv = _argv_of(supplied)
    try:
        ns = _quiet_parse(parser, argv)
    except SystemExit:
        return [("support:generate_argparse_parser/post:C16.accepts-generated-options",
                 "parser rejects command line %r" % (argv,), "parse")]
    ignored = [ignore] if isinstance(ignore, str) else list(ignore or [])
    active = [s for s in supplied if s[0] not in ignored]
    expect_invalid = [s for s in active if s[2][0] == "invalid"]
    raised = None
    try:
        cc.cmdline_args_override(cfg, ns, ignore=ignore)
    except Exception as exc:
        raised = exc
    if expect_invalid:
        s = expect_invalid[0]
        if not isinstance(raised, cc.ValidationError):
            fails.append(("support:cmdline_args_override/raise:C16.through-normal-validation",
                          "invalid value %r for %s: expected ValidationError, observed %r (stored %r)"
                          % (s[1][1], s[0], raised, _state(cfg, leaves)[s[0]]), kind_of[s[0]]))
        return fails
    if raised is not None:
        fails.append(("support:cmdline_args_override/post:C16.applies-supplied",
                      "command line %r ignore %r raised %r" % (argv, ignore, raised), type(raised).__name__))
        return fails
    after = _state(cfg, leaves)
    final = {}
    for s in active:
        final[s[0]] = s[2][1]
    for p, k in leaves:
        cls = kinds[k][1]
        if p in final:
            want = (type(final[p]).__name__, repr(final[p]), True)
            if after[p] != want:
                fails.append(("support:cmdline_args_override/post:C16.applies-supplied",
                              "%s supplied by %r (ignore %r): (type, value, user-defined) is %r, expected %r"
                              % (p, argv, ignore, after[p], want), "%s:%s" % (cls, state)))
            continue
        reason = "ignored" if p in [s[0] for s in supplied] else "not-supplied"
        if after[p][:2] != before[p][:2]:
            fails.append(("support:cmdline_args_override/post:C16.frame-value",
                          "%s (%s) was %r, command line %r ignore %r changed it to %r"
                          % (p, reason, before[p][:2], argv, ignore, after[p][:2]),
                          "%s-switch-%s" % (cls, reason) if cls == "bool" else "%s-%s" % (cls, reason)))
        if after[p][2] != before[p][2]:
            fails.append(("support:cmdline_args_override/post:C16.frame-user-defined",
                          "%s (%s) user-defined mark was %r, command line %r ignore %r made it %r"
                          % (p, reason, before[p][2], argv, ignore, after[p][2]),
                          "%s-switch-%s" % (cls, reason) if cls == "bool" else "%s-%s" % (cls, reason)))
    return fails


# ------------------------------------------------------------------------------------------------ construction histories
COMPONENTS = {
    "flat": [["leaf", "host", "str"], ["leaf", "port", "port"]],
    "nested": [["leaf", "host", "str"], ["schema", "pool", [["leaf", "size", "int"], ["leaf", "on", "bool_f"]]]],
    "deep": [["schema", "pool", [["schema", "limits", [["leaf", "max_n", "int"]]], ["leaf", "name", "str"]]],
             ["leaf", "debug", "bool_n"]],
}
MOUNTS = ("attr", "attr-two-levels", "setitem-dotted", "setitem-dotted-3", "via-detached-parent", "parent-first",
          "moved-from-holder", "moved-between-parents")
READS = ("never", "before", "after-each", "before-and-after")


def _read_paths(component):
    """what a user does to look at a component's names: every way of asking for a reference path"""
    import cincoconfig as cc
    seen = [(cc.item_ref_path(component), component._ref_path)]
    for path, _owner, field in cc.get_all_fields(component):
        seen.append((path, cc.item_ref_path(field), field._ref_path))
    return seen


def _history(component, mount, reads):
    """build a root schema bottom-up -> (root schema, desc of its final shape, failed clauses on the detached part)"""
    import cincoconfig as cc
    kinds = _kinds()
    children = COMPONENTS[component]
    fails = []
    comp = _fill(cc.Schema(), children)  # detached component
    if reads in ("before", "before-and-after"):
        _read_paths(comp)
        # a detached component is a schema too: the naming clauses hold for it as they stand
        fails = [(o, w, k if str(k).startswith("nested-enumeration:") else "detached-component:%s" % component)
                 for o, w, k in _check_naming(children, schema=comp)]
        _read_paths(comp)
    after = reads in ("after-each", "before-and-after")
    root = cc.Schema()
    root.alpha = kinds["int"][0]()
    if mount == "attr":
        root.db = comp
        mounted = [["schema", "db", children]]
    elif mount == "attr-two-levels":
        root.services.db = comp
        mounted = [["schema", "services", [["schema", "db", children]]]]
    elif mount == "setitem-dotted":
        root["services.db"] = comp
        mounted = [["schema", "services", [["schema", "db", children]]]]
    elif mount == "setitem-dotted-3":
        root["app.services.db"] = comp
        mounted = [["schema", "app", [["schema", "services", [["schema", "db", children]]]]]]
    elif mount == "via-detached-parent":
        mid = cc.Schema()
        mid.enabled = kinds["bool_t"][0]()
        mid.db = comp
        if after:
            _read_paths(comp)
            _read_paths(mid)
        root.services = mid
        mounted = [["schema", "services", [["leaf", "enabled", "bool_t"], ["schema", "db", children]]]]
    elif mount == "parent-first":
        mid = cc.Schema()
        mid.enabled = kinds["bool_t"][0]()
        root.services = mid
        if after:
            _read_paths(mid)
        mid.db = comp
        mounted = [["schema", "services", [["leaf", "enabled", "bool_t"], ["schema", "db", children]]]]
    elif mount == "moved-from-holder":  # first mounted in a schema that is thrown away, then in the real root
        holder = cc.Schema()
        holder.tmp = comp
        if after:
            _read_paths(comp)
            _read_paths(holder)
        root.services.db = comp
        mounted = [["schema", "services", [["schema", "db", children]]]]
    elif mount == "moved-between-parents":  # two detached parents in turn, the second one goes into the root
        first, second = cc.Schema(), cc.Schema()
        first.one = comp
        if after:
            _read_paths(comp)
        second.two = comp
        if after:
            _read_paths(comp)
            _read_paths(second)
        root.app.services = second
        mounted = [["schema", "app", [["schema", "services", [["schema", "two", children]]]]]]
    else:
        raise ValueError(mount)
    if after:
        _read_paths(comp)
        _read_paths(root)
    root.zeta = kinds["str"][0]()
    desc = [["leaf", "alpha", "int"]] + mounted + [["leaf", "zeta", "str"]]
    return root, desc, fails


def _check_history(component, mount, reads):
    try:
        root, desc, fails = _history(component, mount, reads)
    except Exception as exc:
        return [("core:Schema.__setattr__/raise:C16.mounting-a-component-is-total",
                 "building the schema bottom-up (%s, %s, reads %s) raised %s: %s"
                 % (component, mount, reads, type(exc).__name__, exc), "bottom-up:%s:%s" % (mount, reads))]
    wk = "bottom-up:%s:%s" % (mount, reads)
    found = _check_naming(desc, schema=root)
    found += _check_config_access(desc, "fresh", schema=root)
    found += _check_parser(desc, "schema", schema=root)
    seen = set()
    for o, w, k in found:
        key = k if str(k).startswith("nested-enumeration:") else wk
        if (o, key) not in seen:  # one witness per clause and history
            seen.add((o, key))
            fails.append((o, "[component %s mounted by %s, paths read %s] %s" % (component, mount, reads, w), key))
    return fails


# ------------------------------------------------------------------------------------------------ schema changes between enumerations
CHANGE_BASE = [["leaf", "alpha", "int"],
               ["schema", "svc", [["leaf", "host", "str"],
                                  ["schema", "db", [["leaf", "port", "port"], ["leaf", "ssl", "bool_f"]]]]],
               ["leaf", "servers", "slist"],
               ["leaf", "zeta", "str"]]
SCHEMA_CHANGES = ("add-field-two-levels-down-by-attribute", "add-field-two-levels-down-by-item-path",
                  "add-bool-field-one-level-down", "add-field-at-root", "replace-bool-by-str", "replace-int-by-bool",
                  "replace-leaf-at-root-by-other-class", "add-sub-schema", "add-sub-schema-by-item-path",
                  "attach-stand-alone-schema", "attach-stand-alone-schema-at-root", "add-field-to-list-item-schema",
                  "two-changes-in-a-row")
CHANGE_BEFORE = ("root", "nested", "config", "all")
CHANGE_AFTER = ("root", "nested", "config-before", "config-after")


def _apply_change(root, change):
    """change the live schema; -> desc of its shape afterwards"""
    import cincoconfig as cc
    kinds = _kinds()
    desc = copy.deepcopy(CHANGE_BASE)
    svc = desc[1][2]
    db = svc[1][2]
    if change == "add-field-two-levels-down-by-attribute":
        root.svc.db.timeout = kinds["int"][0]()
        db.append(["leaf", "timeout", "int"])
    elif change == "add-field-two-levels-down-by-item-path":
        root["svc.db.timeout"] = kinds["float"][0]()
        db.append(["leaf", "timeout", "float"])
    elif change == "add-bool-field-one-level-down":
        root.svc.verbose = kinds["bool_n"][0]()
        svc.append(["leaf", "verbose", "bool_n"])
    elif change == "add-field-at-root":
        root.omega = kinds["host"][0]()
        desc.append(["leaf", "omega", "host"])
    elif change == "replace-bool-by-str":
        root.svc.db.ssl = kinds["str"][0]()
        db[1] = ["leaf", "ssl", "str"]
    elif change == "replace-int-by-bool":
        root["svc.db.port"] = kinds["bool_t"][0]()
        db[0] = ["leaf", "port", "bool_t"]
    elif change == "replace-leaf-at-root-by-other-class":
        root.alpha = kinds["list"][0]()  # scalar with an option -> no option at all
        desc[0] = ["leaf", "alpha", "list"]
    elif change == "add-sub-schema":
        root.svc.cache.ttl = kinds["int"][0]()
        root.svc.cache.on = kinds["bool_f"][0]()
        svc.append(["schema", "cache", [["leaf", "ttl", "int"], ["leaf", "on", "bool_f"]]])
    elif change == "add-sub-schema-by-item-path":
        root["svc.db.pool.size"] = kinds["int"][0]()
        db.append(["schema", "pool", [["leaf", "size", "int"]]])
    elif change in ("attach-stand-alone-schema", "attach-stand-alone-schema-at-root"):
        children = [["leaf", "name", "str"], ["schema", "limits", [["leaf", "max_n", "int"], ["leaf", "hard", "bool_f"]]]]
        comp = _fill(cc.Schema(), children)
        cc.get_all_fields(comp)  # the stand-alone schema was enumerated on its own first
        if change == "attach-stand-alone-schema":
            root.svc.extra = comp
            svc.append(["schema", "extra", children])
        else:
            root.extra = comp
            desc.append(["schema", "extra", children])
    elif change == "add-field-to-list-item-schema":
        root.servers.field.weight = kinds["int"][0]()
    elif change == "two-changes-in-a-row":
        root.svc.db.timeout = kinds["int"][0]()
        cc.get_all_fields(root)
        cc.get_all_fields(root.svc)
        root.svc.db.retries = kinds["int"][0]()
        db.append(["leaf", "timeout", "int"])
        db.append(["leaf", "retries", "int"])
    else:
        raise ValueError(change)
    return desc


def _check_schema_change(change, before, after):
    import cincoconfig as cc
    wk = "enumeration-after-schema-change:%s/%s" % (change, after)
    root = _fill(cc.Schema(), CHANGE_BASE)
    cfg_before = root()
    # first round of enumeration / parser generation / lookups, through the `before` entry point
    if before in ("root", "all"):
        cc.get_all_fields(root)
    if before in ("nested", "all"):
        cc.get_all_fields(root.svc)
        cc.get_all_fields(root.svc.db)
        cc.get_all_fields(root.servers.field)
    if before in ("config", "all"):
        cc.get_all_fields(cfg_before)
    if before == "all":
        cc.generate_argparse_parser(root, prog="rac", add_help=False)
        cc.generate_argparse_parser(cfg_before, prog="rac", add_help=False)
        for path, _k in _paths(CHANGE_BASE):
            root[path]
            path in cfg_before
            cfg_before[path]
    try:
        desc = _apply_change(root, change)
    except Exception as exc:
        return [("core:Schema.__setattr__/raise:C16.changing-a-schema-is-total",
                 "schema change %s raised %s: %s" % (change, type(exc).__name__, exc), wk)]
    found = []
    if after == "root":
        found += _check_naming(desc, schema=root)
        found += _check_parser(desc, "schema", schema=root)
    elif after == "nested":
        found += _nested_start_fails(root, desc)  # every nested schema first ...
        found += _check_naming(desc, schema=root)  # ... and the root afterwards
    elif after == "config-before":  # a configuration that exists since before the change: enumeration and parser only
        got = cc.get_all_fields(cfg_before)
        want = cc.get_all_fields(root)
        if [(a, id(b), id(c)) for a, b, c in got] != [(a, id(b), id(c)) for a, b, c in want] or \
                [g[0] for g in got] != [p for p, _k in _paths(desc)]:
            found.append(("support:get_all_fields/post:C16.enumerates-all-paths",
                          "get_all_fields(configuration built before the change) paths %r, current schema declares %r"
                          % ([g[0] for g in got], [p for p, _k in _paths(desc)]), ""))
        found += _check_parser(desc, "config", schema=root, source=cfg_before)
    else:  # configuration built after the change
        cfg_after = root()
        got = cc.get_all_fields(cfg_after)
        if [g[0] for g in got] != [p for p, _k in _paths(desc)]:
            found.append(("support:get_all_fields/post:C16.enumerates-all-paths",
                          "get_all_fields(configuration built after the change) paths %r, current schema declares %r"
                          % ([g[0] for g in got], [p for p, _k in _paths(desc)]), ""))
        found += _check_config_access(desc, "fresh", schema=root)
        found += _check_parser(desc, "config", schema=root, source=cfg_after)
    if after in ("root", "config-after"):  # overrides apply for the current fields
        try:
            pre = (root, cc.generate_argparse_parser(root if after == "root" else root(), prog="rac", add_help=False))
        except Exception:
            pre = None
        lines = [ln for ln in _command_lines(desc, "quick") if len(ln) <= 1][:16]
        for supplied in lines:
            found += _check_override(desc, supplied, None, "fresh", pre)
    if change == "add-field-to-list-item-schema":
        item = root.servers.field
        found += _check_naming([["leaf", "n", "int"],
                                ["schema", "opts", [["leaf", "level", "int"], ["schema", "more", [["leaf", "flag", "bool_f"]]]]],
                                ["leaf", "weight", "int"]], schema=item)
        cfg = root()
        try:
            cfg.servers = [{"n": 2, "weight": 3}]
            ok = cfg.servers[0].weight == 3 and "weight" in cfg.servers[0]
        except Exception as exc:
            ok = exc
        if ok is not True:
            found.append(("core:Config.__contains__/post:C16.declared-path-is-member",
                          "field added to the list's item schema is not usable in a new item: %r" % (ok,), ""))
    fails, seen = [], set()
    for o, w, k in found:
        key = k if str(k).startswith("nested-enumeration:") else wk
        if (o, key) not in seen:
            seen.add((o, key))
            fails.append((o, "[%s; enumerated before through %s, after through %s] %s" % (change, before, after, w), key))
    return fails


# ------------------------------------------------------------------------------------------------ parser must not pre-filter
def _prefilter_kinds():
    """scalar field kinds that normalise or constrain their value: kind -> (key, factory, command-line texts: canonical,
    valid only after the field's own normalisation, rejected by the field)"""
    import cincoconfig as cc
    return {
        "str-choices-case-strip": ("color", lambda: cc.StringField(choices=["red", "green"], transform_case="lower",
                                                                   transform_strip=True, default="red"),
                                   ["green", "GREEN", " green ", "  Red", "blue", ""]),
        "str-choices-upper": ("tier", lambda: cc.StringField(choices=["GOLD", "IRON"], transform_case="upper", default="IRON"),
                              ["GOLD", "gold", "Gold", "tin"]),
        "str-strip-chars": ("tag", lambda: cc.StringField(transform_strip="_", min_len=2, max_len=4, default="ab"),
                            ["abc", "__abc__", "_a_", "abcdef"]),
        "str-regex": ("code", lambda: cc.StringField(regex="^[a-z]{3}$", transform_case="lower", default="abc"),
                      ["xyz", "XYZ", "xy1"]),
        "loglevel": ("log_level", lambda: cc.LogLevelField(default="info"),
                     ["debug", "DEBUG", " Warning ", "Critical", "loud"]),
        "appmode": ("mode", lambda: cc.ApplicationModeField(default="production"),
                    ["development", "Production", " DEVELOPMENT ", "staging"]),
        "int": ("count", lambda: cc.IntField(min=0, max=100, default=1),
                ["42", "0080", " 7 ", "+5", "1_0", "1e3", "101", "abc", "4.0"]),
        "float": ("ratio", lambda: cc.FloatField(min=0.0, max=5000.0, default=0.5),
                  ["2.5", "1e3", " 3 ", ".5", "1_0.5", "nan", "inf", "5001", "abc"]),
        "port": ("port", lambda: cc.PortField(default=80), ["8080", "0080", " 443 ", "0", "65536", "http"]),
        "bool": ("verbose", lambda: cc.BoolField(default=False), ["<on>", "<off>"]),
        "bool-default-true": ("color_on", lambda: cc.BoolField(default=True), ["<on>", "<off>"]),
        "hostname": ("host", lambda: cc.HostnameField(default="localhost"),
                     ["example.com", "EXAMPLE.com", "127.0.0.1", "127.000.000.001", "a b", ""]),
        "hostname-no-ipv4": ("peer", lambda: cc.HostnameField(allow_ipv4=False, default="localhost"),
                             ["example.com", "10.0.0.1"]),
        "ipv4": ("addr", lambda: cc.IPv4AddressField(default="127.0.0.1"), ["10.0.0.1", "010.0.0.1", "999.1.1.1", "host"]),
        "ipv4net": ("net", lambda: cc.IPv4NetworkField(default="10.0.0.0/8"),
                    ["192.168.0.0/16", "10.0.0.0/255.0.0.0", "10.0.0.1", "10.0.0.1/8", "nope"]),
        "url": ("url", lambda: cc.UrlField(default="http://a"), ["https://example.com/x?y=1", "HTTP://EXAMPLE.COM", "noscheme"]),
        "filename": ("path", lambda: cc.FilenameField(startdir="/rac-c16-base/dir", default=None),
                     ["rel/name.txt", "/abs/name.txt", "../up.txt"]),
        "filename-must-exist": ("src", lambda: cc.FilenameField(exists=True, default=None), ["/nonexistent-rac-c16/x"]),
    }


def _check_prefilter(kind, text, nested):
    """the generated option must take whatever text the field itself takes by assignment, store what `cfg[path] = text`
    stores, and hand a text the field rejects to cmdline_args_override (ValidationError), never exit in parse_args"""
    import cincoconfig as cc
    key, factory, _texts = _prefilter_kinds()[kind]
    wk = "parser-prefilters:%s" % kind

    def build():
        schema = cc.Schema()
        schema.other = cc.IntField(default=1)
        if nested:
            setattr(schema.app, key, factory())
        else:
            setattr(schema, key, factory())
        return schema

    path = ("app." if nested else "") + key
    schema = build()
    try:
        parser = cc.generate_argparse_parser(schema, prog="rac", add_help=False)
    except Exception as exc:
        return [("support:generate_argparse_parser/raise:C16.total-on-collision-free-schemas",
                 "generate_argparse_parser raised %s: %s" % (type(exc).__name__, exc), wk)]
    if text == "<on>":
        argv, raw = [_opt(path)], True
    elif text == "<off>":
        argv, raw = [_off(path)], False
    else:
        argv, raw = [_opt(path), text], text

    def observe(cfg):
        out = {}
        for p in (path, "other"):
            v = cfg[p]
            out[p] = (type(v).__name__, repr(v), cc.is_value_defined(cfg, p))
        return out

    twin = schema()
    try:
        twin[path] = raw
        by_assignment = None
    except Exception as exc:
        by_assignment = exc
    want = observe(twin)
    err = io.StringIO()
    try:
        with contextlib.redirect_stderr(err):
            ns = parser.parse_args(argv)
    except SystemExit:
        if by_assignment is None:
            return [("support:generate_argparse_parser/post:C16.parser-accepts-what-the-field-accepts",
                     "%s: `cfg[%r] = %r` is accepted (stores %r) but parse_args(%r) exits: %s"
                     % (kind, path, raw, want[path][:2], argv, err.getvalue().strip().splitlines()[-1:]), wk)]
        return [("support:cmdline_args_override/raise:C16.rejection-is-the-fields-validation-error",
                 "%s: %r is rejected by the field (%s) but the rejection surfaces as an argparse exit in parse_args(%r), not "
                 "as ValidationError from cmdline_args_override" % (kind, raw, type(by_assignment).__name__, argv), wk)]
    except Exception as exc:
        return [("support:generate_argparse_parser/post:C16.parser-accepts-what-the-field-accepts",
                 "%s: parse_args(%r) raised %s: %s" % (kind, argv, type(exc).__name__, exc), wk)]
    cfg = schema()
    try:
        cc.cmdline_args_override(cfg, ns)
        raised = None
    except Exception as exc:
        raised = exc
    if by_assignment is not None:
        if not isinstance(raised, cc.ValidationError) or not isinstance(by_assignment, cc.ValidationError):
            return [("support:cmdline_args_override/raise:C16.rejection-is-the-fields-validation-error",
                     "%s: assignment of %r raises %r; cmdline_args_override after parse_args(%r) raised %r (stored %r)"
                     % (kind, raw, by_assignment, argv, raised, observe(cfg)[path][:2]), wk)]
        return []
    if raised is not None:
        return [("support:cmdline_args_override/post:C16.stores-what-assignment-stores",
                 "%s: `cfg[%r] = %r` is accepted but cmdline_args_override after parse_args(%r) raised %s: %s"
                 % (kind, path, raw, argv, type(raised).__name__, raised), wk)]
    got = observe(cfg)
    if got != want:
        return [("support:cmdline_args_override/post:C16.stores-what-assignment-stores",
                 "%s: command line %r leaves (type, value, user-defined) %r, `cfg[%r] = %r` leaves %r"
                 % (kind, argv, got, path, raw, want), wk)]
    return []


# ------------------------------------------------------------------------------------------------ ignore names vs destinations
IGNORE_SCHEMAS = {
    "nested": [["schema", "log", [["leaf", "level", "str"]]],
               ["schema", "db", [["leaf", "port", "port"], ["leaf", "port_retries", "int"], ["leaf", "ssl", "bool_f"],
                                 ["leaf", "sslmode", "str"]]],
               ["schema", "a", [["leaf", "b", "int"]]],
               ["leaf", "ab", "int"]],
    "flat": [["leaf", "log_level", "str"], ["leaf", "logs", "int"], ["leaf", "port", "port"],
             ["leaf", "port_retries", "int"]],
}
# (relation, schema, supplied destinations, ignored name(s))
IGNORE_CASES = [
    ("prefix-without-boundary", "nested", ["db.port_retries", "db.port"], ["db.port"]),
    ("prefix-without-boundary", "nested", ["db.port_retries"], ["db.port"]),
    ("prefix-without-boundary", "nested", ["db.sslmode", "db.ssl"], ["db.ssl"]),
    ("prefix-without-boundary", "nested", ["db.sslmode"], ["db.ssl"]),
    ("prefix-without-boundary", "flat", ["log_level", "logs"], ["log"]),
    ("prefix-without-boundary", "flat", ["port_retries"], ["port"]),
    ("prefix-at-dot-boundary(section-name)", "nested", ["log.level"], ["log"]),
    ("prefix-at-dot-boundary(section-name)", "nested", ["a.b", "ab"], ["a"]),
    ("prefix-at-dot-boundary(section-name)", "nested", ["db.port", "db.ssl", "db.sslmode"], ["db"]),
    ("prefix-including-dot", "nested", ["db.port", "db.sslmode"], ["db."]),
    ("suffix-at-dot-boundary", "nested", ["log.level"], ["level"]),
    ("suffix-at-dot-boundary", "nested", ["db.port"], ["port"]),
    ("suffix-without-boundary", "nested", ["db.sslmode"], ["mode"]),
    ("suffix-without-boundary", "flat", ["log_level"], ["level"]),
    ("substring", "nested", ["db.port_retries"], ["port"]),
    ("substring", "nested", ["db.port"], ["b.p"]),
    ("substring", "flat", ["log_level"], ["g_l"]),
    ("supplied-is-prefix-of-ignored", "nested", ["db.port"], ["db.port_retries"]),
    ("supplied-is-prefix-of-ignored", "nested", ["db.ssl"], ["db.sslmode"]),
    ("supplied-is-prefix-of-ignored", "nested", ["a.b"], ["a.b.c"]),
    ("supplied-is-prefix-of-ignored", "flat", ["port"], ["port_retries"]),
    ("exact-name-among-lookalikes", "nested", ["db.port", "db.port_retries", "db.ssl", "db.sslmode"], ["db.port", "db.ssl"]),
    ("exact-name-among-lookalikes", "nested", ["a.b", "ab"], ["ab"]),
    ("case-differs", "flat", ["log_level"], ["LOG_LEVEL"]),
    ("option-spelling-not-destination", "nested", ["db.port_retries"], ["db-port-retries"]),
    ("option-spelling-not-destination", "nested", ["db.port_retries"], ["--db-port-retries"]),
]


def _check_ignore(index, form, state):
    relation, schema_name, supplied_paths, names = IGNORE_CASES[index]
    desc = IGNORE_SCHEMAS[schema_name]
    kinds = _kinds()
    kind_of = dict((p, k) for p, k in _paths(desc) if k is not None)
    supplied = []
    for p in supplied_paths:
        _f, cls, text, stored, _alt, _bad = kinds[kind_of[p]]
        supplied.append([p, [_opt(p), text], ["value", stored]] if cls == "scalar" else [p, [_opt(p)], ["value", True]])
    ignore = names[0] if form == "str" else list(names)
    wk = "ignore-name:%s/%s" % (relation, form)
    out = []
    for obligation, what, _k in _check_override(desc, supplied, ignore, state):
        out.append((obligation, "[ignore %r, supplied %r] %s" % (ignore, supplied_paths, what), wk))
    return out


CHECKS = {"naming": lambda c: _check_naming(c["schema"]),
          "schema-change": lambda c: _check_schema_change(c["change"], c["before"], c["after"]),
          "prefilter": lambda c: _check_prefilter(c["kind"], c["text"], c["nested"]),
          "ignore-name": lambda c: _check_ignore(c["index"], c["form"], c["state"]),
          "history": lambda c: _check_history(c["component"], c["mount"], c["reads"]),
          "config": lambda c: _check_config_access(c["schema"], c["state"]),
          "parser": lambda c: _check_parser(c["schema"], c["target"]),
          "override": lambda c, pre=None: _check_override(c["schema"], c["supplied"], c["ignore"], c["state"], pre)}


def replay(case):
    with sandbox():
        fails = CHECKS[case["check"]](case)
    want = case.get("obligation")
    hit = [f for f in fails if want is None or f[0] == want]
    return {"fails": bool(hit), "expected": "no failed clause" + (" (%s)" % want if want else ""),
            "observed": [{"obligation": f[0], "what": f[1], "witness_key": f[2]} for f in fails][:10]}


def rac(tier="quick", seed=0):
    rec = Recorder(
        PID,
        rule="schema = tree shape (depth <= 3, width <= 3) with keys alpha/b_two/Cx by sibling position and leaf kinds "
             "rotating through 10 field kinds (quick: offsets 3i and 3i+5 mod 10 for shape i; thorough: 4 offsets); cases: (schema, naming), (schema, config access, state), "
             "(schema, parser, schema|config), (schema, command line, ignore list, state); a case is non-trivial iff "
             "the schema has at least one field (all do); distinct by full description; every naming case also starts the "
             "enumeration at each nested schema and at each sub-configuration (strict: full reference paths); (component, mount, reads) = "
             "construction history: a detached component schema is built, its reference paths are read (or not) before "
             "and/or after each mount step, it is mounted into the root, then all naming/config/parser clauses are "
             "evaluated on the final root; (change, before, after) -> enumerate / generate the parser / look paths up, "
             "change the live schema, then all clauses for the CURRENT schema through another entry point; "
             "(field kind, text, nested) -> parse_args + cmdline_args_override vs "
             "`cfg[path] = text` on a twin configuration; (ignore case, str|list, state) -> override with an ignore name that "
             "textually resembles a supplied destination: only exact destination names are ignored",
        bound="schema changes between enumerations: 13 changes (field added two levels down by attribute / by item path, "
              "bool added, field at root, bool->str, int->bool, scalar->list, sub-schema added by attribute / item path, "
              "stand-alone schema attached nested / at root, field added to a list's item schema, two changes in a row) x 4 "
              "first entry points (root, nested, configuration, all incl. parser and lookups) x 4 second entry points (root, "
              "nested, configuration built before, configuration built after), <= 16 command lines each; "
              "parser pre-filtering: 18 normalising/constraining scalar field kinds x 2-9 texts (canonical, valid only after "
              "the field's normalisation, rejected) x root/nested; ignore names: 26 (ignored name, supplied destinations) "
              "pairs in 9 textual relations (prefix/suffix/substring with and without '.' boundary, reverse, exact among "
              "lookalikes, case, option spelling) x str/list x fresh/dirty; histories: 3 components (flat, nested, depth 3) x 8 mounts (attribute, two levels, schema['a.b'] = c, "
              "schema['a.b.c'] = c, via detached parent, parent first, moved from a discarded holder, moved between two "
              "parents) x 4 read schedules (never, before, after each step, both); "
              "3 flat + 81 depth-2 shapes (exhaustive for width <= 3) + 51 depth-3 shapes; command "
              "lines: empty, every single option (on and off for booleans), up to 6 pairs, all options at once, up to 2 "
              "invalid values; ignore lists: None, [], [supplied], 'supplied' (str), [unsupplied], all supplied; states: "
              "fresh defaults (all ignore lists), every leaf user-set (quick: ignore None and [supplied] only)",
        tier=tier, seed=seed)
    shapes = _shapes(tier)
    with sandbox():
        extra = []
        for kind, (_key, _factory, texts) in _prefilter_kinds().items():
            for text in texts:
                for nested in (False, True):
                    extra.append({"check": "prefilter", "kind": kind, "text": text, "nested": nested})
        for index, (_rel, _schema_name, _sup, names) in enumerate(IGNORE_CASES):
            for form in ("list", "str") if len(names) == 1 else ("list",):
                for st in ("fresh", "dirty"):
                    extra.append({"check": "ignore-name", "index": index, "form": form, "state": st})
        for change in SCHEMA_CHANGES:
            for before in CHANGE_BEFORE:
                for after in CHANGE_AFTER:
                    extra.append({"check": "schema-change", "change": change, "before": before, "after": after})
        for case in extra:
            fails = CHECKS[case["check"]](case)
            rec.case(key=tuple(sorted((k, repr(v)) for k, v in case.items())), nontrivial=True,
                     sample=case if case in ({"check": "prefilter", "kind": "loglevel", "text": "DEBUG", "nested": True},
                                             {"check": "ignore-name", "index": 0, "form": "list", "state": "fresh"},
                                             {"check": "schema-change", "change": "replace-bool-by-str", "before": "nested",
                                              "after": "root"}) else None)
            for obligation, what, wk in fails:
                rp = dict(case)
                rp["obligation"] = obligation
                rec.violation(obligation=obligation, what=what, replay=rp, witness_key=wk)
    with sandbox():
        for component in COMPONENTS:
            for mount in MOUNTS:
                for reads in READS:
                    case = {"check": "history", "component": component, "mount": mount, "reads": reads}
                    fails = CHECKS["history"](case)
                    rec.case(key=("history", component, mount, reads), nontrivial=True,
                             sample=case if (component, mount, reads) == ("nested", "via-detached-parent", "before") else None)
                    for obligation, what, wk in fails:
                        rp = dict(case)
                        rp["obligation"] = obligation
                        rec.violation(obligation=obligation, what=what, replay=rp, witness_key=wk)
    with sandbox():
        for si, shape in enumerate(shapes):
            # quick: two kind offsets per shape, varying with the shape index so that every kind meets every position
            for off in ((si * 3) % 10, (si * 3 + 5) % 10) if tier == "quick" else (0, 3, 5, 7):
                desc = _assign(shape, off)
                cases = [{"check": "naming", "schema": desc}]
                cases += [{"check": "config", "schema": desc, "state": st} for st in ("fresh", "dirty")]
                cases += [{"check": "parser", "schema": desc, "target": t} for t in ("schema", "config")]
                for supplied in _command_lines(desc, tier):
                    for ignore in _ignore_lists(desc, supplied):
                        for st in ("fresh", "dirty"):
                            if tier == "quick" and st == "dirty" and not (ignore is None or (ignore and supplied and
                                                                         ignore == [supplied[0][0]])):
                                continue
                            cases.append({"check": "override", "schema": desc, "supplied": supplied, "ignore": ignore,
                                          "state": st})
                import cincoconfig as cc
                pre_schema = _build(desc)
                try:
                    pre = (pre_schema, cc.generate_argparse_parser(pre_schema, prog="rac", add_help=False))
                except Exception:
                    pre = None  # reported by the parser / override checks themselves
                for case in cases:
                    if case["check"] == "override":
                        fails = CHECKS["override"](case, pre)
                    else:
                        fails = CHECKS[case["check"]](case)
                    rec.case(key=(si, off, case["check"], hashlib.md5(json.dumps(case, sort_keys=True).encode()).hexdigest()),
                             nontrivial=True,
                             sample=case if rec.evaluations % 1499 == 0 else None)
                    for obligation, what, wk in fails:
                        rp = dict(case)
                        rp["obligation"] = obligation
                        rec.violation(obligation=obligation, what=what, replay=rp, witness_key=wk)
    return rec.result(exhaustive=False)
